package main

import (
	"go/ast"
	"go/token"
	"go/types"
	"strings"

	"golang.org/x/tools/go/ast/astutil"
)

// Access instrumentation (C09 builds only): every read / write of a field of a struct type declared in an
// instrumented package is wrapped as *vsched.R(&x.f, site) / *vsched.W(&x.f, site); index / assignment /
// delete / range on a map held in such a field as vsched.MR(m, site)[k] / vsched.MW(m, site)[k].

type accessCounts struct{ Reads, Writes, MapReads, MapWrites, Skipped int }

var acnt accessCounts

func watchedPkg(p *types.Package) bool {
	if p == nil || !strings.HasPrefix(p.Path(), modPath) {
		return false
	}
	rel := strings.TrimPrefix(p.Path(), modPath)
	for _, bad := range []string{"/message", "/errors", "/log", "/internal/vs", "/internal/vh", "/internal/vc", "/internal/va", "/internal/vt", "/internal/ve", "/internal/vr", "/encoding/autogen"} {
		if strings.HasPrefix(rel, bad) {
			return false
		}
	}
	return true
}

func isSyncType(t types.Type) bool {
	n, ok := t.(*types.Named)
	if !ok {
		if a, ok := t.(*types.Alias); ok {
			return isSyncType(types.Unalias(a))
		}
		return false
	}
	if n.Obj().Pkg() == nil {
		return false
	}
	p := n.Obj().Pkg().Path()
	return p == "sync" || p == "sync/atomic" || strings.HasSuffix(p, "/internal/vsched") || strings.HasSuffix(p, "/internal/vsync") || strings.HasSuffix(p, "/internal/vatomic")
}

func (r *rewriter) addressable(e ast.Expr) bool {
	switch x := e.(type) {
	case *ast.Ident:
		if strings.HasPrefix(x.Name, "_v") {
			return true
		}
		_, ok := r.pkg.TypesInfo.ObjectOf(x).(*types.Var)
		return ok
	case *ast.ParenExpr:
		return r.addressable(x.X)
	case *ast.StarExpr:
		return true
	case *ast.SelectorExpr:
		sel := r.pkg.TypesInfo.Selections[x]
		if sel == nil || sel.Kind() != types.FieldVal {
			return false
		}
		if t := r.typeOf(x.X); t != nil {
			if _, ok := t.Underlying().(*types.Pointer); ok {
				return true
			}
		}
		// an already wrapped inner selector is (*vsched.R(&..)): a pointer indirection, hence addressable
		return r.addressable(x.X)
	case *ast.IndexExpr:
		t := r.typeOf(x.X)
		if t == nil {
			return false
		}
		switch t.Underlying().(type) {
		case *types.Slice:
			return true
		case *types.Array:
			return r.addressable(x.X)
		case *types.Pointer: // pointer to array
			return true
		}
		return false
	}
	return false
}

// fieldSel reports whether n is a field selection we watch.
func (r *rewriter) fieldSel(n *ast.SelectorExpr) (*types.Var, bool) {
	sel := r.pkg.TypesInfo.Selections[n]
	if sel == nil || sel.Kind() != types.FieldVal {
		return nil, false
	}
	f, ok := sel.Obj().(*types.Var)
	if !ok || !f.IsField() || !watchedPkg(f.Pkg()) {
		return nil, false
	}
	if isSyncType(f.Type()) {
		return nil, false
	}
	return f, true
}

func refLike(t types.Type) bool {
	switch t.Underlying().(type) {
	case *types.Pointer, *types.Interface, *types.Map, *types.Chan, *types.Slice, *types.Signature, *types.Basic:
		return true
	}
	return false
}

func (r *rewriter) accessPass() {
	writes := map[ast.Node]bool{}   // selector / index nodes in write position
	skip := map[ast.Node]bool{}     // selectors not to wrap
	mapWrite := map[ast.Node]bool{} // IndexExpr nodes in write position whose X is a watched map field
	markW := func(e ast.Expr) {
		for {
			p, ok := e.(*ast.ParenExpr)
			if !ok {
				break
			}
			e = p.X
		}
		switch x := e.(type) {
		case *ast.SelectorExpr:
			writes[x] = true
		case *ast.IndexExpr:
			mapWrite[x] = true
		}
	}
	pre := func(c *astutil.Cursor) bool {
		switch n := c.Node().(type) {
		case *ast.FuncDecl:
			r.funcs = append(r.funcs, funcName(n))
		case *ast.FuncLit:
			base := "?"
			if len(r.funcs) > 0 {
				base = r.funcs[len(r.funcs)-1]
			}
			r.funcs = append(r.funcs, base+".func")
		case *ast.AssignStmt:
			if n.Tok != token.DEFINE {
				for _, l := range n.Lhs {
					markW(l)
				}
			}
		case *ast.IncDecStmt:
			markW(n.X)
		case *ast.RangeStmt:
			if n.Tok == token.ASSIGN {
				if n.Key != nil {
					markW(n.Key)
				}
				if n.Value != nil {
					markW(n.Value)
				}
			}
		case *ast.UnaryExpr:
			if n.Op == token.AND {
				// address taken: not an access by itself (atomic operations record theirs in the shim)
				e := n.X
				for {
					p, ok := e.(*ast.ParenExpr)
					if !ok {
						break
					}
					e = p.X
				}
				if s, ok := e.(*ast.SelectorExpr); ok {
					skip[s] = true
				}
			}
		case *ast.CallExpr:
			if id, ok := n.Fun.(*ast.Ident); ok && id.Name == "delete" && len(n.Args) == 2 {
				if _, ok := r.pkg.TypesInfo.Uses[id].(*types.Builtin); ok {
					if s, ok := n.Args[0].(*ast.SelectorExpr); ok {
						mapWrite[s] = true // marks the map expression itself
					}
				}
			}
		case *ast.SelectorExpr:
			// x.f.g: the inner x.f is only an access if it yields a reference-like value; method calls on a
			// struct-valued field take its address instead
			if inner, ok := n.X.(*ast.SelectorExpr); ok {
				if f, ok := r.fieldSel(inner); ok && !refLike(f.Type()) {
					skip[inner] = true
				}
			}
		}
		return true
	}
	post := func(c *astutil.Cursor) bool {
		switch n := c.Node().(type) {
		case *ast.FuncDecl, *ast.FuncLit:
			r.funcs = r.funcs[:len(r.funcs)-1]
		case *ast.IndexExpr:
			// map held in a watched field
			s, ok := n.X.(*ast.StarExpr)
			_ = s
			_ = ok
		case *ast.SelectorExpr:
			if skip[n] {
				return true
			}
			f, ok := r.fieldSel(n)
			if !ok {
				return true
			}
			if !r.addressable(n) {
				acnt.Skipped++
				return true
			}
			// parent must not be the Sel of a qualified identifier etc.; a KeyValue key is an Ident, never a selector
			if kv, ok := c.Parent().(*ast.KeyValueExpr); ok && kv.Key == n {
				if _, isComp := r.typeOf(kv.Key).(*types.Struct); isComp {
					return true
				}
			}
			name := "R"
			if writes[n] {
				name = "W"
				acnt.Writes++
			} else {
				acnt.Reads++
			}
			r.needRT, r.changed = true, true
			site := r.site(n.Sel)
			wrapped := &ast.ParenExpr{X: &ast.StarExpr{X: call(rt(name), &ast.UnaryExpr{Op: token.AND, X: n}, site)}}
			// maps: x.m[k] / delete(x.m,k) / range x.m record an access on the map object itself
			if _, isMap := f.Type().Underlying().(*types.Map); isMap {
				mname := ""
				switch p := c.Parent().(type) {
				case *ast.IndexExpr:
					if p.X == n {
						if mapWrite[p] {
							mname = "MW"
						} else {
							mname = "MR"
						}
					}
				case *ast.RangeStmt:
					if p.X == n {
						mname = "MR"
					}
				case *ast.CallExpr:
					if mapWrite[n] {
						mname = "MW"
					} else if id, ok := p.Fun.(*ast.Ident); ok && id.Name == "len" {
						mname = "MR"
					}
				}
				if mname != "" {
					if mname == "MW" {
						acnt.MapWrites++
					} else {
						acnt.MapReads++
					}
					c.Replace(call(rt(mname), wrapped, site))
					return true
				}
			}
			c.Replace(wrapped)
		}
		return true
	}
	r.funcs = nil
	astutil.Apply(r.file, pre, post)
}
