// vrewrite: source-to-source instrumenter. It loads the packages of the module in
// -repo with full type information, rewrites every concurrency construct into calls of
// the vsched runtime (see DESIGN.md §2.1), writes the rewritten copies under -out and an
// overlay map (original path -> rewritten copy) to -overlay.
package main

import (
	"bytes"
	"encoding/json"
	"flag"
	"fmt"
	"go/ast"
	"go/constant"
	"go/printer"
	"go/token"
	"go/types"
	"os"
	"path/filepath"
	"sort"
	"strconv"
	"strings"

	"golang.org/x/tools/go/ast/astutil"
	"golang.org/x/tools/go/packages"
)

const modPath = "github.com/aptpod/iscp-go"

var shim = map[string]string{
	"sync":                       modPath + "/internal/vsync",
	"sync/atomic":                modPath + "/internal/vatomic",
	"time":                       modPath + "/internal/vtime",
	"context":                    modPath + "/internal/vcontext",
	"golang.org/x/sync/errgroup": modPath + "/internal/verrgroup",
	"math/rand":                  modPath + "/internal/vrand",
}

var deny = []string{"/examples/", "mock", "/internal/testdata", "/internal/vsched", "/internal/vsync", "/internal/vatomic", "/internal/vtime", "/internal/vcontext", "/internal/verrgroup", "/internal/vrand", "/internal/vh", "/transport/nic"}

type counts struct {
	Files, Imports, Go, Send, Recv, RangeChan, RangeMap, Select, Close int
}

var cnt counts

func die(f string, a ...any) {
	fmt.Fprintf(os.Stderr, "vrewrite: "+f+"\n", a...)
	os.Exit(2)
}

func main() {
	repo := flag.String("repo", "/repo", "module root")
	out := flag.String("out", "", "output directory")
	ovPath := flag.String("overlay", "", "overlay json to write (path->path map)")
	tags := flag.String("tags", "verif", "build tags")
	baseOverlay := flag.String("base-overlay", "", "overlay json (Replace map) applied while loading")
	access := flag.Bool("access", false, "also instrument field / map accesses (C09 builds)")
	flag.Parse()
	if *out == "" || *ovPath == "" {
		die("need -out and -overlay")
	}
	cfg := &packages.Config{
		Mode:       packages.NeedName | packages.NeedFiles | packages.NeedCompiledGoFiles | packages.NeedSyntax | packages.NeedTypes | packages.NeedTypesInfo | packages.NeedImports,
		Dir:        *repo,
		BuildFlags: []string{"-tags", *tags},
		Env:        append(os.Environ(), "GOFLAGS=-mod=mod", "GOPROXY=off"),
	}
	if *baseOverlay != "" {
		b, err := os.ReadFile(*baseOverlay)
		if err != nil {
			die("%v", err)
		}
		var m struct{ Replace map[string]string }
		if err := json.Unmarshal(b, &m); err != nil {
			die("%v", err)
		}
		cfg.Overlay = map[string][]byte{}
		for k, v := range m.Replace {
			c, err := os.ReadFile(v)
			if err != nil {
				die("%v", err)
			}
			cfg.Overlay[k] = c
		}
	}
	pkgs, err := packages.Load(cfg, "./...")
	if err != nil {
		die("load: %v", err)
	}
	sort.Slice(pkgs, func(i, j int) bool { return pkgs[i].PkgPath < pkgs[j].PkgPath })
	overlay := map[string]string{}
	for _, p := range pkgs {
		skip := false
		for _, d := range deny {
			if strings.Contains(p.PkgPath+"/", d) || strings.HasSuffix(p.PkgPath, strings.TrimSuffix(d, "/")) {
				skip = true
			}
		}
		if skip {
			continue
		}
		if len(p.Errors) > 0 {
			for _, e := range p.Errors {
				fmt.Fprintf(os.Stderr, "vrewrite: %s: %v\n", p.PkgPath, e)
			}
			die("package %s does not type-check", p.PkgPath)
		}
		for i, f := range p.Syntax {
			name := p.CompiledGoFiles[i]
			if !strings.HasPrefix(name, *repo+"/") || strings.HasSuffix(name, "_test.go") {
				continue
			}
			if strings.HasPrefix(filepath.Base(name), "zz_verif") {
				continue // injected harness glue: written against the shims already
			}
			r := &rewriter{pkg: p, file: f, fset: p.Fset, rel: strings.TrimPrefix(name, *repo+"/")}
			changed := r.rewrite()
			if *access {
				r.accessPass()
				if r.needRT && !r.rtImported {
					r.addImport()
				}
				changed = changed || r.changed
			}
			if !changed {
				continue
			}
			src, err := os.ReadFile(name)
			if err != nil {
				die("%v", err)
			}
			var buf bytes.Buffer
			for _, l := range strings.Split(string(src), "\n") {
				t := strings.TrimSpace(l)
				if strings.HasPrefix(t, "package ") {
					break
				}
				if strings.HasPrefix(t, "//go:build") || strings.HasPrefix(t, "// +build") {
					buf.WriteString(t + "\n\n")
				}
			}
			f.Comments = nil
			stripDocs(f)
			if err := (&printer.Config{Mode: printer.UseSpaces | printer.TabIndent, Tabwidth: 8}).Fprint(&buf, p.Fset, f); err != nil {
				die("print %s: %v", name, err)
			}
			dst := filepath.Join(*out, r.rel)
			if err := os.MkdirAll(filepath.Dir(dst), 0o755); err != nil {
				die("%v", err)
			}
			if err := os.WriteFile(dst, buf.Bytes(), 0o644); err != nil {
				die("%v", err)
			}
			overlay[name] = dst
			cnt.Files++
		}
	}
	b, _ := json.MarshalIndent(overlay, "", " ")
	if err := os.WriteFile(*ovPath, b, 0o644); err != nil {
		die("%v", err)
	}
	if *access {
		ab, _ := json.Marshal(acnt)
		fmt.Fprintf(os.Stderr, "vrewrite: access %s\n", ab)
	}
	cb, _ := json.Marshal(cnt)
	os.WriteFile(filepath.Join(*out, "counts.json"), cb, 0o644)
	fmt.Fprintf(os.Stderr, "vrewrite: %s\n", cb)
}

// stripDocs removes doc comments (they carry stale positions).
func stripDocs(f *ast.File) {
	f.Doc = nil
	ast.Inspect(f, func(n ast.Node) bool {
		switch x := n.(type) {
		case *ast.GenDecl:
			x.Doc = nil
		case *ast.FuncDecl:
			x.Doc = nil
		case *ast.Field:
			x.Doc, x.Comment = nil, nil
		case *ast.ValueSpec:
			x.Doc, x.Comment = nil, nil
		case *ast.TypeSpec:
			x.Doc, x.Comment = nil, nil
		case *ast.ImportSpec:
			x.Doc, x.Comment = nil, nil
		}
		return true
	})
}

type rewriter struct {
	pkg     *packages.Package
	file    *ast.File
	fset    *token.FileSet
	rel     string
	n       int
	changed bool
	needRT  bool
	skip    map[ast.Node]bool
	hoisted map[ast.Stmt]bool
	funcs   []string
	rtImported bool
}

func (r *rewriter) fresh(p string) *ast.Ident {
	r.n++
	return ast.NewIdent(fmt.Sprintf("_v%s%d", p, r.n))
}

func (r *rewriter) site(n ast.Node) ast.Expr {
	pos := r.fset.Position(n.Pos())
	fn := "?"
	if len(r.funcs) > 0 {
		fn = r.funcs[len(r.funcs)-1]
	}
	pk := strings.TrimPrefix(r.pkg.PkgPath, modPath+"/")
	s := fmt.Sprintf("%s.%s@%s:%d", pk, fn, filepath.Base(pos.Filename), pos.Line)
	return &ast.BasicLit{Kind: token.STRING, Value: strconv.Quote(s)}
}

func rt(name string) ast.Expr {
	return &ast.SelectorExpr{X: ast.NewIdent("vsched"), Sel: ast.NewIdent(name)}
}

func call(fun ast.Expr, args ...ast.Expr) *ast.CallExpr {
	return &ast.CallExpr{Fun: fun, Args: args}
}

func define(lhs []ast.Expr, rhs ...ast.Expr) *ast.AssignStmt {
	return &ast.AssignStmt{Lhs: lhs, Tok: token.DEFINE, Rhs: rhs}
}

func (r *rewriter) typeOf(e ast.Expr) types.Type {
	return r.pkg.TypesInfo.TypeOf(e)
}

func (r *rewriter) isConstOrNil(e ast.Expr) bool {
	tv, ok := r.pkg.TypesInfo.Types[e]
	if !ok {
		return false
	}
	if tv.Value != nil && tv.Value.Kind() != constant.Unknown {
		return true
	}
	if tv.IsNil() {
		return true
	}
	if b, ok := tv.Type.(*types.Basic); ok && b.Info()&types.IsUntyped != 0 {
		return true
	}
	return false
}

func isBlank(e ast.Expr) bool {
	id, ok := e.(*ast.Ident)
	return ok && id.Name == "_"
}

func unparen(e ast.Expr) ast.Expr {
	for {
		p, ok := e.(*ast.ParenExpr)
		if !ok {
			return e
		}
		e = p.X
	}
}

func funcName(d *ast.FuncDecl) string {
	if d.Recv != nil && len(d.Recv.List) > 0 {
		t := d.Recv.List[0].Type
		star := ""
		if s, ok := t.(*ast.StarExpr); ok {
			star = "*"
			t = s.X
		}
		if ix, ok := t.(*ast.IndexExpr); ok {
			t = ix.X
		}
		if ix, ok := t.(*ast.IndexListExpr); ok {
			t = ix.X
		}
		if id, ok := t.(*ast.Ident); ok {
			return "(" + star + id.Name + ")." + d.Name.Name
		}
	}
	return d.Name.Name
}

func (r *rewriter) rewrite() bool {
	r.skip = map[ast.Node]bool{}
	r.hoisted = map[ast.Stmt]bool{}
	// imports
	for _, im := range r.file.Imports {
		p, _ := strconv.Unquote(im.Path.Value)
		np, ok := shim[p]
		if !ok {
			continue
		}
		if im.Name == nil {
			base := p[strings.LastIndex(p, "/")+1:]
			im.Name = ast.NewIdent(base)
		}
		im.Path = &ast.BasicLit{Kind: token.STRING, Value: strconv.Quote(np)}
		im.EndPos = token.NoPos
		r.changed = true
		cnt.Imports++
	}
	pre := func(c *astutil.Cursor) bool {
		switch n := c.Node().(type) {
		case *ast.FuncDecl:
			r.funcs = append(r.funcs, funcName(n))
		case *ast.FuncLit:
			base := "?"
			if len(r.funcs) > 0 {
				base = r.funcs[len(r.funcs)-1]
			}
			r.funcs = append(r.funcs, base+".func")
		case *ast.SelectStmt:
			for _, cl := range n.Body.List {
				cc := cl.(*ast.CommClause)
				switch s := cc.Comm.(type) {
				case *ast.SendStmt:
					r.skip[s] = true
				case *ast.ExprStmt:
					r.skip[unparen(s.X)] = true
				case *ast.AssignStmt:
					r.skip[unparen(s.Rhs[0])] = true
				}
			}
		}
		return true
	}
	post := func(c *astutil.Cursor) bool {
		switch n := c.Node().(type) {
		case *ast.FuncDecl:
			r.funcs = r.funcs[:len(r.funcs)-1]
		case *ast.FuncLit:
			r.funcs = r.funcs[:len(r.funcs)-1]
		case *ast.GoStmt:
			c.Replace(r.goStmt(n))
		case *ast.SendStmt:
			if !r.skip[n] {
				c.Replace(r.sendStmt(n))
			}
		case *ast.UnaryExpr:
			if n.Op == token.ARROW && !r.skip[n] {
				c.Replace(r.recvExpr(n, c.Parent()))
			}
		case *ast.CallExpr:
			if id, ok := n.Fun.(*ast.Ident); ok && id.Name == "close" && len(n.Args) == 1 {
				if _, ok := r.pkg.TypesInfo.Uses[id].(*types.Builtin); ok {
					r.needRT, r.changed = true, true
					cnt.Close++
					c.Replace(call(rt("Close"), n.Args[0], r.site(n)))
				}
			}
		case *ast.RangeStmt:
			t := r.typeOf(n.X)
			if t == nil {
				die("%s: no type for range expression", r.fset.Position(n.Pos()))
			}
			switch u := t.Underlying().(type) {
			case *types.Chan:
				c.Replace(r.rangeChan(n))
			case *types.Map:
				c.Replace(r.rangeMap(n))
			case *types.TypeParam, *types.Interface:
				if ct := coreType(t); ct != nil {
					if _, ok := ct.(*types.Chan); ok {
						die("%s: range over a type-parameter channel is not supported", r.fset.Position(n.Pos()))
					}
				}
				_ = u
			}
		case *ast.SelectStmt:
			c.Replace(r.selectStmt(n))
		case *ast.LabeledStmt:
			if b, ok := n.Stmt.(*ast.BlockStmt); ok && r.hoisted[b] {
				last := b.List[len(b.List)-1]
				b.List[len(b.List)-1] = &ast.LabeledStmt{Label: n.Label, Stmt: last}
				c.Replace(b)
			}
		}
		return true
	}
	astutil.Apply(r.file, pre, post)
	if r.needRT {
		r.addImport()
	}
	return r.changed
}

func coreType(t types.Type) types.Type {
	tp, ok := t.(*types.TypeParam)
	if !ok {
		return t.Underlying()
	}
	iface := tp.Constraint().Underlying().(*types.Interface)
	var ct types.Type
	for i := 0; i < iface.NumEmbeddeds(); i++ {
		if u, ok := iface.EmbeddedType(i).(*types.Union); ok {
			for j := 0; j < u.Len(); j++ {
				ct = u.Term(j).Type().Underlying()
			}
		}
	}
	return ct
}

func (r *rewriter) addImport() {
	if r.rtImported {
		return
	}
	r.rtImported = true
	spec := &ast.ImportSpec{Name: ast.NewIdent("vsched"), Path: &ast.BasicLit{Kind: token.STRING, Value: strconv.Quote(modPath + "/internal/vsched")}}
	decl := &ast.GenDecl{Tok: token.IMPORT, Specs: []ast.Spec{spec}}
	// after the last import declaration
	idx := 0
	for i, d := range r.file.Decls {
		if g, ok := d.(*ast.GenDecl); ok && g.Tok == token.IMPORT {
			idx = i + 1
		}
	}
	r.file.Decls = append(r.file.Decls[:idx], append([]ast.Decl{decl}, r.file.Decls[idx:]...)...)
	r.file.Imports = append(r.file.Imports, spec)
}

// go f(a, b)  =>  { _vf := f; _va := a; vsched.Go(site, func() { _vf(_va, b) }) }
func (r *rewriter) goStmt(n *ast.GoStmt) ast.Stmt {
	r.needRT, r.changed = true, true
	cnt.Go++
	var stmts []ast.Stmt
	cl := n.Call
	fun := cl.Fun
	if lit, ok := fun.(*ast.FuncLit); ok && len(cl.Args) == 0 {
		return &ast.ExprStmt{X: call(rt("Go"), r.site(n), lit)}
	}
	hoistFun := true
	// generic functions needing inference, builtins and conversions are not hoisted
	switch f := unparen(fun).(type) {
	case *ast.Ident:
		if _, ok := r.pkg.TypesInfo.Instances[f]; ok {
			hoistFun = false
		}
		if _, ok := r.pkg.TypesInfo.Uses[f].(*types.Builtin); ok {
			hoistFun = false
		}
	case *ast.SelectorExpr:
		if _, ok := r.pkg.TypesInfo.Instances[f.Sel]; ok {
			hoistFun = false
		}
	}
	if tv, ok := r.pkg.TypesInfo.Types[fun]; ok && tv.IsType() {
		hoistFun = false
	}
	if hoistFun {
		id := r.fresh("f")
		stmts = append(stmts, define([]ast.Expr{id}, fun))
		fun = id
	}
	args := make([]ast.Expr, len(cl.Args))
	for i, a := range cl.Args {
		if r.isConstOrNil(a) {
			args[i] = a
			continue
		}
		if _, ok := a.(*ast.FuncLit); ok {
			args[i] = a
			continue
		}
		id := r.fresh("a")
		stmts = append(stmts, define([]ast.Expr{id}, a))
		args[i] = id
	}
	inner := &ast.CallExpr{Fun: fun, Args: args, Ellipsis: cl.Ellipsis}
	if cl.Ellipsis != token.NoPos {
		inner.Ellipsis = 1
	}
	lit := &ast.FuncLit{Type: &ast.FuncType{Params: &ast.FieldList{}}, Body: &ast.BlockStmt{List: []ast.Stmt{&ast.ExprStmt{X: inner}}}}
	stmts = append(stmts, &ast.ExprStmt{X: call(rt("Go"), r.site(n), lit)})
	b := &ast.BlockStmt{List: stmts}
	r.hoisted[b] = true
	return b
}

// ch <- v  =>  { _vc := ch; _vv := v; _vk := vsched.PreSend(_vc, site); _vc <- _vv; _vk.Done() }
func (r *rewriter) sendStmt(n *ast.SendStmt) ast.Stmt {
	r.needRT, r.changed = true, true
	cnt.Send++
	c := r.fresh("c")
	k := r.fresh("k")
	stmts := []ast.Stmt{define([]ast.Expr{c}, n.Chan)}
	val := n.Value
	if !r.isConstOrNil(val) {
		v := r.fresh("v")
		stmts = append(stmts, define([]ast.Expr{v}, val))
		val = v
	}
	stmts = append(stmts,
		define([]ast.Expr{k}, call(rt("PreSend"), c, r.site(n))),
		&ast.SendStmt{Chan: c, Value: val},
		&ast.ExprStmt{X: call(&ast.SelectorExpr{X: k, Sel: ast.NewIdent("Done")})},
	)
	b := &ast.BlockStmt{List: stmts}
	r.hoisted[b] = true
	return b
}

func (r *rewriter) recvExpr(n *ast.UnaryExpr, parent ast.Node) ast.Expr {
	r.needRT, r.changed = true, true
	cnt.Recv++
	name := "Recv"
	switch p := parent.(type) {
	case *ast.AssignStmt:
		if len(p.Lhs) == 2 && len(p.Rhs) == 1 {
			name = "Recv2"
		}
	case *ast.ValueSpec:
		if len(p.Names) == 2 && len(p.Values) == 1 {
			name = "Recv2"
		}
	}
	return call(rt(name), n.X, r.site(n))
}

// for x := range ch { body }  =>  { _vc := ch; for { x, _vok := vsched.Recv2(_vc, site); if !_vok { break }; body } }
func (r *rewriter) rangeChan(n *ast.RangeStmt) ast.Stmt {
	r.needRT, r.changed = true, true
	cnt.RangeChan++
	c := r.fresh("c")
	ok := r.fresh("ok")
	var head []ast.Stmt
	rc := call(rt("Recv2"), c, r.site(n))
	if n.Key == nil || isBlank(n.Key) {
		head = append(head, define([]ast.Expr{ast.NewIdent("_"), ok}, rc))
	} else if n.Tok == token.DEFINE {
		head = append(head, define([]ast.Expr{n.Key, ok}, rc))
	} else {
		head = append(head,
			&ast.DeclStmt{Decl: &ast.GenDecl{Tok: token.VAR, Specs: []ast.Spec{&ast.ValueSpec{Names: []*ast.Ident{ok}, Type: ast.NewIdent("bool")}}}},
			&ast.AssignStmt{Lhs: []ast.Expr{n.Key, ok}, Tok: token.ASSIGN, Rhs: []ast.Expr{rc}})
	}
	head = append(head, &ast.IfStmt{Cond: &ast.UnaryExpr{Op: token.NOT, X: ok}, Body: &ast.BlockStmt{List: []ast.Stmt{&ast.BranchStmt{Tok: token.BREAK}}}})
	body := &ast.BlockStmt{List: append(head, n.Body.List...)}
	loop := &ast.ForStmt{Body: body}
	b := &ast.BlockStmt{List: []ast.Stmt{define([]ast.Expr{c}, n.X), loop}}
	r.hoisted[b] = true
	return b
}

// for k, v := range m { body } => { _vm := m; for _, k := range vsched.SortedKeys(_vm) { v, _vok := _vm[k]; if !_vok { continue }; body } }
func (r *rewriter) rangeMap(n *ast.RangeStmt) ast.Stmt {
	r.needRT, r.changed = true, true
	cnt.RangeMap++
	m := r.fresh("m")
	var key ast.Expr = n.Key
	var pre []ast.Stmt
	tok := n.Tok
	if key == nil || isBlank(key) {
		key = r.fresh("k")
		tok = token.DEFINE
	}
	if n.Value != nil && !isBlank(n.Value) {
		ok := r.fresh("ok")
		idx := &ast.IndexExpr{X: m, Index: key}
		if n.Tok == token.DEFINE {
			pre = append(pre, define([]ast.Expr{n.Value, ok}, idx))
		} else {
			pre = append(pre,
				&ast.DeclStmt{Decl: &ast.GenDecl{Tok: token.VAR, Specs: []ast.Spec{&ast.ValueSpec{Names: []*ast.Ident{ok}, Type: ast.NewIdent("bool")}}}},
				&ast.AssignStmt{Lhs: []ast.Expr{n.Value, ok}, Tok: token.ASSIGN, Rhs: []ast.Expr{idx}})
		}
		pre = append(pre, &ast.IfStmt{Cond: &ast.UnaryExpr{Op: token.NOT, X: ok}, Body: &ast.BlockStmt{List: []ast.Stmt{&ast.BranchStmt{Tok: token.CONTINUE}}}})
	} else {
		ok := r.fresh("ok")
		idx := &ast.IndexExpr{X: m, Index: key}
		pre = append(pre, define([]ast.Expr{ast.NewIdent("_"), ok}, idx),
			&ast.IfStmt{Cond: &ast.UnaryExpr{Op: token.NOT, X: ok}, Body: &ast.BlockStmt{List: []ast.Stmt{&ast.BranchStmt{Tok: token.CONTINUE}}}})
	}
	if tok == token.ILLEGAL {
		tok = token.DEFINE
	}
	loop := &ast.RangeStmt{Key: ast.NewIdent("_"), Value: key, Tok: tok, X: call(rt("SortedKeys"), m, r.site(n)), Body: &ast.BlockStmt{List: append(pre, n.Body.List...)}}
	b := &ast.BlockStmt{List: []ast.Stmt{define([]ast.Expr{m}, n.X), loop}}
	r.hoisted[b] = true
	return b
}

func (r *rewriter) selectStmt(n *ast.SelectStmt) ast.Stmt {
	r.needRT, r.changed = true, true
	cnt.Select++
	var hoists []ast.Stmt
	var cases []ast.Expr
	hasDefault := false
	sel := r.fresh("s")
	var clauses []ast.Stmt
	idx := 0
	for _, cl := range n.Body.List {
		cc := cl.(*ast.CommClause)
		if cc.Comm == nil {
			hasDefault = true
			clauses = append(clauses, &ast.CaseClause{List: []ast.Expr{&ast.UnaryExpr{Op: token.SUB, X: &ast.BasicLit{Kind: token.INT, Value: "1"}}}, Body: cc.Body})
			continue
		}
		c := r.fresh("c")
		var native ast.Stmt
		dir := "RecvDir"
		switch s := cc.Comm.(type) {
		case *ast.SendStmt:
			dir = "SendDir"
			hoists = append(hoists, define([]ast.Expr{c}, s.Chan))
			val := s.Value
			if !r.isConstOrNil(val) {
				v := r.fresh("v")
				hoists = append(hoists, define([]ast.Expr{v}, val))
				val = v
			}
			native = &ast.SendStmt{Chan: c, Value: val}
		case *ast.ExprStmt:
			u := unparen(s.X).(*ast.UnaryExpr)
			hoists = append(hoists, define([]ast.Expr{c}, u.X))
			native = &ast.ExprStmt{X: &ast.UnaryExpr{Op: token.ARROW, X: c}}
		case *ast.AssignStmt:
			u := unparen(s.Rhs[0]).(*ast.UnaryExpr)
			hoists = append(hoists, define([]ast.Expr{c}, u.X))
			native = &ast.AssignStmt{Lhs: s.Lhs, Tok: s.Tok, Rhs: []ast.Expr{&ast.UnaryExpr{Op: token.ARROW, X: c}}}
		default:
			die("%s: unknown comm clause form %T", r.fset.Position(cc.Pos()), cc.Comm)
		}
		cases = append(cases, &ast.CompositeLit{Type: rt("Case"), Elts: []ast.Expr{
			&ast.KeyValueExpr{Key: ast.NewIdent("Dir"), Value: rt(dir)},
			&ast.KeyValueExpr{Key: ast.NewIdent("Ch"), Value: c},
		}})
		body := append([]ast.Stmt{native, &ast.ExprStmt{X: call(&ast.SelectorExpr{X: sel, Sel: ast.NewIdent("Done")})}}, cc.Body...)
		clauses = append(clauses, &ast.CaseClause{List: []ast.Expr{&ast.BasicLit{Kind: token.INT, Value: strconv.Itoa(idx)}}, Body: body})
		idx++
	}
	clauses = append(clauses, &ast.CaseClause{Body: []ast.Stmt{&ast.ExprStmt{X: call(ast.NewIdent("panic"), &ast.BasicLit{Kind: token.STRING, Value: strconv.Quote("vsched: bad select index")})}}})
	hd := "false"
	if hasDefault {
		hd = "true"
	}
	args := append([]ast.Expr{r.site(n), ast.NewIdent(hd)}, cases...)
	sw := &ast.SwitchStmt{
		Init: define([]ast.Expr{sel}, call(rt("Select"), args...)),
		Tag:  &ast.SelectorExpr{X: sel, Sel: ast.NewIdent("I")},
		Body: &ast.BlockStmt{List: clauses},
	}
	b := &ast.BlockStmt{List: append(hoists, sw)}
	r.hoisted[b] = true
	return b
}
