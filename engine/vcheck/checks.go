package main

// checks maps a property id to the harness that decides it.
var checks = map[string]checkDef{
	"C01": {Harness: "c01", Instrument: true},
	"C20": {Harness: "c01", Instrument: true},
	"C06": {Harness: "c06", Instrument: true},
	"C02": {Harness: "c02", Instrument: true},
	"C05": {Harness: "c05", Instrument: true},
	"C07": {Harness: "c07", Instrument: true},
	"C08": {Harness: "c08", Instrument: true},
	"C09": {Harness: "c09", Instrument: true, Access: true},
	"C10": {Harness: "c10", Instrument: true},
	"C03": {Harness: "c03", Instrument: true},
	"C04": {Harness: "c03", Instrument: true},
	"C15": {Harness: "c15", Instrument: true},
	"C16": {Harness: "c16", Instrument: true},
	"C11": {Harness: "c11"},
	"C12": {Harness: "c12"},
	"C13": {Harness: "c13", Stages: []stageDef{{Harness: "c13s", Instrument: true, Key: "concurrent_writers"}}},
	"C14": {Harness: "c14", Stages: []stageDef{{Harness: "c14s", Instrument: true, Key: "expiry_sweep"}}},
	"C17": {Harness: "c17"},
	"C18": {Harness: "c18", Instrument: true},
	"C19": {Harness: "c19", Instrument: true},
}
