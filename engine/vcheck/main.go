// vcheck builds a harness against the current working tree of /repo (through a
// go build -overlay that injects the scheduler runtime, the harness packages and,
// for instrumented harnesses, rewritten copies of the library sources) and runs it.
package main

import (
	"encoding/json"
	"fmt"
	"os"
	"os/exec"
	"os/signal"
	"path/filepath"
	"sort"
	"strings"
	"syscall"
	"time"
)

// repo is the tree under test. VERIF_REPO overrides it (used to run the checks against a scratch
// worktree carrying a deliberate property-breaking change; registered commands never set it).
var repo = func() string {
	if r := os.Getenv("VERIF_REPO"); r != "" {
		return r
	}
	return "/repo"
}()

const verif = "/verif"

type checkDef struct {
	Harness    string // directory under /verif/h
	Instrument bool
	Access     bool // also instrument field / map accesses (C09)
	// Stages are further harnesses of the same check; their evidence is merged into the main one under Key.
	Stages []stageDef
	Tags       string
	Args       []string
}

type stageDef struct {
	Harness    string
	Instrument bool
	Key        string
}

func fatal(code int, f string, a ...any) {
	fmt.Fprintf(os.Stderr, "vcheck: "+f+"\n", a...)
	os.Exit(code)
}

func goEnv() []string {
	env := []string{}
	for _, e := range os.Environ() {
		if strings.HasPrefix(e, "GOFLAGS=") || strings.HasPrefix(e, "GOPROXY=") || strings.HasPrefix(e, "GOTOOLCHAIN=") || strings.HasPrefix(e, "GOSUMDB=") {
			continue
		}
		env = append(env, e)
	}
	return append(env, "GOFLAGS=-mod=mod", "GOPROXY=off")
}

func addDir(ov map[string]string, srcDir, dstDir string) {
	ents, err := os.ReadDir(srcDir)
	if err != nil {
		return
	}
	for _, e := range ents {
		if e.IsDir() {
			addDir(ov, filepath.Join(srcDir, e.Name()), filepath.Join(dstDir, e.Name()))
			continue
		}
		if strings.HasSuffix(e.Name(), ".go") {
			ov[filepath.Join(dstDir, e.Name())] = filepath.Join(srcDir, e.Name())
		}
	}
}

// build creates the overlay and builds harness into scratch/h.bin.
var accessMode bool

func build(scratch, harness string, instrument bool, tags string, race bool) string {
	ov := map[string]string{}
	// runtime
	ents, _ := os.ReadDir(filepath.Join(verif, "rt"))
	for _, e := range ents {
		if e.IsDir() {
			addDir(ov, filepath.Join(verif, "rt", e.Name()), filepath.Join(repo, "internal", e.Name()))
		}
	}
	// harness packages (all of them are mapped; only the requested main is built)
	addDir(ov, filepath.Join(verif, "h"), filepath.Join(repo, "internal", "vh"))
	// injected in-package files
	addDir(ov, filepath.Join(verif, "inject"), repo)
	if instrument {
		rw := filepath.Join(verif, "bin", "vrewrite")
		rwArgs := []string{"-repo", repo, "-out", filepath.Join(scratch, "rw"), "-overlay", filepath.Join(scratch, "rw.json")}
		if accessMode {
			rwArgs = append(rwArgs, "-access")
		}
		cmd := exec.Command(rw, rwArgs...)
		cmd.Env = goEnv()
		cmd.Stdout = os.Stderr
		cmd.Stderr = os.Stderr
		if err := cmd.Run(); err != nil {
			fatal(2, "ENGINE-ERROR: rewriter failed: %v", err)
		}
		b, err := os.ReadFile(filepath.Join(scratch, "rw.json"))
		if err != nil {
			fatal(2, "ENGINE-ERROR: %v", err)
		}
		var m map[string]string
		if err := json.Unmarshal(b, &m); err != nil {
			fatal(2, "ENGINE-ERROR: %v", err)
		}
		for k, v := range m {
			ov[k] = v
		}
	}
	keys := make([]string, 0, len(ov))
	for k := range ov {
		keys = append(keys, k)
	}
	sort.Strings(keys)
	b, _ := json.MarshalIndent(map[string]any{"Replace": ov}, "", " ")
	ovPath := filepath.Join(scratch, "overlay.json")
	if err := os.WriteFile(ovPath, b, 0o644); err != nil {
		fatal(2, "ENGINE-ERROR: %v", err)
	}
	bin := filepath.Join(scratch, "h.bin")
	alltags := "verif"
	if tags != "" {
		alltags += "," + tags
	}
	args := []string{"build", "-tags", alltags, "-overlay", ovPath, "-o", bin}
	if race {
		args = append(args, "-race")
	}
	args = append(args, "./internal/vh/"+harness)
	cmd := exec.Command("go", args...)
	cmd.Dir = repo
	cmd.Env = goEnv()
	out, err := cmd.CombinedOutput()
	if err != nil {
		fatal(2, "ENGINE-ERROR: build of harness %s failed: %v\n%s", harness, err, out)
	}
	return bin
}

func mkScratch() string {
	base := os.Getenv("TMPDIR")
	if base == "" {
		base = "/tmp"
	}
	d, err := os.MkdirTemp(base, "verif-")
	if err != nil {
		fatal(2, "ENGINE-ERROR: %v", err)
	}
	return d
}

func main() {
	if len(os.Args) < 2 {
		fatal(2, "usage: vcheck run <ID> [--tier quick|thorough] | build <harness> [-i] -o <bin> | replay <file> | exec <harness> [-i] -- args")
	}
	scratch := mkScratch()
	cleanup := func() { os.RemoveAll(scratch) }
	sig := make(chan os.Signal, 1)
	signal.Notify(sig, syscall.SIGINT, syscall.SIGTERM)
	go func() { <-sig; cleanup(); os.Exit(130) }()
	code := run(scratch)
	cleanup()
	os.Exit(code)
}

func run(scratch string) int {
	switch os.Args[1] {
	case "exec":
		// vcheck exec <harness> [-i] [-race] [-tags t] -- args...
		harness := os.Args[2]
		instr, race := false, false
		tags := ""
		i := 3
		for ; i < len(os.Args) && os.Args[i] != "--"; i++ {
			switch os.Args[i] {
			case "-i":
				instr = true
			case "-access":
				instr, accessMode = true, true
			case "-race":
				race = true
			case "-tags":
				i++
				tags = os.Args[i]
			}
		}
		var rest []string
		if i < len(os.Args) {
			rest = os.Args[i+1:]
		}
		t0 := time.Now()
		bin := build(scratch, harness, instr, tags, race)
		fmt.Fprintf(os.Stderr, "vcheck: built %s in %.1fs\n", harness, time.Since(t0).Seconds())
		return execBin(bin, rest, scratch)
	case "build":
		// vcheck build <harness> <out> [-i] [-race]
		instr, race := false, false
		for _, a := range os.Args[4:] {
			if a == "-i" {
				instr = true
			}
			if a == "-race" {
				race = true
			}
		}
		bin := build(scratch, os.Args[2], instr, "", race)
		b, err := os.ReadFile(bin)
		if err != nil {
			fatal(2, "%v", err)
		}
		if err := os.WriteFile(os.Args[3], b, 0o755); err != nil {
			fatal(2, "%v", err)
		}
		return 0
	case "run":
		id := os.Args[2]
		tier := os.Getenv("VERIF_TIER")
		for i := 3; i < len(os.Args); i++ {
			if os.Args[i] == "--tier" && i+1 < len(os.Args) {
				if tier == "" {
					tier = os.Args[i+1]
				}
				i++
			}
		}
		if tier == "" {
			tier = "quick"
		}
		def, ok := checks[id]
		if !ok {
			fatal(2, "unknown check %s", id)
		}
		t0 := time.Now()
		accessMode = def.Access
		bin := build(scratch, def.Harness, def.Instrument, def.Tags, false)
		fmt.Fprintf(os.Stderr, "vcheck: built %s in %.1fs\n", def.Harness, time.Since(t0).Seconds())
		args := append([]string{"-id", id, "-tier", tier, "-verif", verif, "-build-s", fmt.Sprintf("%.1f", time.Since(t0).Seconds())}, def.Args...)
		code := execBin(bin, args, scratch)
		if code > 1 {
			return code
		}
		for i, st := range def.Stages {
			accessMode = false
			sbin := build(scratch, st.Harness, st.Instrument, def.Tags, false)
			evname := fmt.Sprintf("%s.stage%d", id, i+2)
			c2 := execBin(sbin, []string{"-id", id, "-tier", tier, "-verif", verif, "-evname", evname}, scratch)
			if c2 > 1 {
				return c2
			}
			if c2 > code {
				code = c2
			}
			if err := mergeEvidence(id, evname, st.Key); err != nil {
				fatal(2, "ENGINE-ERROR: merging evidence of stage %s: %v", st.Harness, err)
			}
		}
		return code
	case "replay":
		path := os.Args[2]
		b, err := os.ReadFile(path)
		if err != nil {
			fatal(2, "%v", err)
		}
		var r struct {
			Property string `json:"property"`
			Stage    string `json:"stage"`
		}
		if err := json.Unmarshal(b, &r); err != nil {
			fatal(2, "%v", err)
		}
		def, ok := checks[r.Property]
		if !ok {
			fatal(2, "unknown check %s", r.Property)
		}
		accessMode = def.Access
		harness, instr := def.Harness, def.Instrument
		for i, st := range def.Stages {
			if r.Stage == fmt.Sprintf("%s.stage%d", r.Property, i+2) {
				harness, instr, accessMode = st.Harness, st.Instrument, false
			}
		}
		bin := build(scratch, harness, instr, def.Tags, false)
		args := append([]string{"-id", r.Property, "-replay", path, "-verif", verif}, def.Args...)
		return execBin(bin, args, scratch)
	}
	fatal(2, "unknown command %s", os.Args[1])
	return 2
}

// mergeEvidence folds the evidence of a further stage into the main evidence file.
func mergeEvidence(id, evname, key string) error {
	out := verif
	if o := os.Getenv("VERIF_OUT"); o != "" {
		out = o
	}
	mainPath := filepath.Join(out, "evidence", id+".json")
	stagePath := filepath.Join(out, "evidence", evname+".json")
	var m, st map[string]any
	b, err := os.ReadFile(mainPath)
	if err != nil {
		return err
	}
	if err := json.Unmarshal(b, &m); err != nil {
		return err
	}
	b, err = os.ReadFile(stagePath)
	if err != nil {
		return err
	}
	if err := json.Unmarshal(b, &st); err != nil {
		return err
	}
	cov, _ := m["coverage"].(map[string]any)
	cov[key] = map[string]any{"level": st["level"], "coverage": st["coverage"], "assumptions": st["assumptions"], "wall_s": st["wall_s"], "violations": st["violations"]}
	if v, ok := st["violations"].(float64); ok {
		if mv, ok := m["violations"].(float64); ok {
			m["violations"] = mv + v
		}
	}
	if w, ok := st["wall_s"].(float64); ok {
		if mw, ok := m["wall_s"].(float64); ok {
			m["wall_s"] = mw + w
		}
	}
	nb, _ := json.MarshalIndent(m, "", " ")
	if err := os.WriteFile(mainPath, nb, 0o644); err != nil {
		return err
	}
	return os.Remove(stagePath)
}

func execBin(bin string, args []string, scratch string) int {
	// VERIF_OUT redirects evidence and replay files (runs against scratch trees must not touch /verif/evidence)
	if out := os.Getenv("VERIF_OUT"); out != "" {
		for i := range args {
			if args[i] == "-verif" && i+1 < len(args) {
				args[i+1] = out
			}
		}
		os.Setenv("VERIF_KNOWN", filepath.Join(verif, "known_findings.jsonl"))
	}
	cmd := exec.Command(bin, args...)
	cmd.Dir = verif
	cmd.Stdout = os.Stdout
	cmd.Stderr = os.Stderr
	cmd.Env = append(goEnv(), "VERIF_SCRATCH="+scratch, "VERIF_REPO_PATH="+repo)
	if err := cmd.Run(); err != nil {
		if ee, ok := err.(*exec.ExitError); ok {
			return ee.ExitCode()
		}
		fmt.Fprintf(os.Stderr, "vcheck: %v\n", err)
		return 2
	}
	return 0
}
