module vcheck

go 1.23
