//go:build verif

package segment

import "time"

// Verif* export the package's test seams to the /verif harnesses (overlay-injected, never committed
// to /repo). They only read or set the package variables the package's own tests set; no behaviour
// is changed.

// VerifMaxPayloadSize returns the number of message bytes carried by one datagram.
func VerifMaxPayloadSize() int { return maxPayloadSize }

// VerifSetMaxPayloadSize sets the segment payload size and returns the previous one.
func VerifSetMaxPayloadSize(n int) (old int) {
	old = maxPayloadSize
	maxPayloadSize = n
	return old
}

// VerifSetTimeNow replaces the package clock (nil restores time.Now).
func VerifSetTimeNow(f func() time.Time) {
	if f == nil {
		f = time.Now
	}
	timeNow = f
}
