//go:build verif

package webtransport

import (
	"io"

	"github.com/aptpod/iscp-go/internal/segment"
	webtransgo "github.com/quic-go/webtransport-go"
)

// Verif* seams for the /verif C13 harness (overlay-injected, never part of /repo).
//
// New() needs a concrete *webtransport.Session (it calls OpenUniStream/AcceptUniStream/
// ReceiveDatagram on it), which cannot be faked. VerifNewFraming builds a Transport whose stream
// framing path (Write, decodeFrom, receiveMessage, the byte counters) is usable on a caller-supplied
// send stream, without a session and without the reader goroutines. The field initialisation and
// the encode/decode selection are a verbatim copy of the corresponding lines of New().

func VerifNewFraming(config Config, send webtransgo.SendStream) *Transport {
	t := Transport{
		readBufferForUnreliable: &segment.ReadBuffers{
			ReadBuffer:       map[uint32]*segment.ReadBuffer{},
			ReadBufferExpiry: config.ReadBufferExpiry,
		},
		compressConfig:    config.NegotiationParams.CompressConfig(config.CompressConfig),
		negotiationParams: config.NegotiationParams,
		rxBytesCounter:    func(u uint64) *uint64 { return &u }(0),
		txBytesCounter:    func(u uint64) *uint64 { return &u }(0),
	}
	switch {
	case !t.compressConfig.Enable:
		t.decodeFunc = func(b []byte) ([]byte, error) { return b, nil }
		t.encodeFunc = func(b []byte, _ int) ([]byte, error) { return b, nil }
	default:
		t.decodeFunc = decodeWithCompression
		t.encodeFunc = encodeWithCompression
	}
	t.sendStream = send
	t.cancel = func() {}
	return &t
}

// VerifDecodeFrom reads one framed message from rd (the body of the read goroutine's loop).
func (t *Transport) VerifDecodeFrom(rd io.Reader) ([]byte, error) { return t.decodeFrom(rd) }

// VerifReceiveMessage feeds one received datagram to the reassembly + decode path.
func (t *Transport) VerifReceiveMessage(bs []byte) ([]byte, bool, error) { return t.receiveMessage(bs) }
