//go:build verif

package quic

import "sync/atomic"

// VerifSetSequenceNumber sets the datagram sequence counter of the transport (the next unreliable
// message gets n+1), so that the 32-bit wrap-around can be reached without sending 2^32 messages.
// Overlay-injected for the /verif harnesses; no behaviour is changed.
func (t *Transport) VerifSetSequenceNumber(n uint32) { atomic.StoreUint32(&t.sequenceNumber, n) }
