//go:build verif

package iscp

import (
	"fmt"

	"github.com/aptpod/iscp-go/transport"
)

// Verif* export package-private seams for the /verif harnesses (overlay-injected, never committed to /repo).

// VerifRegisterDialer registers a custom dialer under a transport name (the registry the library keeps "for testing").
func VerifRegisterDialer(name TransportName, f func() transport.Dialer) { customDialFuncs[name] = f }

// VerifSentStorage is the unexported sentStorage interface.
type VerifSentStorage = sentStorage

func VerifNewInmemSentStorage() VerifSentStorage          { return newInmemSentStorage() }
func VerifNewInmemSentStorageNoPayload() VerifSentStorage { return newInmemSentStorageNoPayload() }

// VerifWithSentStorage selects the sent storage of a connection.
func VerifWithSentStorage(s VerifSentStorage) ConnOption {
	return func(c *ConnConfig) { c.sentStorage = s }
}

// VerifDeterministicIDs makes call ids deterministic ("call-1", "call-2", ...) for replayable runs.
func VerifDeterministicIDs() {
	n := 0
	randomString = func() string { n++; return fmt.Sprintf("call-%d", n) }
}
