//go:build verif

package iscp

import (
	"context"
	"fmt"
	"time"

	"github.com/aptpod/iscp-go/transport"
)

// Verif* export package-private seams for the /verif harnesses (overlay-injected, never committed to /repo).

// VerifRegisterDialer registers a custom dialer under a transport name (the registry the library keeps "for testing").
func VerifRegisterDialer(name TransportName, f func() transport.Dialer) { customDialFuncs[name] = f }

// VerifSentStorage is the unexported sentStorage interface.
type VerifSentStorage = sentStorage

func VerifNewInmemSentStorage() VerifSentStorage          { return newInmemSentStorage() }
func VerifNewInmemSentStorageNoPayload() VerifSentStorage { return newInmemSentStorageNoPayload() }

// VerifWithSentStorage selects the sent storage of a connection.
func VerifWithSentStorage(s VerifSentStorage) ConnOption {
	return func(c *ConnConfig) { c.sentStorage = s }
}

// the package-level defaults as they are when the process starts. A harness process runs many executions: state
// that a (broken) library leaves in package-level variables must not leak from one execution into the next, or
// replays diverge. VerifDeterministicIDs restores it at the start of every execution.
var verifPristine = struct {
	flushInterval, closeTimeout, ackInterval, expiryInterval time.Duration
	flushBufferSize                                        int
	up                                                     UpstreamConfig
	down                                                   DownstreamConfig
	ackFlush                                               time.Duration
}{defaultFlushInterval, defaultCloseTimeout, defaultAckInterval, defaultExpiryInterval, defaultFlushBufferSize, defaultUpstreamConfig, defaultDownstreamConfig, defaultAckFlushInterval}

// VerifDeterministicIDs makes call ids deterministic ("call-1", "call-2", ...) for replayable runs and restores the
// package-level defaults.
func VerifDeterministicIDs() {
	n := 0
	randomString = func() string { n++; return fmt.Sprintf("call-%d", n) }
	defaultFlushInterval, defaultCloseTimeout, defaultAckInterval, defaultExpiryInterval = verifPristine.flushInterval, verifPristine.closeTimeout, verifPristine.ackInterval, verifPristine.expiryInterval
	defaultFlushBufferSize = verifPristine.flushBufferSize
	defaultUpstreamConfig, defaultDownstreamConfig = verifPristine.up, verifPristine.down
	defaultAckFlushInterval = verifPristine.ackFlush
}

// VerifConnStatus exposes the connection status primitive (connStatus) for the C05 lemma harness.
type VerifConnStatus struct{ s *connStatus }

func VerifNewConnStatus() *VerifConnStatus { return &VerifConnStatus{s: newConnState()} }

func (v *VerifConnStatus) WaitUntil(ctx context.Context, st int) error {
	return v.s.WaitUntil(ctx, connStatusValue(st))
}
func (v *VerifConnStatus) WaitUntilOrClosed(ctx context.Context, st int) error {
	return v.s.WaitUntilOrClosed(ctx, connStatusValue(st))
}
func (v *VerifConnStatus) WithCloseStatus(ctx context.Context) (context.Context, context.CancelFunc) {
	return v.s.WithCloseStatus(ctx)
}
func (v *VerifConnStatus) Swap(st int) int { return int(v.s.Swap(connStatusValue(st))) }
func (v *VerifConnStatus) CompareAndSwap(o, n int) bool {
	return v.s.CompareAndSwap(connStatusValue(o), connStatusValue(n))
}
func (v *VerifConnStatus) CompareAndSwapNot(o, n int) bool {
	return v.s.CompareAndSwapNot(connStatusValue(o), connStatusValue(n))
}
func (v *VerifConnStatus) Current() int { return int(v.s.Current()) }
