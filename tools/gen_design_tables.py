#!/usr/bin/env python3
"""Regenerates the generated tables of DESIGN.md (between <!-- BEGIN:x --> / <!-- END:x --> markers):
  repairs    from /repo's `fix:` commits + the `fixed` entries of known_findings.jsonl
  known      from the `known` entries of known_findings.jsonl
  detection  from mutants/results.json (written by mutants/all.py)
Nothing here is used by a check; it only keeps the document in step with the files the checks read."""
import json, subprocess, re, os, sys
V = '/verif'
def esc(s): return s.replace('|', '\\|').replace('\n', ' ')
entries = []
for l in open(f'{V}/known_findings.jsonl'):
    l = l.strip()
    if l and not l.startswith('#'):
        entries.append(json.loads(l))
# base commit = the pinned commit (first parent chain until the last non-fix commit)
log = subprocess.check_output(['git', '-C', '/repo', 'log', '--reverse', '--format=%h\t%s']).decode().splitlines()
fixes = [(h, s) for h, s in (x.split('\t', 1) for x in log) if s.startswith('fix:')]
by_commit = {}
for e in entries:
    if e['status'] == 'fixed':
        by_commit.setdefault(e.get('commit', '')[:7], []).append(e)
rows = ['| commit | fix | found by | failing input / history |', '|---|---|---|---|']
for h, s in fixes:
    es = by_commit.get(h[:7], [])
    props = ','.join(sorted({e['property'] for e in es})) or '(see text)'
    whats = []
    for e in es:
        if e['what'] not in whats:
            whats.append(e['what'])
    rows.append(f"| `{h}` | {esc(s[4:].strip())} | {props} | {esc(' / '.join(whats))} |")
repairs = '\n'.join(rows)
why = {
    'C01.ackhook:missing-at-close/reported-later=true/dev=true': 'design-level: hooks are dispatched by a separate goroutine; a barrier in Close would deadlock when Close is called from inside a hook',
    'C01.ackhook:ack-burst/results-beyond-1024-queued-dropped': 'design-level: the wire connection never blocks on a stream (one slow stream must not stall the dispatch of the others, C07/C08), so a bounded queue drops; the repair is a flow-control decision (unbounded queue, or back-pressure with its own isolation argument), not a patch',
}
rows = ['| property | signature | what fails | why not repaired |', '|---|---|---|---|']
for e in entries:
    if e['status'] == 'known':
        rows.append(f"| {e['property']} | `{esc(e['sig'])}` | {esc(e['what'])} | {why.get(e['sig'], '')} |")
known = '\n'.join(rows)
det = ''
rp = f'{V}/mutants/results.json'
if os.path.exists(rp):
    R = json.load(open(rp))
    rows = ['| change | origin | property | what it breaks / needs | detected by (tier) | first signature |', '|---|---|---|---|---|---|']
    for r in R['results']:
        rows.append(f"| `{r['name']}` | {r['origin']} | {r['property']} | {esc(r.get('what',''))} | {r['detected']} | `{esc(r.get('sig',''))}` |")
    det = '\n'.join(rows) + f"\n\n({len(R['results'])} changes; run of {R.get('date','?')} against /repo {R.get('repo_head','?')}; command: `mutants/all.py`" + ("; " + R['note'] if R.get('note') else "") + ")"
s = open(f'{V}/DESIGN.md').read()
for name, body in (('repairs', repairs), ('known', known), ('detection', det)):
    if not body:
        continue
    pat = re.compile(r'(<!-- BEGIN:%s -->\n).*?(\n<!-- END:%s -->)' % (name, name), re.S)
    if not pat.search(s):
        print('marker missing:', name)
        continue
    s = pat.sub(lambda m: m.group(1) + body + m.group(2), s)
open(f'{V}/DESIGN.md', 'w').write(s)
print('ok: %d fixes, %d known' % (len(fixes), sum(1 for e in entries if e['status'] == 'known')))
