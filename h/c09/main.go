// c09: data-race freedom. The workloads run under the controlled scheduler with field / map access
// instrumentation; a vector-clock happens-before detector (edges only from the program's own
// synchronisation) reports every unordered conflicting pair on the watched locations.
package main

import (
	"context"
	"fmt"
	"strings"
	"time"

	"github.com/aptpod/iscp-go/internal/vcontext"
	"github.com/aptpod/iscp-go/internal/vh/kit"
	"github.com/aptpod/iscp-go/internal/vh/lib"
	"github.com/aptpod/iscp-go/internal/vh/sim"
	"github.com/aptpod/iscp-go/internal/vsched"
	"github.com/aptpod/iscp-go/iscp"
	"github.com/aptpod/iscp-go/message"
	"github.com/aptpod/iscp-go/transport"
	"github.com/aptpod/iscp-go/transport/multi"
	"github.com/aptpod/iscp-go/transport/reconnect"
	uuid "github.com/google/uuid"
)

type params struct {
	W string // workload
	F int
	P int
}

func (p params) name() string { return fmt.Sprintf("%s/F%d/P%d", p.W, p.F, p.P) }

func scenarios(tier string) []vlib.Scenario {
	var out []vlib.Scenario
	add := func(p params) { out = append(out, vlib.Scenario{Name: p.name(), P: p}) }
	add(params{W: "W8-failure-four-streams", F: 0, P: 1})
	add(params{W: "W12-reads-at-failing-ack-flush", F: 0, P: 1})
	add(params{W: "W9-opens-during-outage", F: 1, P: 0})
	add(params{W: "W9-opens-during-outage", F: 1, P: 1})
	// a metadata item queued before an outage is read after (or while) the stream resumes
	add(params{W: "W11-metadata-across-resume", F: 0, P: 0})
	add(params{W: "W11-metadata-across-resume", F: 0, P: 1})
	// the link ends right behind an open or close response: the wire connection winds down while the response is processed
	add(params{W: "W10-link-ends-behind-response", F: 1, P: 0})
	add(params{W: "W10-link-ends-behind-response", F: 1, P: 1})
	for _, w := range []string{"W1-open-close-beside-traffic", "W2-up-down-state-readers", "W3-failure-two-streams", "W4-calls-metadata-reconnect", "W5-reconnect-transport", "W6-multi", "W7-store"} {
		f := 0
		if strings.HasPrefix(w, "W3") || strings.HasPrefix(w, "W4") {
			f = 1
		}
		if strings.HasPrefix(w, "W5") {
			f = 2
		}
		add(params{W: w, F: f, P: 0})
		add(params{W: w, F: f, P: 1})
	}
	if tier == "thorough" {
		for _, w := range []string{"W1-open-close-beside-traffic", "W2-up-down-state-readers", "W3-failure-two-streams", "W4-calls-metadata-reconnect"} {
			add(params{W: w, F: 2, P: 1})
		}
		add(params{W: "W6-multi", P: 2})
		add(params{W: "W7-store", P: 2})
	}
	return out
}

func config(sc vlib.Scenario, tier string) vsched.Config {
	p := sc.P.(params)
	cfg := vsched.Config{Preempt: 1, Switch: 1, SelCase: 1, Stall: 1, Timer: -1, Horizon: 90 * time.Second, MaxSteps: 600000, Races: true, Atomics: false}
	cfg.Budget[vsched.BudP] = p.P
	cfg.Budget[vsched.BudF] = p.F
	cfg.Scope = func(site string) bool {
		if strings.HasPrefix(p.W, "W12") {
			// deviations only where the reader and the ack flush meet
			for _, s := range []string{"flushAck", "(*Downstream).ReadDataPoints", "AckBuffer", "assignDataIDAlias", "assignUpstreamInfoAlias", "SendDownstreamDataPointsAck", "gatedWrite", "h:write:client"} {
				if strings.Contains(site, s) {
					return true
				}
			}
			return false
		}
		return strings.HasPrefix(site, "iscp.") || strings.HasPrefix(site, "wire.") || strings.HasPrefix(site, "transport/")
	}
	return cfg
}

type world struct {
	kit.World
	p    params
	rxn  map[string]int
	cuts int
}

func (w *world) script() *sim.Script {
	s := &sim.Script{}
	w.rxn = map[string]int{}
	s.Fault = func(c *sim.BConn, dir string, m message.Message) sim.FaultKind {
		if w.Phase != "traffic" {
			return sim.NoFault
		}
		interesting := false
		switch m.(type) {
		case *message.UpstreamChunk, *message.UpstreamCall, *message.UpstreamMetadata:
			interesting = dir == "rx"
		case *message.UpstreamResumeResponse, *message.DownstreamResumeResponse:
			interesting = dir == "tx"
		}
		if !interesting {
			return sim.NoFault
		}
		key := dir + ":" + kit.MsgName(m)
		w.rxn[key]++
		if vsched.ChooseBudget(fmt.Sprintf("cut@%s#%d", key, w.rxn[key]), 2, vsched.BudF) == 1 {
			w.cuts++
			return sim.FaultCut
		}
		return sim.NoFault
	}
	if strings.HasPrefix(w.p.W, "W10") {
		s.Fault = nil
		s.AfterSend = func(b *sim.Broker, c *sim.BConn, m message.Message) {
			if w.Phase != "traffic" {
				return
			}
			switch m.(type) {
			case *message.UpstreamOpenResponse, *message.UpstreamCloseResponse, *message.DownstreamOpenResponse, *message.DownstreamCloseResponse:
				key := "tx:" + kit.MsgName(m)
				w.rxn[key]++
				if vsched.ChooseBudget(fmt.Sprintf("eof-behind@%s#%d", key, w.rxn[key]), 2, vsched.BudF) == 1 {
					w.cuts++
					b.CloseConn(c) // delivered, then the link ends
				}
			}
		}
	}
	return s
}

func (w *world) connWorkload() {
	if err := w.Connect(w.script()); err != nil {
		return
	}
	ctx, cancel := kit.Ctx(40 * time.Second)
	defer cancel()
	var wg vsched.WaitGroup
	spawn := func(site string, f func()) {
		wg.Add(1)
		vsched.Go(site, func() { defer wg.Done(); f() })
	}
	up, err := w.OpenUp(ctx, "u0", iscp.WithUpstreamFlushPolicyImmediately(), iscp.WithUpstreamQoS(message.QoSReliable), iscp.WithUpstreamCloseTimeout(2*time.Second))
	if err != nil {
		return
	}
	w.Phase = "traffic"
	switch {
	case strings.HasPrefix(w.p.W, "W1-"):
		spawn("h:writer", func() {
			for i := 0; i < 3; i++ {
				up.Write(ctx, kit.IDA, fmt.Sprint(i))
			}
			up.U.Flush(ctx)
		})
		spawn("h:opener", func() {
			u2, err := w.OpenUp(ctx, "u1", iscp.WithUpstreamFlushPolicyNone(), iscp.WithUpstreamQoS(message.QoSUnreliable), iscp.WithUpstreamCloseTimeout(time.Second))
			if err == nil {
				u2.Write(ctx, kit.IDB, "x")
				u2.U.Close(ctx)
			}
		})
	case strings.HasPrefix(w.p.W, "W2"):
		dn, err := w.OpenDown(ctx, "d0", kit.Filter("src"), iscp.WithDownstreamQoS(message.QoSReliable), iscp.WithDownstreamAckFlushInterval(100*time.Millisecond))
		if err != nil {
			return
		}
		spawn("h:writer", func() {
			for i := 0; i < 2; i++ {
				up.Write(ctx, kit.IDA, fmt.Sprint(i))
			}
		})
		spawn("h:reader", func() {
			for i := 0; i < 2; i++ {
				rctx, rcancel := kit.Ctx(3 * time.Second)
				dn.D.ReadDataPoints(rctx)
				rcancel()
			}
		})
		spawn("h:state", func() {
			for i := 0; i < 3; i++ {
				up.U.State()
				dn.D.State()
				vsched.Sleep(50*time.Millisecond, "h:state")
			}
		})
		if c := w.B.Live(); c != nil {
			for i := 0; i < 2; i++ {
				w.B.Send(c, dchunk(w.B.Downs[0].Alias, uint32(i+1), fmt.Sprint("d", i)))
			}
		}
	case strings.HasPrefix(w.p.W, "W3"):
		dn, err := w.OpenDown(ctx, "d0", kit.Filter("src"), iscp.WithDownstreamQoS(message.QoSReliable))
		if err != nil {
			return
		}
		spawn("h:writer", func() {
			for i := 0; i < 3; i++ {
				up.Write(ctx, kit.IDA, fmt.Sprint(i))
				vsched.Sleep(2*time.Second, "h:writer")
			}
		})
		spawn("h:reader", func() {
			rctx, rcancel := kit.Ctx(10 * time.Second)
			dn.D.ReadDataPoints(rctx)
			rcancel()
		})
		if w.p.F == 0 {
			// no budgeted fault: cut once explicitly
			vsched.Sleep(time.Second, "h:cut")
			w.B.Cut(w.B.Live())
		}
	case strings.HasPrefix(w.p.W, "W8"), strings.HasPrefix(w.p.W, "W12"):
		// two upstreams and two downstreams resume side by side; the application keeps reading buffered chunks
		// while the acknowledgement flush fails on the dead link
		u1, err := w.OpenUp(ctx, "u1", iscp.WithUpstreamFlushPolicyImmediately(), iscp.WithUpstreamQoS(message.QoSUnreliable), iscp.WithUpstreamCloseTimeout(2*time.Second))
		if err != nil {
			return
		}
		d0, err := w.OpenDown(ctx, "d0", kit.Filter("src"), iscp.WithDownstreamQoS(message.QoSReliable), iscp.WithDownstreamAckFlushInterval(100*time.Millisecond))
		if err != nil {
			return
		}
		d1, err := w.OpenDown(ctx, "d1", kit.Filter("src2"), iscp.WithDownstreamQoS(message.QoSReliable), iscp.WithDownstreamAckFlushInterval(100*time.Millisecond))
		if err != nil {
			return
		}
		if c := w.B.Live(); c != nil {
			for i := 0; i < 4; i++ {
				// (every chunk introduces a new upstream and a new data id: each read books alias announcements
				// into the buffers the failing ack flush merges back)
				w.B.Send(c, dchunkK(w.B.Downs[0].Alias, uint32(i+1), fmt.Sprint("d", i), i))
			}
			w.B.Send(c, dchunk(w.B.Downs[1].Alias, 1, "e0"))
		}
		vsched.Quiesce()
		spawn("h:reader", func() {
			for i := 0; i < 4; i++ {
				rctx, rcancel := kit.Ctx(3 * time.Second)
				d0.D.ReadDataPoints(rctx)
				rcancel()
				if strings.HasPrefix(w.p.W, "W12") {
					// the later reads fall into the ack flush whose write has just failed on the dead link
					// (timers fire at quiescence only, so the reader is woken by the failing write itself)
					lk := w.B.Conns[0].Link
					vsched.WaitUntil("ack-write-failed", func() bool { return lk.FailedClientWrites > 0 })
				} else {
					vsched.Sleep(60*time.Millisecond, "h:reader")
				}
			}
		})
		spawn("h:reader", func() {
			rctx, rcancel := kit.Ctx(3 * time.Second)
			d1.D.ReadDataPoints(rctx)
			rcancel()
		})
		spawn("h:writer", func() {
			if strings.HasPrefix(w.p.W, "W12") {
				return // (the first write to fail shall be the ack flush's)
			}
			for i := 0; i < 2; i++ {
				up.Write(ctx, kit.IDA, fmt.Sprint(i))
				u1.Write(ctx, kit.IDB, fmt.Sprint(i))
				vsched.Sleep(2*time.Second, "h:writer")
			}
		})
		vsched.Sleep(90*time.Millisecond, "h:cut")
		w.B.Cut(w.B.Live())
	case strings.HasPrefix(w.p.W, "W11"):
		down, _ := w.OpenDown(ctx, "d0", kit.Filter("src"), iscp.WithDownstreamQoS(message.QoSReliable))
		if down != nil && len(w.B.Downs) > 0 {
			for i := 0; i < 2; i++ {
				w.B.Send(w.B.Live(), &message.DownstreamMetadata{RequestID: message.RequestID(7001 + 2*i), StreamIDAlias: w.B.Downs[0].Alias, SourceNodeID: "src", Metadata: &message.BaseTime{SessionID: "s", Name: fmt.Sprint("m", i)}})
			}
			vsched.Quiesce()
			w.B.Cut(w.B.Live())
			spawn("h:metareader", func() {
				for i := 0; i < 2; i++ {
					rctx, rcancel := kit.Ctx(3 * time.Second)
					down.D.ReadMetadata(rctx)
					rcancel()
					vsched.Sleep(2*time.Second, "h:between-reads")
				}
			})
			spawn("h:stater", func() {
				vsched.Sleep(1500*time.Millisecond, "h:state")
				down.D.State()
			})
		}
	case strings.HasPrefix(w.p.W, "W10"):
		down, _ := w.OpenDown(ctx, "d0", kit.Filter("src"), iscp.WithDownstreamQoS(message.QoSReliable))
		spawn("h:openup", func() {
			w.OpenUp(ctx, "u10", iscp.WithUpstreamFlushPolicyImmediately(), iscp.WithUpstreamQoS(message.QoSReliable), iscp.WithUpstreamCloseTimeout(2*time.Second))
		})
		spawn("h:closeup", func() { up.U.Close(ctx) })
		spawn("h:opendown", func() { w.OpenDown(ctx, "d10", kit.Filter("src10"), iscp.WithDownstreamQoS(message.QoSReliable)) })
		if down != nil {
			spawn("h:closedown", func() { down.D.Close(ctx) })
		}
	case strings.HasPrefix(w.p.W, "W9"):
		// streams are opened while the connection is down; a second failure (budget F) may hit the recovery
		w.B.Cut(w.B.Live())
		spawn("h:opendown", func() { w.OpenDown(ctx, "d9", kit.Filter("src9"), iscp.WithDownstreamQoS(message.QoSReliable)) })
		spawn("h:openup", func() {
			w.OpenUp(ctx, "u9", iscp.WithUpstreamFlushPolicyImmediately(), iscp.WithUpstreamQoS(message.QoSReliable), iscp.WithUpstreamCloseTimeout(2*time.Second))
		})
		spawn("h:meta", func() { w.Conn.SendMetadata(ctx, &message.BaseTime{SessionID: "s", Name: "m9"}) })
	case strings.HasPrefix(w.p.W, "W4"):
		spawn("h:meta", func() { w.Conn.SendMetadata(ctx, &message.BaseTime{SessionID: "s", Name: "m"}) })
		spawn("h:call", func() {
			w.Conn.SendCall(ctx, &iscp.UpstreamCall{DestinationNodeID: "d", Name: "c", Type: "t"})
		})
		spawn("h:writer", func() { up.Write(ctx, kit.IDA, "x") })
	}
	wg.Wait()
	vsched.Sleep(8*time.Second, "h:settle")
	w.Phase = "closing"
	for _, u := range w.Ups {
		cctx, ccancel := kit.Ctx(5 * time.Second)
		u.U.Close(cctx)
		ccancel()
	}
	for _, d := range w.Downs {
		cctx, ccancel := kit.Ctx(5 * time.Second)
		d.D.Close(cctx)
		ccancel()
	}
	cctx, ccancel := kit.Ctx(5 * time.Second)
	w.Conn.Close(cctx)
	ccancel()
	w.B.Stop()
	w.Phase = "done"
}

func dchunkK(alias uint32, seq uint32, tag string, k int) *message.DownstreamChunk {
	c := dchunk(alias, seq, tag)
	if k > 0 {
		c.UpstreamOrAlias = &message.UpstreamInfo{SessionID: "s", SourceNodeID: "src", StreamID: sim.StreamUUID('x', 1+k)}
		c.StreamChunk.DataPointGroups[0].DataIDOrAlias = &message.DataID{Name: fmt.Sprint("a", k), Type: "t"}
	}
	return c
}

func dchunk(alias uint32, seq uint32, tag string) *message.DownstreamChunk {
	return &message.DownstreamChunk{
		StreamIDAlias:   alias,
		UpstreamOrAlias: &message.UpstreamInfo{SessionID: "s", SourceNodeID: "src", StreamID: sim.StreamUUID('x', 1)},
		StreamChunk: &message.StreamChunk{SequenceNumber: seq, DataPointGroups: []*message.DataPointGroup{
			{DataIDOrAlias: &message.DataID{Name: "a", Type: "t"}, DataPoints: []*message.DataPoint{{ElapsedTime: 1, Payload: []byte(tag)}}},
		}},
	}
}

// ---- W6: multi transport ----

type member struct {
	id     string
	inbox  [][]byte
	closed bool
}

func (m *member) Read() ([]byte, error) {
	vsched.WaitUntil("member-read:"+m.id, func() bool { return len(m.inbox) > 0 || m.closed })
	if len(m.inbox) > 0 {
		b := m.inbox[0]
		m.inbox = m.inbox[1:]
		return b, nil
	}
	return nil, transport.ErrAlreadyClosed
}
func (m *member) Write(b []byte) error                                { vsched.Yield("h:member-write"); return nil }
func (m *member) Close() error                                        { m.closed = true; return nil }
func (m *member) CloseWithStatus(transport.CloseStatus) error         { return m.Close() }
func (m *member) RxBytesCounterValue() uint64                         { return 0 }
func (m *member) TxBytesCounterValue() uint64                         { return 0 }
func (m *member) AsUnreliable() (transport.UnreliableTransport, bool) { return nil, false }
func (m *member) Name() transport.Name                                { return "fake" }
func (m *member) NegotiationParams() transport.NegotiationParams {
	return transport.NegotiationParams{TransportID: transport.TransportID(m.id), TransportGroupID: "g", TransportGroupTotalCount: 2}
}

func (w *world) multiWorkload() {
	a, b := &member{id: "a"}, &member{id: "b"}
	tr, err := multi.NewTransport(multi.TransportConfig{
		TransportMap:       multi.TransportMap{"a": a, "b": b},
		InitialTransportID: "a",
		SchedulerMode:      multi.SchedulerModePolling,
		PollingScheduler:   &multi.PollingScheduler{Poller: multi.NewLastReadPoller(), Interval: time.Second},
	})
	if err != nil {
		return
	}
	var wg vsched.WaitGroup
	for k := 0; k < 2; k++ {
		wg.Add(1)
		vsched.Go("h:writer", func() {
			defer wg.Done()
			for i := 0; i < 2; i++ {
				tr.Write([]byte("x"))
				tr.NegotiationParams()
				vsched.Sleep(700*time.Millisecond, "h:w")
			}
		})
	}
	wg.Add(1)
	vsched.Go("h:reader", func() {
		defer wg.Done()
		for i := 0; i < 2; i++ {
			tr.Read()
		}
	})
	b.inbox = append(b.inbox, []byte("m1"))
	vsched.Sleep(1200*time.Millisecond, "h:m")
	a.inbox = append(a.inbox, []byte("m2"))
	wg.Wait()
	vsched.Sleep(2*time.Second, "h:m")
	tr.Close()
}

// ---- W7: sent storage from two streams ----

func (w *world) storeWorkload() {
	st := iscp.VerifNewInmemSentStorage()
	ctx := vcontext.Background()
	var wg vsched.WaitGroup
	for k := 0; k < 2; k++ {
		k := k
		wg.Add(1)
		vsched.Go("h:store", func() {
			defer wg.Done()
			id := uuid.UUID{byte(k + 1)}
			st.Store(ctx, id, 1, nil)
			st.List(ctx, id)
			st.Clear(ctx, id)
			st.Store(ctx, id, 2, nil)
			st.Remove(ctx, id, 2)
		})
	}
	wg.Wait()
}

// ---- W5: reconnectable transport, two writers, failing underlying transport ----

type fakeTr struct {
	w      *world
	idx    int
	inbox  [][]byte
	broken bool
	closed bool
}

func (f *fakeTr) Read() ([]byte, error) {
	vsched.WaitUntil(fmt.Sprintf("fake-read#%d", f.idx), func() bool { return len(f.inbox) > 0 || f.broken || f.closed })
	if len(f.inbox) > 0 {
		m := f.inbox[0]
		f.inbox = f.inbox[1:]
		return m, nil
	}
	return nil, fmt.Errorf("fake: broken")
}
func (f *fakeTr) Write(b []byte) error {
	vsched.Yield("h:fake-write")
	if f.closed || f.broken {
		return fmt.Errorf("fake: broken pipe")
	}
	if vsched.ChooseBudget(fmt.Sprintf("write-fail#%d", f.idx), 2, vsched.BudF) == 1 {
		f.broken = true
		return fmt.Errorf("fake: write failed")
	}
	return nil
}
func (f *fakeTr) Close() error                                        { f.closed = true; return nil }
func (f *fakeTr) CloseWithStatus(transport.CloseStatus) error         { return f.Close() }
func (f *fakeTr) RxBytesCounterValue() uint64                         { return 0 }
func (f *fakeTr) TxBytesCounterValue() uint64                         { return 0 }
func (f *fakeTr) AsUnreliable() (transport.UnreliableTransport, bool) { return nil, false }
func (f *fakeTr) NegotiationParams() transport.NegotiationParams      { return transport.NegotiationParams{} }
func (f *fakeTr) Name() transport.Name                                { return "fake" }

func (w *world) reconnectWorkload() {
	n := 0
	dial := func(cfg transport.DialConfig) (transport.Transport, error) {
		n++
		vsched.Yield("h:dial")
		if n > 1 && vsched.ChooseBudget(fmt.Sprintf("dial-fail#%d", n), 2, vsched.BudF) == 1 {
			return nil, fmt.Errorf("fake: refused")
		}
		f := &fakeTr{w: w, idx: n}
		if n > 1 {
			f.inbox = append(f.inbox, []byte("hello"))
		}
		return f, nil
	}
	tr, err := reconnect.Dial(reconnect.DialConfig{Dialer: transport.DialerFunc(dial), DialConfig: transport.DialConfig{TransportID: "t"}, MaxReconnectAttempts: 1, ReconnectInterval: time.Second})
	if err != nil {
		return
	}
	var wg vsched.WaitGroup
	for k := 0; k < 2; k++ {
		k := k
		wg.Add(1)
		vsched.Go("h:writer", func() {
			defer wg.Done()
			for i := 0; i < 2; i++ {
				tr.Write([]byte(fmt.Sprintf("w%d-%d", k, i)))
			}
		})
	}
	wg.Wait()
	vsched.Sleep(5*time.Second, "h:settle")
	tr.Close()
}

func (w *world) main() {
	switch {
	case strings.HasPrefix(w.p.W, "W5"):
		w.reconnectWorkload()
	case strings.HasPrefix(w.p.W, "W6"):
		w.multiWorkload()
	case strings.HasPrefix(w.p.W, "W7"):
		w.storeWorkload()
	default:
		w.connWorkload()
	}
}

func run(sc vlib.Scenario, cfg vsched.Config) (*vsched.Result, vlib.Verdict) {
	w := &world{p: sc.P.(params)}
	res := vsched.Run(cfg, w.main)
	var v vlib.Verdict
	if res.Outcome == vsched.Panicked {
		v.Fail("C09.panic", res.Panic.Site, "library panic: %s", res.Panic.Value)
	}
	for _, r := range res.Races {
		v.Fail("C09.race", r.Key(), "%s", r.String())
	}
	v.Outcome = fmt.Sprintf("%s races=%d outcome=%v", w.p.W[:2], len(res.Races), res.Outcome)
	return res, v
}

var _ context.Context

func main() {
	vlib.Main(&vlib.Harness{
		Property:  "C09",
		Scenarios: scenarios,
		Config:    config,
		Run:       run,
		Rule:      "modes S/E with access tracking: workloads W1 (upstream traffic beside another upstream being opened, written and closed), W2 (upstream + downstream traffic with State() readers), W3 (link failure with an upstream and a downstream resuming), W4 (metadata, call and write around a reconnect), W6 (multi transport: writers, reader, last-used polling), W7 (sent storage from two streams), W8 (two upstreams and two downstreams resuming side by side, reads continuing while the ack flush fails); fault budget F, deviations <= P; every read/write of a field of a struct declared in the instrumented packages and every access of a map held in such a field is recorded; vector-clock happens-before detection with edges from mutex, rwmutex, channel, close, waitgroup, cond, atomic, go and timer operations only",
		Assumptions: []string{
			"watched: fields of named struct types of iscp, wire, transport/*, internal/*, encoding and the map objects they hold; not watched: slice elements, locals captured by closures, package-level variables, implicit struct copies through value receivers, third-party state",
			"channel edges are accumulated per channel (an over-approximation of happens-before that can hide, never invent, a race)",
			"no happens-before is assumed through the simulated network link",
		},
	})
}
