// c08: no API call blocks forever (mode E). For each API scenario and each message of it, the
// broker applies one behaviour from {drop, delay past the bound, misaddress, wrong-typed answer,
// go silent, cut}; the faulted call must return no later than its context deadline (virtual
// clock, exact), follow-up calls on the same connection must still complete, and at the end no
// library thread may be parked on a mutex.
package main

import (
	"context"
	"fmt"
	"os"
	"strings"
	"time"

	"github.com/aptpod/iscp-go/internal/vcontext"
	"github.com/aptpod/iscp-go/internal/vh/kit"
	"github.com/aptpod/iscp-go/internal/vh/lib"
	"github.com/aptpod/iscp-go/internal/vh/sim"
	"github.com/aptpod/iscp-go/internal/vsched"
	"github.com/aptpod/iscp-go/iscp"
	"github.com/aptpod/iscp-go/message"
	"github.com/aptpod/iscp-go/transport"
	"github.com/aptpod/iscp-go/transport/reconnect"
)

const callTimeout = 5 * time.Second

type params struct {
	API string
	F   int
	P   int
}

func (p params) name() string { return fmt.Sprintf("%s/F%d/P%d", p.API, p.F, p.P) }

var apis = []string{"openup", "opendown", "writeflush", "writelate", "read", "readmeta", "meta", "call", "callreply", "upclose", "downclose", "connclose"}

func scenarios(tier string) []vlib.Scenario {
	var out []vlib.Scenario
	for _, a := range apis {
		out = append(out, vlib.Scenario{Name: params{a, 1, 0}.name(), P: params{a, 1, 0}})
		out = append(out, vlib.Scenario{Name: params{a, 2, 0}.name(), P: params{a, 2, 0}})
	}
	for _, a := range []string{"openup", "meta", "upclose", "connclose"} {
		out = append(out, vlib.Scenario{Name: params{a, 1, 1}.name(), P: params{a, 1, 1}})
	}
	// Conn.Close during an outage whose redials all fail (broker unreachable): must return within its context
	out = append(out, vlib.Scenario{Name: params{"closeoutage", 0, 0}.name(), P: params{"closeoutage", 0, 0}})
	out = append(out, vlib.Scenario{Name: params{"closeoutage", 0, 1}.name(), P: params{"closeoutage", 0, 1}})
	// a downstream whose close request was disturbed keeps receiving chunks nobody reads (more than the queues hold)
	out = append(out, vlib.Scenario{Name: params{"downclose-flood", 1, 0}.name(), P: params{"downclose-flood", 1, 0}})
	// Conn.Close (and an unrelated call) while another call's request stays unanswered
	for _, a := range []string{"closepending-openup", "closepending-meta", "closepending-call"} {
		out = append(out, vlib.Scenario{Name: params{a, 0, 0}.name(), P: params{a, 0, 0}})
	}
	// a writer with a long context is parked in the hand-over to the flush loop (which does not run during an
	// outage): Upstream.Close and a second writer, each with a short context of its own, must still return in time
	out = append(out, vlib.Scenario{Name: params{"writeblocked", 0, 0}.name(), P: params{"writeblocked", 0, 0}})
	out = append(out, vlib.Scenario{Name: params{"writeblocked", 0, 1}.name(), P: params{"writeblocked", 0, 1}})
	// the same with the reconnectable transport layer (what the multi transport is built from) underneath: its own
	// redial budget (8 attempts, 1 s apart) must not govern Conn.Close or a call with a context
	out = append(out, vlib.Scenario{Name: params{"closeoutage-rt", 0, 0}.name(), P: params{"closeoutage-rt", 0, 0}})
	out = append(out, vlib.Scenario{Name: params{"closeoutage-rt", 0, 1}.name(), P: params{"closeoutage-rt", 0, 1}})
	// ... and the peer accepts the transport's redial but never sends the first message the transport waits for
	out = append(out, vlib.Scenario{Name: params{"closeoutage-rt-silent", 0, 0}.name(), P: params{"closeoutage-rt-silent", 0, 0}})
	out = append(out, vlib.Scenario{Name: params{"closeoutage-rt-silent", 0, 1}.name(), P: params{"closeoutage-rt-silent", 0, 1}})
	// the peer stops reading while Close flushes: the chunk write stalls; the keep-alive is slow (20 s), the stream's close
	// timeout (3 s) governs a Close without deadline
	out = append(out, vlib.Scenario{Name: params{"upclose-stalledwrite", 0, 0}.name(), P: params{"upclose-stalledwrite", 0, 0}})
	out = append(out, vlib.Scenario{Name: params{"upclose-stalledwrite", 0, 1}.name(), P: params{"upclose-stalledwrite", 0, 1}})
	// the peer stops reading (keep-alive 20 s): a call and a metadata read with a 5 s context, and the Close behind them
	out = append(out, vlib.Scenario{Name: params{"call-stalledwrite", 0, 0}.name(), P: params{"call-stalledwrite", 0, 0}})
	out = append(out, vlib.Scenario{Name: params{"readmeta-stalledwrite", 0, 0}.name(), P: params{"readmeta-stalledwrite", 0, 0}})
	// ... and the downstream's periodic ack flush is the write that stalls: reads, State and the Closes behind it
	out = append(out, vlib.Scenario{Name: params{"read-stalledack", 0, 0}.name(), P: params{"read-stalledack", 0, 0}})
	out = append(out, vlib.Scenario{Name: params{"read-stalledack", 0, 1}.name(), P: params{"read-stalledack", 0, 1}})
	// an option value the wire layer refuses by panicking (the caller recovers): later calls still work
	out = append(out, vlib.Scenario{Name: params{"badqos", 0, 0}.name(), P: params{"badqos", 0, 0}})
	if tier == "thorough" {
		out = append(out, vlib.Scenario{Name: params{"closeoutage", 0, 2}.name(), P: params{"closeoutage", 0, 2}})
		for _, a := range apis {
			if a != "openup" && a != "meta" && a != "upclose" && a != "connclose" {
				out = append(out, vlib.Scenario{Name: params{a, 1, 1}.name(), P: params{a, 1, 1}})
			}
			out = append(out, vlib.Scenario{Name: params{a, 3, 0}.name(), P: params{a, 3, 0}})
		}
	}
	return out
}

func config(sc vlib.Scenario, tier string) vsched.Config {
	p := sc.P.(params)
	cfg := vsched.Config{Preempt: 1, Switch: 1, SelCase: 1, Stall: 1, Timer: -1, Horizon: 90 * time.Second, MaxSteps: 600000}
	cfg.Budget[vsched.BudP] = p.P
	cfg.Budget[vsched.BudF] = p.F
	cfg.Scope = func(site string) bool {
		if strings.HasPrefix(p.API, "closeoutage-rt") && strings.HasPrefix(site, "transport/reconnect.") {
			return true
		}
		return strings.HasPrefix(site, "iscp.") || strings.HasPrefix(site, "wire.(*ClientConn).sendRequest") || strings.HasPrefix(site, "wire.(*ClientConn).read")
	}
	return cfg
}

type callRec struct {
	name     string
	start    time.Duration
	end      time.Duration
	done     bool
	err      error
	bound    time.Duration
	followup bool
}

type world struct {
	closeTimeout        time.Duration
	pendingKind         string
	followupFaults      int
	connectedAtFollowup bool
	lateSecond          bool
	secondReached       bool
	unreachable         bool
	awaitedLate         bool
	connsBeforeFollowup int
	connsAtEnd          int
	kit.World
	p      params
	calls  []*callRec
	faults []string
	rxn    map[string]int
	up     *kit.Up
	down   *kit.Down
}

var faultKinds = []string{"drop", "delay", "misaddress", "wrongtype", "silent", "cut"}

// eligible tells whether a message received during the faulted call belongs to it.
func (w *world) eligible(m message.Message) bool {
	switch m.(type) {
	case *message.UpstreamOpenRequest:
		return w.p.API == "openup"
	case *message.DownstreamOpenRequest:
		return w.p.API == "opendown"
	case *message.UpstreamChunk:
		return w.p.API == "writeflush" || w.p.API == "upclose" || (w.p.API == "writelate" && !w.lateSecond)
	case *message.UpstreamCloseRequest:
		return w.p.API == "upclose"
	case *message.DownstreamCloseRequest:
		return w.p.API == "downclose" || w.p.API == "downclose-flood"
	case *message.DownstreamChunkAck:
		return w.p.API == "downclose" || w.p.API == "read"
	case *message.UpstreamMetadata:
		return w.p.API == "meta"
	case *message.UpstreamCall:
		return w.p.API == "call" || w.p.API == "callreply"
	case *message.DownstreamMetadataAck:
		return w.p.API == "readmeta"
	case *message.Disconnect:
		return w.p.API == "connclose"
	case *message.ConnectRequest, *message.UpstreamResumeRequest, *message.DownstreamResumeRequest:
		return true // handshake / resume of a redial (only reachable after a first fault)
	}
	return false
}

func (w *world) script() *sim.Script {
	s := &sim.Script{}
	w.rxn = map[string]int{}
	s.AcceptDial = func(n int, cfg transport.DialConfig) (bool, time.Duration) { return !w.unreachable, 0 }
	s.OnMessage = func(b *sim.Broker, c *sim.BConn, m message.Message) bool {
		if w.pendingKind != "" {
			switch r := m.(type) {
			case *message.UpstreamOpenRequest:
				return r.SessionID == "never-answered"
			case *message.UpstreamMetadata:
				if bt, ok := r.Metadata.(*message.BaseTime); ok && bt.Name == "never-answered" {
					return true
				}
			case *message.UpstreamCall:
				return r.Name == "never-answered"
			}
		}
		if (w.Phase != "call" && w.Phase != "followup") || !w.eligible(m) || (c.Idx == 0 && w.Phase != "call") {
			return false
		}
		key := kit.MsgName(m)
		w.rxn[key]++
		k := vsched.ChooseBudget(fmt.Sprintf("fault@rx:%s#%d", key, w.rxn[key]), 1+len(faultKinds), vsched.BudF)
		if k == 0 {
			return false
		}
		kind := faultKinds[k-1]
		w.faults = append(w.faults, kind+"@"+key)
		if w.Phase == "followup" || w.lateSecond {
			w.followupFaults++ // the later call itself (or the recovery it waits for) is being disturbed
		}
		switch kind {
		case "drop":
			return true
		case "delay":
			vsched.AfterFunc(callTimeout+2*time.Second, "h:delayed-answer", func() {
				vsched.Spawn("h:delayed-answer", func() { b.HandleDefault(c, m) })
			})
			return true
		case "misaddress":
			w.misaddress(b, c, m)
			return true
		case "wrongtype":
			if r, ok := m.(message.Request); ok {
				// a response of another type under the caller's request id
				b.Send(c, &message.UpstreamMetadataAck{RequestID: message.RequestID(r.GetRequestID()), ResultCode: message.ResultCodeSucceeded, ResultString: "wrong type"})
				if _, isMeta := m.(*message.UpstreamMetadata); isMeta {
					b.Send(c, &message.DownstreamOpenResponse{RequestID: message.RequestID(r.GetRequestID()), ResultCode: message.ResultCodeSucceeded})
				}
				return true
			}
			return true
		case "silent":
			c.Silent = true
			return true
		case "cut":
			b.Cut(c)
			return true
		}
		return false
	}
	return s
}

// misaddress answers m, but to the wrong addressee.
func (w *world) misaddress(b *sim.Broker, c *sim.BConn, m message.Message) {
	switch r := m.(type) {
	case *message.UpstreamOpenRequest:
		b.Send(c, &message.UpstreamOpenResponse{RequestID: r.RequestID + 1000, AssignedStreamID: sim.StreamUUID('u', 99), AssignedStreamIDAlias: 99, ResultCode: message.ResultCodeSucceeded})
	case *message.DownstreamOpenRequest:
		b.Send(c, &message.DownstreamOpenResponse{RequestID: r.RequestID + 1000, AssignedStreamID: sim.StreamUUID('d', 99), ResultCode: message.ResultCodeSucceeded})
	case *message.UpstreamChunk:
		b.Send(c, &message.UpstreamChunkAck{StreamIDAlias: r.StreamIDAlias + 77, Results: []*message.UpstreamChunkResult{{SequenceNumber: r.StreamChunk.SequenceNumber, ResultCode: message.ResultCodeSucceeded}}})
		b.Send(c, &message.UpstreamChunkAck{StreamIDAlias: r.StreamIDAlias, Results: []*message.UpstreamChunkResult{{SequenceNumber: r.StreamChunk.SequenceNumber + 50, ResultCode: message.ResultCodeSucceeded}}})
	case *message.UpstreamCloseRequest:
		b.Send(c, &message.UpstreamCloseResponse{RequestID: r.RequestID + 1000, ResultCode: message.ResultCodeSucceeded})
	case *message.DownstreamCloseRequest:
		b.Send(c, &message.DownstreamCloseResponse{RequestID: r.RequestID + 1000, ResultCode: message.ResultCodeSucceeded})
	case *message.DownstreamChunkAck:
		b.Send(c, &message.DownstreamChunkAckComplete{StreamIDAlias: r.StreamIDAlias + 77, AckID: r.AckID, ResultCode: message.ResultCodeSucceeded})
	case *message.UpstreamMetadata:
		b.Send(c, &message.UpstreamMetadataAck{RequestID: r.RequestID + 1000, ResultCode: message.ResultCodeSucceeded})
	case *message.UpstreamCall:
		b.Send(c, &message.UpstreamCallAck{CallID: r.CallID + "-other", ResultCode: message.ResultCodeSucceeded})
		b.Send(c, &message.DownstreamCall{CallID: "r1", RequestCallID: r.CallID + "-other", SourceNodeID: "x", Name: "n", Type: "t"})
	case *message.DownstreamMetadataAck:
		// metadata for a source node nobody subscribed
		for _, d := range b.Downs {
			b.Send(c, &message.DownstreamMetadata{RequestID: 7001, StreamIDAlias: d.Alias, SourceNodeID: "nobody", Metadata: &message.BaseTime{Name: "stray"}})
		}
	case *message.Disconnect:
	}
}

// isConnected: is there an incarnation whose connect handshake the broker completed and that is still up?
func (w *world) isConnected() bool {
	if w.B == nil {
		return false
	}
	l := w.B.Live()
	if l == nil || l.Connect == nil || l.Silent {
		return false
	}
	for _, f := range w.faults {
		if strings.HasSuffix(f, "@ConnectRequest") && l.Idx == len(w.B.Conns)-1 {
			return false
		}
	}
	return true
}

func (w *world) timed(name string, bound time.Duration, followup bool, f func(ctx context.Context) error) *callRec {
	r := &callRec{name: name, start: vsched.Now(), bound: bound, followup: followup}
	w.calls = append(w.calls, r)
	ctx, cancel := kit.Ctx(bound)
	r.err = f(ctx)
	cancel()
	r.end = vsched.Now()
	r.done = true
	return r
}

// timedBackground: the call gets a context without deadline; bound is what else governs it (the stream's close timeout).
func (w *world) timedBackground(name string, bound time.Duration, f func(ctx context.Context) error) *callRec {
	r := &callRec{name: name, start: vsched.Now(), bound: bound}
	w.calls = append(w.calls, r)
	r.err = f(vcontext.Background())
	r.end = vsched.Now()
	r.done = true
	return r
}

func (w *world) main() {
	if strings.HasPrefix(w.p.API, "closeoutage-rt") {
		w.WrapDialer = func(d transport.Dialer) transport.Dialer {
			return transport.DialerFunc(func(cfg transport.DialConfig) (transport.Transport, error) {
				return reconnect.Dial(reconnect.DialConfig{Dialer: d, DialConfig: cfg, MaxReconnectAttempts: 8, ReconnectInterval: time.Second})
			})
		}
	}
	var copts []iscp.ConnOption
	if w.p.API == "upclose-stalledwrite" || w.p.API == "call-stalledwrite" || w.p.API == "readmeta-stalledwrite" || w.p.API == "read-stalledack" {
		copts = append(copts, iscp.WithConnPingInterval(20*time.Second))
	}
	if err := w.Connect(w.script(), copts...); err != nil {
		return
	}
	bg := vcontext.Background()
	sctx, scancel := kit.Ctx(20 * time.Second)
	defer scancel()
	w.Phase = "setup"
	api := w.p.API
	needUp := api == "writeflush" || api == "upclose" || api == "writelate" || api == "writeblocked" || api == "upclose-stalledwrite"
	needDown := api == "read" || api == "readmeta" || api == "downclose" || api == "downclose-flood" || api == "readmeta-stalledwrite" || api == "read-stalledack"
	if needUp && api == "writelate" {
		// an ack timeout is configured: an acknowledgement may arrive after its waiter has given up
		w.up, _ = w.OpenUp(sctx, "u0", iscp.WithUpstreamFlushPolicyNone(), iscp.WithUpstreamQoS(message.QoSReliable), iscp.WithUpstreamCloseTimeout(3*time.Second), iscp.WithUpstreamAckTimeout(time.Second))
	} else if needUp {
		// the close timeout is shorter or longer than the context the Close call gets (5 s): whichever ends first governs
		ct := 3 * time.Second
		if api == "upclose" && vsched.Choose("close-timeout-longer-than-context", 2) == 1 {
			ct = 20 * time.Second
		}
		w.closeTimeout = ct
		w.up, _ = w.OpenUp(sctx, "u0", iscp.WithUpstreamFlushPolicyNone(), iscp.WithUpstreamQoS(message.QoSReliable), iscp.WithUpstreamCloseTimeout(ct))
	}
	if needDown {
		w.down, _ = w.OpenDown(sctx, "d0", kit.Filter("src"))
	}
	if (needUp && w.up == nil) || (needDown && w.down == nil) {
		w.Phase = "setup-failed"
		return
	}
	vsched.Quiesce()
	// proactive injections that belong to the scenario
	if api == "read" {
		switch vsched.Choose("inject-read", 4) {
		case 1: // chunk for an alias nobody opened
			w.B.Send(w.B.Live(), chunkFor(w.B.Downs[0].Alias+50, "stray"))
		case 2: // chunk using an unknown upstream alias, then a good one
			bad := chunkFor(w.B.Downs[0].Alias, "bad")
			bad.UpstreamOrAlias = message.UpstreamAlias(42)
			w.B.Send(w.B.Live(), bad)
			w.B.Send(w.B.Live(), chunkFor(w.B.Downs[0].Alias, "good"))
		case 3:
			w.B.Send(w.B.Live(), chunkFor(w.B.Downs[0].Alias, "good"))
		}
	}
	if api == "readmeta" {
		switch vsched.Choose("inject-meta", 3) {
		case 1: // metadata from a source node nobody subscribed, then a good one
			w.B.Send(w.B.Live(), &message.DownstreamMetadata{RequestID: 7001, StreamIDAlias: w.B.Downs[0].Alias, SourceNodeID: "nobody", Metadata: &message.BaseTime{Name: "stray"}})
			w.B.Send(w.B.Live(), &message.DownstreamMetadata{RequestID: 7003, StreamIDAlias: w.B.Downs[0].Alias, SourceNodeID: "src", Metadata: &message.BaseTime{Name: "good"}})
		case 2:
			w.B.Send(w.B.Live(), &message.DownstreamMetadata{RequestID: 7003, StreamIDAlias: w.B.Downs[0].Alias, SourceNodeID: "src", Metadata: &message.BaseTime{Name: "good"}})
		}
	}
	if api == "upclose" {
		w.up.Write(sctx, kit.IDA, "x")
	}
	w.Phase = "call"
	switch api {
	case "closepending-openup", "closepending-meta", "closepending-call":
		// another goroutine's request is never answered (it has a long context of its own)
		w.pendingKind = strings.TrimPrefix(api, "closepending-")
		var pwg vsched.WaitGroup
		pwg.Add(1)
		vsched.Go("h:pending-call", func() {
			defer pwg.Done()
			pctx, pcancel := kit.Ctx(40 * time.Second)
			defer pcancel()
			switch w.pendingKind {
			case "openup":
				w.Conn.OpenUpstream(pctx, "never-answered")
			case "meta":
				w.Conn.SendMetadata(pctx, &message.BaseTime{SessionID: "s", Name: "never-answered"})
			case "call":
				w.Conn.SendCall(pctx, &iscp.UpstreamCall{DestinationNodeID: "d", Name: "never-answered", Type: "t"})
			}
		})
		vsched.Quiesce()
		// an unrelated call with its own short context, then Close
		w.timed("SendMetadata", callTimeout, false, func(ctx context.Context) error {
			return w.Conn.SendMetadata(ctx, &message.BaseTime{SessionID: "s", Name: "other"})
		})
		w.timed("Conn.Close", callTimeout, false, func(ctx context.Context) error { return w.Conn.Close(ctx) })
		pwg.Wait()
		api = "connclose"
	case "upclose-stalledwrite":
		w.up.Write(sctx, kit.IDA, "x")
		link := w.B.Live().Link
		link.HoldClientWrites = true
		w.closeTimeout = 3 * time.Second
		if vsched.Choose("close-without-deadline", 2) == 1 {
			w.timedBackground("Upstream.Close(background)", 2*w.closeTimeout, func(ctx context.Context) error { return w.up.U.Close(ctx) })
		} else {
			w.timed("Upstream.Close", callTimeout, false, func(ctx context.Context) error { return w.up.U.Close(ctx) })
		}
		w.timed("Conn.Close", callTimeout, false, func(ctx context.Context) error { return w.Conn.Close(ctx) })
		link.HoldClientWrites = false
		api = "connclose"
	case "read-stalledack":
		link := w.B.Live().Link
		w.B.Send(w.B.Live(), chunkFor(w.B.Downs[0].Alias, "one"))
		w.B.Send(w.B.Live(), chunkFor(w.B.Downs[0].Alias, "two"))
		vsched.Quiesce()
		w.timed("ReadDataPoints", callTimeout, false, func(ctx context.Context) error {
			_, err := w.down.D.ReadDataPoints(ctx)
			return err
		})
		link.HoldClientWrites = true
		vsched.Sleep(300*time.Millisecond, "h:ack-flush-stalls") // the flush interval (100 ms) has passed: the ack write is stuck
		w.timed("ReadDataPoints#2", callTimeout, false, func(ctx context.Context) error {
			_, err := w.down.D.ReadDataPoints(ctx)
			return err
		})
		w.timed("State", callTimeout, false, func(ctx context.Context) error { w.down.D.State(); return nil })
		w.timed("Downstream.Close", callTimeout, false, func(ctx context.Context) error { return w.down.D.Close(ctx) })
		w.timed("Conn.Close", callTimeout, false, func(ctx context.Context) error { return w.Conn.Close(ctx) })
		link.HoldClientWrites = false
		api = "connclose"
	case "call-stalledwrite", "readmeta-stalledwrite":
		link := w.B.Live().Link
		if api == "readmeta-stalledwrite" {
			w.B.Send(w.B.Live(), &message.DownstreamMetadata{RequestID: 7003, StreamIDAlias: w.B.Downs[0].Alias, SourceNodeID: "src", Metadata: &message.BaseTime{Name: "good"}})
			vsched.Quiesce()
		}
		link.HoldClientWrites = true
		if api == "call-stalledwrite" {
			var cwg vsched.WaitGroup
			cwg.Add(1)
			vsched.Go("h:second-caller", func() {
				defer cwg.Done()
				w.timed("SendCall#2", callTimeout, false, func(ctx context.Context) error {
					_, err := w.Conn.SendCall(ctx, &iscp.UpstreamCall{DestinationNodeID: "d", Name: "n2", Type: "t"})
					return err
				})
			})
			w.timed("SendCall", callTimeout, false, func(ctx context.Context) error {
				_, err := w.Conn.SendCall(ctx, &iscp.UpstreamCall{DestinationNodeID: "d", Name: "n", Type: "t"})
				return err
			})
			cwg.Wait()
		} else {
			w.timed("ReadMetadata", callTimeout, false, func(ctx context.Context) error {
				_, err := w.down.D.ReadMetadata(ctx)
				return err
			})
		}
		w.timed("Conn.Close", callTimeout, false, func(ctx context.Context) error { return w.Conn.Close(ctx) })
		link.HoldClientWrites = false
		api = "connclose"
	case "badqos":
		w.timed("OpenDownstream(QoS 7)", callTimeout, false, func(ctx context.Context) (err error) {
			defer func() {
				if r := recover(); r != nil {
					err = fmt.Errorf("panic: %v", r)
				}
			}()
			_, err = w.Conn.OpenDownstream(ctx, kit.Filter("src9"), iscp.WithDownstreamQoS(message.QoS(7)))
			return err
		})
	case "writeblocked":
		w.unreachable = true
		w.B.Cut(w.B.Live())
		vsched.Quiesce()
		if vsched.Choose("block-when", 2) == 1 {
			vsched.Sleep(3*time.Second, "h:outage")
		}
		var pwg vsched.WaitGroup
		pwg.Add(1)
		vsched.Go("h:parked-writer", func() {
			defer pwg.Done()
			pctx, pcancel := kit.Ctx(40 * time.Second)
			defer pcancel()
			w.up.Write(pctx, kit.IDA, "parked")
		})
		vsched.Quiesce()
		if vsched.Choose("second-writer-first", 2) == 1 {
			w.timed("Write", callTimeout, false, func(ctx context.Context) error { return w.up.Write(ctx, kit.IDA, "second") })
		}
		w.timed("Upstream.Close", callTimeout, false, func(ctx context.Context) error { return w.up.U.Close(ctx) })
		w.timed("Write", callTimeout, false, func(ctx context.Context) error { return w.up.Write(ctx, kit.IDA, "third") })
		w.timed("Conn.Close", callTimeout, false, func(ctx context.Context) error { return w.Conn.Close(ctx) })
		pwg.Wait()
		api = "connclose"
	case "closeoutage-rt", "closeoutage-rt-silent":
		w.unreachable = api == "closeoutage-rt"
		w.B.Cut(w.B.Live())
		what := vsched.Choose("what", 2)
		if vsched.Choose("close-when", 2) == 1 {
			vsched.Sleep(2500*time.Millisecond, "h:outage")
		}
		if what == 1 {
			w.timed("SendMetadata", time.Second, false, func(ctx context.Context) error {
				return w.Conn.SendMetadata(ctx, &message.BaseTime{SessionID: "s", Name: "n"})
			})
		}
		w.timed("Conn.Close", time.Second, false, func(ctx context.Context) error { return w.Conn.Close(ctx) })
		api = "connclose"
	case "closeoutage":
		w.unreachable = true
		w.B.Cut(w.B.Live())
		switch vsched.Choose("close-when", 3) {
		case 1:
			vsched.Sleep(3*time.Second, "h:outage") // several redial attempts have failed by now
		case 2:
			vsched.Sleep(30*time.Second, "h:outage") // the pause between two attempts has reached its cap (seconds)
		}
		// (a short context: the pause between two redial attempts is longer)
		w.timed("Conn.Close", time.Second, false, func(ctx context.Context) error { return w.Conn.Close(ctx) })
		api = "connclose"
	case "openup":
		w.timed("OpenUpstream", callTimeout, false, func(ctx context.Context) error {
			_, err := w.OpenUp(ctx, "u-late", iscp.WithUpstreamFlushPolicyNone())
			return err
		})
	case "opendown":
		w.timed("OpenDownstream", callTimeout, false, func(ctx context.Context) error {
			_, err := w.OpenDown(ctx, "d-late", kit.Filter("src9"))
			return err
		})
	case "writeflush":
		w.timed("Write", callTimeout, false, func(ctx context.Context) error { return w.up.Write(ctx, kit.IDA, "p") })
		w.timed("Flush", callTimeout, false, func(ctx context.Context) error { return w.up.U.Flush(ctx) })
		vsched.Quiesce()
		w.timed("Upstream.Close", callTimeout, false, func(ctx context.Context) error { return w.up.U.Close(ctx) })
	case "writelate":
		w.timed("Write", callTimeout, false, func(ctx context.Context) error { return w.up.Write(ctx, kit.IDA, "p") })
		w.timed("Flush", callTimeout, false, func(ctx context.Context) error { return w.up.U.Flush(ctx) })
		vsched.Sleep(callTimeout+4*time.Second, "h:late-ack") // a delayed acknowledgement has arrived by now, long after the ack timeout
		w.lateSecond = true
		w.timed("followup.Write2", callTimeout, true, func(ctx context.Context) error { return w.up.Write(ctx, kit.IDA, "q") })
		w.timed("followup.Flush2", callTimeout, true, func(ctx context.Context) error { return w.up.U.Flush(ctx) })
		vsched.Quiesce()
		for _, u := range w.B.Ups {
			for _, ch := range u.Chunks {
				for _, pt := range ch.Points {
					if pt.Payload == "q" {
						w.secondReached = true
					}
				}
			}
		}
	case "read":
		w.timed("ReadDataPoints", callTimeout, false, func(ctx context.Context) error {
			_, err := w.down.D.ReadDataPoints(ctx)
			return err
		})
		vsched.Sleep(500*time.Millisecond, "h:ack-flush")
	case "readmeta":
		w.timed("ReadMetadata", callTimeout, false, func(ctx context.Context) error {
			_, err := w.down.D.ReadMetadata(ctx)
			return err
		})
	case "meta":
		w.timed("SendMetadata", callTimeout, false, func(ctx context.Context) error {
			return w.Conn.SendMetadata(ctx, &message.BaseTime{SessionID: "s", Name: "n"})
		})
	case "call":
		w.timed("SendCall", callTimeout, false, func(ctx context.Context) error {
			_, err := w.Conn.SendCall(ctx, &iscp.UpstreamCall{DestinationNodeID: "d", Name: "n", Type: "t"})
			return err
		})
	case "callreply":
		w.timed("SendCallAndWaitReplayCall", callTimeout, false, func(ctx context.Context) error {
			_, err := w.Conn.SendCallAndWaitReplayCall(ctx, &iscp.UpstreamCall{DestinationNodeID: "d", Name: "n", Type: "t"})
			return err
		})
	case "upclose":
		if vsched.Choose("close-without-deadline", 2) == 1 {
			// Close(context.Background()): the stream's close timeout is the bound, once for the drain and once for the close exchange
			w.timedBackground("Upstream.Close(background)", 2*w.closeTimeout, func(ctx context.Context) error { return w.up.U.Close(ctx) })
		} else {
			w.timed("Upstream.Close", callTimeout, false, func(ctx context.Context) error { return w.up.U.Close(ctx) })
		}
	case "downclose-flood":
		w.timed("Downstream.Close", callTimeout, false, func(ctx context.Context) error { return w.down.D.Close(ctx) })
		if c := w.B.Live(); c != nil && len(w.B.Downs) > 0 {
			for i := 0; i < 1100; i++ {
				w.B.Send(c, chunkFor(w.B.Downs[0].Alias, fmt.Sprintf("flood-%d", i)))
				if i%128 == 127 {
					vsched.Quiesce()
				}
			}
			vsched.Quiesce()
		}
	case "downclose":
		w.timed("Downstream.Close", callTimeout, false, func(ctx context.Context) error { return w.down.D.Close(ctx) })
	case "connclose":
		w.timed("Conn.Close", callTimeout, false, func(ctx context.Context) error { return w.Conn.Close(ctx) })
	}
	late := false
	for _, f := range w.faults {
		late = late || strings.HasPrefix(f, "delay@")
	}
	if late && api != "connclose" && vsched.Choose("followup-after-late-answer", 2) == 1 {
		// let the delayed answer of the abandoned request arrive first, and a keep-alive round pass
		vsched.Sleep(6*time.Second, "h:await-late-answer")
		w.awaitedLate = true
	}
	w.connsBeforeFollowup = len(w.B.Conns)
	w.Phase = "followup"
	if api != "connclose" {
		// the connection's dispatching must still work (after recovery, if the fault killed the link)
		w.timed("followup.OpenDownstream", 30*time.Second, true, func(ctx context.Context) error {
			_, err := w.OpenDown(ctx, "d-follow", kit.Filter("src7"))
			return err
		})
		w.timed("followup.SendMetadata", 30*time.Second, true, func(ctx context.Context) error {
			return w.Conn.SendMetadata(ctx, &message.BaseTime{SessionID: "s", Name: "follow"})
		})
		vsched.Quiesce()
		w.connectedAtFollowup = w.isConnected()
		w.Phase = "closing"
		for _, u := range w.Ups {
			w.timed("final.Upstream.Close", callTimeout, true, func(ctx context.Context) error { return u.U.Close(ctx) })
		}
		for _, d := range w.Downs {
			w.timed("final.Downstream.Close", callTimeout, true, func(ctx context.Context) error { return d.D.Close(ctx) })
		}
		w.timed("final.Conn.Close", callTimeout, true, func(ctx context.Context) error { return w.Conn.Close(ctx) })
	}
	_ = bg
	w.connsAtEnd = len(w.B.Conns)
	w.B.Stop()
	vsched.Quiesce()
	w.Phase = "done"
}

func chunkFor(alias uint32, tag string) *message.DownstreamChunk {
	return &message.DownstreamChunk{
		StreamIDAlias:   alias,
		UpstreamOrAlias: &message.UpstreamInfo{SessionID: "s", SourceNodeID: "src", StreamID: sim.StreamUUID('x', 1)},
		StreamChunk: &message.StreamChunk{SequenceNumber: 1, DataPointGroups: []*message.DataPointGroup{
			{DataIDOrAlias: &message.DataID{Name: "a", Type: "t"}, DataPoints: []*message.DataPoint{{ElapsedTime: 1, Payload: []byte(tag)}}},
		}},
	}
}

func run(sc vlib.Scenario, cfg vsched.Config) (*vsched.Result, vlib.Verdict) {
	w := &world{p: sc.P.(params)}
	res := vsched.Run(cfg, w.main)
	var v vlib.Verdict
	fault := strings.Join(w.faults, "+")
	if fault == "" {
		fault = "none"
	}
	// signatures name only the fault in effect (the last one): earlier faults merely set the stage
	lastFault := "none"
	if len(w.faults) > 0 {
		lastFault = w.faults[len(w.faults)-1]
	}
	// is there an incarnation whose connect handshake the broker completed and that is still up?
	// (evaluated when the follow-up calls had returned, before the harness closed everything)
	connected := w.connectedAtFollowup
	if res.Outcome == vsched.Panicked {
		lf := "none"
		if len(w.faults) > 0 {
			lf = w.faults[len(w.faults)-1]
		}
		v.Fail("C08.panic", res.Panic.Site+"/"+lf, "library panic after faults %s: %s", fault, res.Panic.Value)
		return res, v
	}
	if w.ConnErr != nil || w.Phase == "setup-failed" || w.Phase == "setup" {
		v.Inconclusive = "setup failed"
		return res, v
	}
	const slack = 100 * time.Millisecond
	for _, c := range w.calls {
		if !c.done {
			where := ""
			for _, t := range res.Alive {
				if t.ID == 0 {
					where = kit.SiteFunc(t.Site) + "/" + t.Op
				}
			}
			kind := "faulted-call"
			if c.followup {
				kind = "later-call"
			}
			v.Fail("C08.blocked", fmt.Sprintf("%s/%s/%s@%s", kind, c.name, lastFault, where), "%s (bound %v, started at %v) never returned; faults: %s; parked at %s", c.name, c.bound, c.start, fault, where)
			break
		}
		if c.end-c.start > c.bound+slack {
			v.Fail("C08.late", fmt.Sprintf("%s/%s", c.name, lastFault), "%s returned after %v, its context allowed %v (faults: %s)", c.name, c.end-c.start, c.bound, fault)
		}
		// (the second write of "writelate" is a call on the stream itself: a second fault that hit the stream's
		// resume exchange legitimately ends that stream)
		if c.followup && c.err != nil && strings.HasPrefix(c.name, "followup.") && connected && w.followupFaults == 0 && (!strings.HasSuffix(c.name, "2") || len(w.faults) <= 1) {
			v.Fail("C08.dispatch", fmt.Sprintf("%s/%s/%s", c.name, kit.ErrKind(c.err), lastFault), "%s failed with %v after fault %s: the connection no longer serves later calls", c.name, c.err, fault)
		}
	}
	if w.p.API == "writelate" && connected && w.followupFaults == 0 && len(w.faults) <= 1 && res.Outcome == vsched.Completed && !w.secondReached && len(w.Ups) > 0 && !kit.ReportedClosed(w.Ups[0].Closed) {
		ok := true
		for _, c := range w.calls {
			if strings.HasPrefix(c.name, "followup.") && strings.HasSuffix(c.name, "2") && c.err != nil {
				ok = false // already reported as a failing later call
			}
		}
		if ok {
			v.Fail("C08.dispatch", "second-chunk-never-sent/"+lastFault, "after fault %s the second Write and Flush returned nil but the chunk never reached the broker", fault)
		}
	}
	// a broker that merely answers late (no message lost, every ping answered) must not cost the connection
	onlyLate := len(w.faults) > 0
	for _, f := range w.faults {
		onlyLate = onlyLate && strings.HasPrefix(f, "delay@")
	}
	if onlyLate && res.Outcome == vsched.Completed && w.connsAtEnd > w.connsBeforeFollowup && w.connsBeforeFollowup == 1 {
		v.Fail("C08.dispatch", fmt.Sprintf("connection-lost-after-late-answer/%s", lastFault), "after the late answer (%s) the client dropped a connection whose broker answered everything (%d incarnations at the end): the internal dispatching stopped", fault, w.connsAtEnd)
	}
	if res.Outcome == vsched.Completed {
		for _, t := range res.Alive {
			if t.Lib && (t.Op == "lock" || t.Op == "rlock" || t.Op == "wlock" || t.Op == "wlock0") {
				v.Fail("C08.leaked-lock", kit.SiteFunc(t.Site)+"/"+lastFault, "library thread %s is still parked on a mutex at %s after everything was closed (fault: %s)", t.Name, t.Site, fault)
			}
		}
	}
	errs := []string{}
	for _, c := range w.calls {
		if !c.followup {
			errs = append(errs, c.name+"="+kit.ErrKind(c.err))
		}
	}
	v.Outcome = fmt.Sprintf("%s %v", fault, errs)
	return res, v
}

func main() {
	vlib.Main(&vlib.Harness{
		Property:  "C08",
		Scenarios: scenarios,
		Config:    config,
		Run:       run,
		Static: func() ([]vlib.Violation, map[string]any) {
			repo := os.Getenv("VERIF_REPO_PATH")
			if repo == "" {
				repo = "/repo"
			}
			return lockLemma(repo)
		},
		Rule: "mode E: 11 API scenarios (OpenUpstream, OpenDownstream, Write+Flush+Close, ReadDataPoints, ReadMetadata, SendMetadata, SendCall, SendCallAndWaitReplayCall, Upstream.Close, Downstream.Close, Conn.Close); at every message of the scenario received by the broker one behaviour from {drop, delay past the bound, misaddress, wrong-typed answer, silent, cut} (budget F) plus unsolicited stray chunks/metadata; each call has a 5 s context on the virtual clock; oracle: returns within the bound (slack 100 ms virtual), follow-up OpenDownstream + SendMetadata + closes complete, no library thread parked on a mutex at the end",
		Assumptions: []string{
			"keep-alive 1s/1s; upstream close timeout 3s; virtual time only advances at quiescence, so bounds are checked exactly",
			"the lock-pairing lemma over control-flow paths is a separate, static part of this check (see evidence key lock_lemma)",
		},
	})
}
