package main

// Lock-release lemma of C08: "no input sequence leaves the client holding a lock it never
// releases" - decided for every control-flow path of every function of the library that
// acquires a mutex, by explicit-state search over (CFG block, held locks, deferred unlocks).
// The model (CFG + lock operations keyed by receiver expression) is extracted from the
// current source of /repo on every run.

import (
	"bytes"
	"fmt"
	"go/ast"
	"go/parser"
	"go/printer"
	"go/token"
	"os"
	"path/filepath"
	"sort"
	"strings"

	"github.com/aptpod/iscp-go/internal/vh/lib"
	"golang.org/x/tools/go/cfg"
)

type lockOp struct {
	kind string // lock unlock deferunlock
	key  string // receiver expression + "/W" or "/R"
	pos  token.Pos
}

func exprString(fset *token.FileSet, e ast.Expr) string {
	var b bytes.Buffer
	printer.Fprint(&b, fset, e)
	return b.String()
}

// opsOf lists the lock operations of one CFG node in evaluation order (function literals are separate functions).
func opsOf(fset *token.FileSet, n ast.Node) []lockOp {
	var out []lockOp
	var visit func(n ast.Node, deferred bool)
	visit = func(n ast.Node, deferred bool) {
		ast.Inspect(n, func(x ast.Node) bool {
			switch v := x.(type) {
			case *ast.FuncLit:
				return false
			case *ast.DeferStmt:
				if lit, ok := v.Call.Fun.(*ast.FuncLit); ok {
					// defer func() { ...; mu.Unlock(); ... }(): the unlocks inside run at function exit
					ast.Inspect(lit.Body, func(y ast.Node) bool {
						if c, ok := y.(*ast.CallExpr); ok {
							if k, kind := lockCall(fset, c); kind == "unlock" {
								out = append(out, lockOp{"deferunlock", k, c.Pos()})
							}
						}
						return true
					})
					return false
				}
				if k, kind := lockCall(fset, v.Call); kind == "unlock" {
					out = append(out, lockOp{"deferunlock", k, v.Pos()})
				}
				return false
			case *ast.GoStmt:
				return false
			case *ast.CallExpr:
				if k, kind := lockCall(fset, v); kind != "" {
					// arguments first (none for lock calls)
					out = append(out, lockOp{kind, k, v.Pos()})
					return false
				}
			}
			return true
		})
	}
	visit(n, false)
	return out
}

func lockCall(fset *token.FileSet, c *ast.CallExpr) (key, kind string) {
	sel, ok := c.Fun.(*ast.SelectorExpr)
	if !ok || len(c.Args) != 0 {
		return "", ""
	}
	recv := exprString(fset, sel.X)
	switch sel.Sel.Name {
	case "Lock":
		return recv + "/W", "lock"
	case "RLock":
		return recv + "/R", "lock"
	case "Unlock":
		return recv + "/W", "unlock"
	case "RUnlock":
		return recv + "/R", "unlock"
	}
	return "", ""
}

type lemmaStats struct {
	Files, Funcs, LockingFuncs, States, Transitions int
	Samples                                         []string
}

func held(m map[string]int) string {
	var ks []string
	for k, n := range m {
		if n > 0 {
			ks = append(ks, fmt.Sprintf("%s*%d", k, n))
		}
	}
	sort.Strings(ks)
	return strings.Join(ks, ",")
}

func cloneM(m map[string]int) map[string]int {
	o := map[string]int{}
	for k, v := range m {
		if v != 0 {
			o[k] = v
		}
	}
	return o
}

// checkFunc explores every path of one function body.
func checkFunc(fset *token.FileSet, name string, body *ast.BlockStmt, st *lemmaStats) []vlib.Violation {
	var viols []vlib.Violation
	g := cfg.New(body, func(*ast.CallExpr) bool { return true })
	locks := false
	for _, b := range g.Blocks {
		for _, n := range b.Nodes {
			for _, o := range opsOf(fset, n) {
				if o.kind == "lock" {
					locks = true
				}
			}
		}
	}
	if !locks {
		return nil
	}
	st.LockingFuncs++
	type state struct {
		b        *cfg.Block
		held     map[string]int
		deferred map[string]int
	}
	seen := map[string]bool{}
	reported := map[string]bool{}
	var stack []state
	if len(g.Blocks) == 0 {
		return nil
	}
	stack = append(stack, state{g.Blocks[0], map[string]int{}, map[string]int{}})
	for len(stack) > 0 {
		s := stack[len(stack)-1]
		stack = stack[:len(stack)-1]
		key := fmt.Sprintf("%d|%s|%s", s.b.Index, held(s.held), held(s.deferred))
		if seen[key] {
			continue
		}
		seen[key] = true
		st.States++
		h, d := cloneM(s.held), cloneM(s.deferred)
		for _, n := range s.b.Nodes {
			for _, o := range opsOf(fset, n) {
				switch o.kind {
				case "lock":
					if h[o.key] > 0 && strings.HasSuffix(o.key, "/W") || (strings.HasSuffix(o.key, "/W") && h[strings.TrimSuffix(o.key, "/W")+"/R"] > 0) {
						sig := fmt.Sprintf("%s:reacquire:%s", name, o.key)
						if !reported[sig] {
							reported[sig] = true
							viols = append(viols, vlib.Violation{Clause: "C08.lock-lemma", Sig: "C08.lock-lemma:" + sig, Detail: fmt.Sprintf("%s: a path reaches %s (%s) while the same lock is still held (held: %s)", name, fset.Position(o.pos), o.key, held(h))})
						}
						continue // (not counted twice: a loop that re-acquires would make the state space infinite)
					}
					if strings.HasSuffix(o.key, "/R") && h[o.key] > 0 {
						// a second RLock by the same goroutine while still holding the first (e.g. a loop 'continue' that skips RUnlock)
						sig := fmt.Sprintf("%s:reacquire:%s", name, o.key)
						if !reported[sig] {
							reported[sig] = true
							viols = append(viols, vlib.Violation{Clause: "C08.lock-lemma", Sig: "C08.lock-lemma:" + sig, Detail: fmt.Sprintf("%s: a path reaches %s (%s) while the read lock taken earlier on this path is still held (held: %s)", name, fset.Position(o.pos), o.key, held(h))})
						}
						continue
					}
					h[o.key]++
				case "unlock":
					if h[o.key] > 0 {
						h[o.key]--
					}
				case "deferunlock":
					d[o.key]++
				}
			}
		}
		if len(s.b.Succs) == 0 {
			// function exit: everything held must be covered by a deferred unlock
			for k, n := range h {
				if n > d[k] {
					sig := fmt.Sprintf("%s:exit-holding:%s", name, k)
					if !reported[sig] {
						reported[sig] = true
						viols = append(viols, vlib.Violation{Clause: "C08.lock-lemma", Sig: "C08.lock-lemma:" + sig, Detail: fmt.Sprintf("%s: a control-flow path reaches the function exit (block %d, %s) still holding %s with no deferred unlock", name, s.b.Index, blockDesc(s.b), k)})
					}
				}
			}
			continue
		}
		for _, nx := range s.b.Succs {
			st.Transitions++
			stack = append(stack, state{nx, h, d})
		}
	}
	if len(st.Samples) < 5 {
		st.Samples = append(st.Samples, fmt.Sprintf("%s: %d blocks", name, len(g.Blocks)))
	}
	return viols
}

func blockDesc(b *cfg.Block) string { return b.String() }

// lockLemma runs the lemma over the library sources.
func lockLemma(repo string) ([]vlib.Violation, map[string]any) {
	st := &lemmaStats{}
	var viols []vlib.Violation
	fset := token.NewFileSet()
	for _, dir := range []string{"iscp", "wire", "transport", "encoding", "internal"} {
		filepath.Walk(filepath.Join(repo, dir), func(path string, info os.FileInfo, err error) error {
			if err != nil {
				return nil
			}
			if info.IsDir() {
				if strings.HasSuffix(path, "mock") || strings.Contains(path, "/internal/v") || strings.Contains(path, "testdata") {
					return filepath.SkipDir
				}
				return nil
			}
			if !strings.HasSuffix(path, ".go") || strings.HasSuffix(path, "_test.go") {
				return nil
			}
			f, err := parser.ParseFile(fset, path, nil, 0)
			if err != nil {
				return nil
			}
			st.Files++
			rel := strings.TrimPrefix(path, repo+"/")
			pkgDir := filepath.Dir(rel)
			var walk func(n ast.Node, name string)
			walk = func(n ast.Node, name string) {
				lits := 0
				ast.Inspect(n, func(x ast.Node) bool {
					if lit, ok := x.(*ast.FuncLit); ok {
						lits++
						nm := fmt.Sprintf("%s.func%d", name, lits)
						st.Funcs++
						viols = append(viols, checkFunc(fset, nm, lit.Body, st)...)
						walk(lit.Body, nm)
						return false
					}
					return true
				})
			}
			for _, d := range f.Decls {
				fd, ok := d.(*ast.FuncDecl)
				if !ok || fd.Body == nil {
					continue
				}
				name := pkgDir + "." + fd.Name.Name
				if fd.Recv != nil && len(fd.Recv.List) > 0 {
					name = pkgDir + ".(" + exprString(fset, fd.Recv.List[0].Type) + ")." + fd.Name.Name
				}
				st.Funcs++
				viols = append(viols, checkFunc(fset, name, fd.Body, st)...)
				walk(fd.Body, name)
			}
			return nil
		})
	}
	cov := map[string]any{"lock_lemma": map[string]any{
		"files": st.Files, "functions": st.Funcs, "functions_that_lock": st.LockingFuncs,
		"cfg_product_states": st.States, "cfg_transitions": st.Transitions, "samples": st.Samples,
		"rule": "explicit-state search over (CFG block, multiset of held locks keyed by receiver expression, deferred unlocks) of every function and function literal of iscp/, wire/, transport/, encoding/, internal/ that calls Lock/RLock; violation = function exit, or the same acquisition again, while a lock acquired in this function is held and no deferred unlock covers it; path-insensitive on purpose (the property quantifies over control-flow paths); the same mutex reached through two different expressions counts as two locks",
	}}
	return viols, cov
}
