package main

import "os"

func os_args() []string { return os.Args }
