// c01: mode-E harness for C01 (upstream conservation) and C20 (flush barrier / policies).
// The full client stack (iscp.Connect -> wire -> in-memory link) runs under the
// controlled scheduler against the scripted broker; every broker choice is explored.
package main

import (
	"context"
	"fmt"
	"sort"
	"strings"
	"time"

	"github.com/aptpod/iscp-go/internal/vcontext"
	"github.com/aptpod/iscp-go/internal/vh/lib"
	"github.com/aptpod/iscp-go/internal/vh/sim"
	"github.com/aptpod/iscp-go/internal/vsched"
	"github.com/aptpod/iscp-go/iscp"
	"github.com/aptpod/iscp-go/message"
	"github.com/aptpod/iscp-go/transport"
	uuid "github.com/google/uuid"
)

var (
	idA = message.DataID{Name: "a", Type: "t"}
	idB = message.DataID{Name: "b", Type: "t"}
)

type params struct {
	Policy   string // none interval size intsize immediate
	QoS      message.QoS
	Unrel    bool // unreliable side channel offered
	Predecl  bool // A listed in WithUpstreamDataIDs
	Ops      []string
	Writers  int  // >1: ops are dealt round-robin to writer threads
	FailCode bool // broker may answer chunks with a failure code (choice)
	P        int  // schedule deviation budget
	AckBurst  int  // this many one-point chunks are written; the broker acknowledges them singly and back to back only when the client is idle (the per-stream ack queue of the wire connection holds 1024)
	CT0       bool // the stream is opened with WithUpstreamCloseTimeout(0): Close does not wait for acknowledgements, it still cuts and sends what is buffered
	Prior     bool // another upstream with a 50 ms close timeout and a 300 ms ack timeout was opened and closed on the connection before
	CloseRace bool // Close is called while the writer threads are still writing
}

func (p params) name() string {
	if p.AckBurst > 0 {
		return fmt.Sprintf("%s/q%d/ackburst%d/P%d", p.Policy, p.QoS, p.AckBurst, p.P)
	}
	if p.CT0 {
		return fmt.Sprintf("%s/q%d/u%v/pre%v/%s/w%d/fc%v/P%d/close-timeout-0", p.Policy, p.QoS, p.Unrel, p.Predecl, strings.Join(p.Ops, ","), p.Writers, p.FailCode, p.P)
	}
	if p.Prior {
		return fmt.Sprintf("%s/q%d/u%v/pre%v/%s/w%d/fc%v/P%d/prior-tuned-stream", p.Policy, p.QoS, p.Unrel, p.Predecl, strings.Join(p.Ops, ","), p.Writers, p.FailCode, p.P)
	}
	if p.CloseRace {
		return fmt.Sprintf("%s/q%d/u%v/pre%v/%s/w%d/fc%v/P%d/closerace", p.Policy, p.QoS, p.Unrel, p.Predecl, strings.Join(p.Ops, ","), p.Writers, p.FailCode, p.P)
	}
	return fmt.Sprintf("%s/q%d/u%v/pre%v/%s/w%d/fc%v/P%d", p.Policy, p.QoS, p.Unrel, p.Predecl, strings.Join(p.Ops, ","), p.Writers, p.FailCode, p.P)
}

var alphabet = []string{"wA1", "wA2", "wB1", "wE", "w0", "F", "Z"}

func histories(maxLen int) [][]string {
	out := [][]string{{}}
	var rec func(cur []string)
	rec = func(cur []string) {
		if len(cur) == maxLen {
			return
		}
		for _, a := range alphabet {
			n := append(append([]string{}, cur...), a)
			out = append(out, n)
			rec(n)
		}
	}
	rec(nil)
	return out
}

func scenarios(tier string) []vlib.Scenario {
	var out []vlib.Scenario
	seen := map[string]bool{}
	add := func(p params) {
		if seen[p.name()] {
			return
		}
		seen[p.name()] = true
		out = append(out, vlib.Scenario{Name: p.name(), P: p})
	}
	policies := []string{"none", "interval", "size", "intsize", "immediate"}
	type q struct {
		q message.QoS
		u bool
	}
	qoss := []q{{message.QoSReliable, false}, {message.QoSPartial, false}, {message.QoSUnreliable, false}, {message.QoSUnreliable, true}}
	if propID == "C20" {
		qoss = []q{{message.QoSReliable, false}} // chunk cutting does not depend on the QoS (C01 covers all QoS)
	}
	maxLen := 2
	if tier == "thorough" {
		maxLen = 3
	}
	for _, pol := range policies {
		for _, qq := range qoss {
			for _, h := range histories(maxLen) {
				nw := 0
				for _, o := range h {
					if o[0] == 'w' {
						nw++
					}
				}
				if nw == 0 && len(h) > 1 {
					continue // nothing written: one representative per length is enough
				}
				for _, pre := range []bool{false, true} {
					if pre && nw == 0 {
						continue
					}
					if tier != "thorough" && len(h) == 2 && pre && qq.q != message.QoSReliable {
						continue
					}
					if propID == "C20" && pre {
						continue
					}
					add(params{Policy: pol, QoS: qq.q, Unrel: qq.u, Predecl: pre, Ops: h, Writers: 1})
				}
			}
		}
	}
	// three-step histories that let acknowledgements settle between the last write and Close
	three := [][]string{{"wA1", "wB1", "Z"}, {"wA1", "F", "wB1"}, {"wA2", "wB1", "F"}, {"wB1", "wB1", "Z"}, {"wA1", "Z", "wA2"}, {"w0", "wA1", "F"}, {"wA1", "wA2", "wB1"}, {"wA2", "wA2", "wA1"}, {"wA2", "wA2", "Z"},
		// small writes after the threshold was exceeded once; points with empty payloads only
		{"wB1", "wA1", "wA1"}, {"wB1", "wA1", "wA2"}, {"wE", "F", "wE"}, {"wE", "wE", "Z"}, {"wB1", "wE", "wA1"}}
	for _, pol := range policies {
		for _, h := range three {
			add(params{Policy: pol, QoS: message.QoSReliable, Ops: h, Writers: 1})
		}
	}
	// failure codes and schedule deviations on the two-chunk histories
	two := [][]string{{"wA1", "F", "wB1"}, {"wA1", "wB1"}, {"wA2", "F", "wA1"}, {"wB1", "wB1"}, {"wA1", "Z", "wA2"}}
	for _, pol := range []string{"none", "immediate", "size"} {
		for _, h := range two {
			if propID != "C20" {
				add(params{Policy: pol, QoS: message.QoSReliable, Ops: h, Writers: 1, FailCode: true})
			}
			add(params{Policy: pol, QoS: message.QoSReliable, Ops: h, Writers: 1, P: 1})
			if tier == "thorough" {
				add(params{Policy: pol, QoS: message.QoSReliable, Ops: h, Writers: 2, P: 1})
				add(params{Policy: pol, QoS: message.QoSReliable, Ops: h, Writers: 1, P: 2})
			}
		}
	}
	for _, pol := range []string{"none", "immediate"} {
		add(params{Policy: pol, QoS: message.QoSReliable, Ops: []string{"wA1", "wB1", "F", "wA2"}, Writers: 2})
	}
	// more acknowledgements outstanding than the per-stream ack queue holds, delivered in one burst
	if propID != "C20" {
		add(params{Policy: "immediate", QoS: message.QoSReliable, Writers: 1, AckBurst: 1040})
		add(params{Policy: "immediate", QoS: message.QoSReliable, Writers: 1, AckBurst: 1040, P: 1})
	}
	// an interval policy with a non-positive interval
	for _, pol := range []string{"interval0", "intsize0"} {
		add(params{Policy: pol, QoS: message.QoSReliable, Ops: []string{"wA1", "Z", "wB1"}, Writers: 1})
	}
	// close timeout 0
	for _, pol := range []string{"none", "interval"} {
		add(params{Policy: pol, QoS: message.QoSReliable, Ops: []string{"wA1", "wB1"}, Writers: 1, CT0: true})
		add(params{Policy: pol, QoS: message.QoSReliable, Ops: []string{"wA1", "wB1"}, Writers: 1, CT0: true, P: 1})
	}
	// the options of an earlier stream of the process must not change this one (defaults are shared through pointers)
	for _, pol := range []string{"none", "immediate"} {
		add(params{Policy: pol, QoS: message.QoSReliable, Ops: []string{"wA1", "wB1"}, Writers: 1, Prior: true})
	}
	if propID != "C20" {
		// Close racing with writers: a write either fails or its point is delivered before the close request
		for _, pol := range []string{"none", "immediate", "size"} {
			add(params{Policy: pol, QoS: message.QoSReliable, Ops: []string{"wA1", "wB1"}, Writers: 2, P: 1, CloseRace: true})
			if tier == "thorough" {
				add(params{Policy: pol, QoS: message.QoSReliable, Ops: []string{"wA1", "wB1", "wA2"}, Writers: 2, P: 2, CloseRace: true})
			}
		}
	}
	if propID == "C20" {
		// Flush with a cancelled context, Flush from two threads, State() against a concurrent writer
		for _, pol := range policies {
			add(params{Policy: pol, QoS: message.QoSReliable, Ops: []string{"wA1", "Fc", "wB1"}, Writers: 1})
			add(params{Policy: pol, QoS: message.QoSReliable, Ops: []string{"wA2", "Fc", "F"}, Writers: 1})
			// a Flush that follows an abandoned one must still wait for its own cut
			add(params{Policy: pol, QoS: message.QoSReliable, Ops: []string{"wA1", "Fc", "wB1", "F"}, Writers: 1})
			add(params{Policy: pol, QoS: message.QoSReliable, Ops: []string{"wA1", "Fm", "wB1", "F"}, Writers: 1, P: 1})
			add(params{Policy: pol, QoS: message.QoSReliable, Ops: []string{"wA1", "wB1", "F", "F"}, Writers: 2, P: 1})
			add(params{Policy: pol, QoS: message.QoSReliable, Ops: []string{"wA1", "F", "wA2", "F"}, Writers: 2, P: 1})
			if tier == "thorough" {
				add(params{Policy: pol, QoS: message.QoSReliable, Ops: []string{"wA1", "wB1", "F", "F"}, Writers: 2, P: 2})
				add(params{Policy: pol, QoS: message.QoSReliable, Ops: []string{"wA1", "F", "wA2", "F", "wB1", "F"}, Writers: 3, P: 1})
			}
		}
	}
	return out
}

func config(sc vlib.Scenario, tier string) vsched.Config {
	p := sc.P.(params)
	cfg := vsched.Config{Preempt: 1, Switch: 1, SelCase: 1, Stall: 1, Timer: -1, Horizon: 40 * time.Second, MaxSteps: 400000}
	cfg.Budget[vsched.BudP] = p.P
	if p.AckBurst > 0 {
		// the only deviation is one stall of the stream's ack reader while the first acks of the burst arrive
		cfg.Preempt, cfg.Switch, cfg.SelCase, cfg.NoScopeCache = -1, -1, -1, true
		cfg.Scope = func(site string) bool { return burstWindow && strings.Contains(site, "iscp.(*Upstream).readAckLoop") }
		return cfg
	}
	cfg.Scope = func(site string) bool {
		return strings.Contains(site, "iscp.(*Upstream)") || strings.Contains(site, "iscp.(*eventDispatcher)") || strings.Contains(site, "(DataPointGroups)")
	}
	return cfg
}

// burstWindow: the first acks of an ack burst are being sent (scope of the stall deviation of the ack-burst scenarios)
var burstWindow bool

type wpoint struct {
	id      message.DataID
	elapsed time.Duration
	payload string
}

type writeRec struct {
	writer  int
	op      string
	points  []wpoint
	err     error
	done    bool
	chunksBefore int // chunks at the broker when the write returned
	flushesBefore int
}

type world struct {
	scratch []*message.DataPoint
	p      params
	b      *sim.Broker
	writes []writeRec
	flushErrs []error
	closeErr  error
	connErr   error
	sendHook  []iscp.UpstreamChunk
	ackHook   []iscp.UpstreamChunkResult
	ackHookAtClose int
	sendHookAtClose int
	acksSentAtClose []string
	states    []stateRec
	closedEv  int
	dev       bool
	phase     string
	opCounter int
}

type stateRec struct {
	when    string
	st      iscp.UpstreamState
	accepted int // points of writes that returned nil so far
	issued   int // points of writes issued so far
	chunks  int // chunks at the broker
	accBefore int // points accepted before the Flush call (after-flush snapshots)
	hooked  int
}

func (w *world) script() *sim.Script {
	s := &sim.Script{Unreliable: w.p.Unrel}
	s.AssignDataAlias = func(u *sim.UpStream) bool {
		if len(u.Open.DataIDs) == 0 {
			return true
		}
		return vsched.Choose("alias-at-open", 2) == 0
	}
	if w.p.AckBurst > 0 {
		s.AssignDataAlias = func(u *sim.UpStream) bool { return true }
		s.AckChunk = func(c *sim.BConn, u *sim.UpStream, ch *sim.ChunkRec) sim.AckMode { return sim.AckHold }
		s.ReleaseHeld = func(b *sim.Broker, c *sim.BConn, u *sim.UpStream) {
			if len(u.Held) < w.p.AckBurst {
				return // not yet: the burst comes when everything has been received
			}
			held := u.Held
			u.Held = nil
			burstWindow = true // until the first results have been reported to the hook
			for _, r := range held {
				b.SendAck(c, u, []*message.UpstreamChunkResult{r}, nil)
			}
		}
		return s
	}
	s.AckChunk = func(c *sim.BConn, u *sim.UpStream, ch *sim.ChunkRec) sim.AckMode {
		switch vsched.Choose(fmt.Sprintf("ack-seq%d", ch.Seq), 3) {
		case 0:
			return sim.AckNow
		case 1:
			return sim.AckHold
		}
		return sim.AckDelay
	}
	s.AliasInAck = func(u *sim.UpStream, ch *sim.ChunkRec) bool {
		if len(ch.DataIDs) == 0 {
			return false
		}
		return vsched.Choose("alias-in-ack", 2) == 1
	}
	if w.p.FailCode {
		s.ChunkResult = func(u *sim.UpStream, ch *sim.ChunkRec) message.ResultCode {
			if vsched.Choose("result-code", 2) == 1 {
				return message.ResultCodeInvalidDataID
			}
			return message.ResultCodeSucceeded
		}
	}
	s.ReleaseHeld = func(b *sim.Broker, c *sim.BConn, u *sim.UpStream) {
		held := u.Held
		u.Held = nil
		shapes := 2
		if len(held) > 1 {
			shapes = 4
		}
		switch vsched.Choose("release-shape", shapes) {
		case 0: // singly, in order
			for _, r := range held {
				b.SendAck(c, u, []*message.UpstreamChunkResult{r}, nil)
			}
		case 1: // each result twice (duplicated acks)
			for _, r := range held {
				b.SendAck(c, u, []*message.UpstreamChunkResult{r}, nil)
				b.SendAck(c, u, []*message.UpstreamChunkResult{r}, nil)
			}
		case 2: // one batch
			b.SendAck(c, u, held, nil)
		case 3: // singly, reversed
			for i := len(held) - 1; i >= 0; i-- {
				b.SendAck(c, u, []*message.UpstreamChunkResult{held[i]}, nil)
			}
		}
	}
	return s
}

// pol is the policy the stream behaves as: a non-positive interval stands for the default interval (100 ms).
func (w *world) pol() string { return strings.TrimSuffix(w.p.Policy, "0") }

func (w *world) policy() iscp.UpstreamOption {
	switch w.p.Policy {
	case "interval0":
		return iscp.WithUpstreamFlushPolicyIntervalOnly(0)
	case "intsize0":
		return iscp.WithUpstreamFlushPolicyIntervalOrBufferSize(-time.Second, 4)
	case "none":
		return iscp.WithUpstreamFlushPolicyNone()
	case "interval":
		return iscp.WithUpstreamFlushPolicyIntervalOnly(100 * time.Millisecond)
	case "size":
		return iscp.WithUpstreamFlushPolicyBufferSizeOnly(4)
	case "intsize":
		return iscp.WithUpstreamFlushPolicyIntervalOrBufferSize(100*time.Millisecond, 4)
	case "immediate":
		return iscp.WithUpstreamFlushPolicyImmediately()
	}
	panic("bad policy")
}

func (w *world) chunksAtBroker() int {
	n := 0
	for _, u := range w.b.Ups {
		n += len(u.Chunks)
	}
	return n
}

func (w *world) doOp(ctx context.Context, up *iscp.Upstream, op string, writer ...int) {
	w.opCounter++
	base := time.Duration(w.opCounter * 10)
	mk := func(id message.DataID, pl ...string) {
		rec := writeRec{op: op}
		if len(writer) > 0 {
			rec.writer = writer[0]
		}
		// a single writer reuses one argument slice with spare capacity for every call (the library must not
		// retain the variadic slice: it belongs to the caller again once WriteDataPoints has returned)
		var dps []*message.DataPoint
		if w.p.Writers <= 1 {
			if w.scratch == nil {
				w.scratch = make([]*message.DataPoint, 0, 8)
			}
			dps = w.scratch[:0]
		}
		for i, s := range pl {
			e := base + time.Duration(i)
			rec.points = append(rec.points, wpoint{id, e * time.Microsecond, s})
			dps = append(dps, &message.DataPoint{ElapsedTime: e * time.Microsecond, Payload: []byte(s)})
		}
		idc := id
		idx := len(w.writes)
		w.writes = append(w.writes, rec)
		err := up.WriteDataPoints(ctx, &idc, dps...)
		for i := range dps {
			dps[i] = nil // the caller's slice is the caller's again
		}
		idc = message.DataID{Name: "reused-by-caller", Type: "x"} // and so is the DataID variable it pointed to
		w.writes[idx].err = err
		w.writes[idx].done = true
		w.writes[idx].chunksBefore = w.chunksAtBroker()
	}
	switch op {
	case "wA1":
		mk(idA, "a")
	case "wA2":
		mk(idA, "", "bb")
	case "wB1":
		mk(idB, "ccccc")
	case "wE":
		mk(idA, "")
	case "w0":
		mk(idA)
	case "F":
		acc, _ := w.accepted()
		w.snapshot(up, "before-flush")
		err := up.Flush(ctx)
		w.flushErrs = append(w.flushErrs, err)
		if err == nil {
			w.snapshotF(up, "after-flush", acc)
		}
	case "Fc":
		w.snapshot(up, "before-flush")
		cctx, cancel := vcontext.WithCancel(ctx)
		cancel()
		err := up.Flush(cctx)
		w.flushErrs = append(w.flushErrs, err)
		if err == nil {
			acc, _ := w.accepted()
			w.snapshotF(up, "after-flush-cancelled", acc)
		}
	case "Fm":
		// the context is cancelled by another thread while the Flush is in flight (where exactly: schedule)
		w.snapshot(up, "before-flush")
		cctx, cancel := vcontext.WithCancel(ctx)
		vsched.Go("h:canceller", func() { cancel() })
		err := up.Flush(cctx)
		w.flushErrs = append(w.flushErrs, err)
		if err == nil {
			acc, _ := w.accepted()
			w.snapshotF(up, "after-flush-cancelled", acc)
		}
	case "Z":
		vsched.Sleep(100*time.Millisecond, "h:Z")
		w.snapshot(up, "after-interval")
	}
}

func (w *world) accepted() (acc, issued int) {
	for _, wr := range w.writes {
		issued += len(wr.points)
		if wr.done && wr.err == nil {
			acc += len(wr.points)
		}
	}
	return
}

func (w *world) snapshot(up *iscp.Upstream, when string) {
	w.snapshotF(up, when, -1)
}

func (w *world) snapshotF(up *iscp.Upstream, when string, accBefore int) {
	st := *up.State()
	acc, iss := w.accepted()
	w.states = append(w.states, stateRec{when: when, st: st, accepted: acc, issued: iss, chunks: w.chunksAtBroker(), accBefore: accBefore, hooked: len(w.sendHook)})
}

func (w *world) main() {
	w.b = sim.NewBroker(w.script())
	iscp.VerifRegisterDialer("sim", func() transport.Dialer { return w.b.Dialer() })
	iscp.VerifDeterministicIDs()
	conn, err := iscp.Connect("sim:1", "sim", iscp.VerifWithSentStorage(iscp.VerifNewInmemSentStorage()))
	if err != nil {
		w.connErr = err
		return
	}
	ctx := vcontext.Background()
	opts := []iscp.UpstreamOption{
		w.policy(), iscp.WithUpstreamQoS(w.p.QoS),
		iscp.WithUpstreamSendDataPointsHooker(iscp.SendDataPointsHookerFunc(func(id uuid.UUID, c iscp.UpstreamChunk) {
			w.sendHook = append(w.sendHook, c)
		})),
		iscp.WithUpstreamReceiveAckHooker(iscp.ReceiveAckHookerFunc(func(id uuid.UUID, r iscp.UpstreamChunkResult) {
			w.ackHook = append(w.ackHook, r)
			if len(w.ackHook) >= 2 {
				burstWindow = false
			}
		})),
		iscp.WithUpstreamClosedEventHandler(iscp.UpstreamClosedEventHandlerFunc(func(ev *iscp.UpstreamClosedEvent) { w.closedEv++ })),
	}
	if w.p.Predecl {
		ida := idA
		opts = append(opts, iscp.WithUpstreamDataIDs([]*message.DataID{&ida}))
	}
	if w.p.CT0 {
		opts = append(opts, iscp.WithUpstreamCloseTimeout(0))
	}
	if w.p.Prior {
		pu, err := conn.OpenUpstream(ctx, "prior", iscp.WithUpstreamCloseTimeout(50*time.Millisecond), iscp.WithUpstreamAckTimeout(300*time.Millisecond), iscp.WithUpstreamFlushPolicyNone())
		if err == nil {
			pu.Close(ctx)
		}
	}
	up, err := conn.OpenUpstream(ctx, "sess", opts...)
	if err != nil {
		w.connErr = err
		return
	}
	w.phase = "ops"
	if w.p.AckBurst > 0 {
		for i := 0; i < w.p.AckBurst; i++ {
			rec := writeRec{op: "burst"}
			e := time.Duration(i+1) * time.Microsecond
			rec.points = append(rec.points, wpoint{idA, e, "x"})
			ida := idA
			idx := len(w.writes)
			w.writes = append(w.writes, rec)
			w.writes[idx].err = up.WriteDataPoints(ctx, &ida, &message.DataPoint{ElapsedTime: e, Payload: []byte("x")})
			w.writes[idx].done = true
		}
	} else if w.p.Writers <= 1 {
		for _, op := range w.p.Ops {
			w.doOp(ctx, up, op)
		}
	} else {
		var wg vsched.WaitGroup
		for k := 0; k < w.p.Writers; k++ {
			wg.Add(1)
			k := k
			vsched.Go("h:writer", func() {
				defer wg.Done()
				for i, op := range w.p.Ops {
					if i%w.p.Writers == k {
						w.doOp(ctx, up, op, k)
					}
				}
			})
		}
		if !w.p.CloseRace {
			wg.Wait()
		}
		defer wg.Wait()
	}
	w.phase = "close"
	w.snapshot(up, "before-close")
	w.closeErr = up.Close(ctx)
	if w.p.CloseRace {
		// writers that were still in flight finish (with an error or not) before the ledger is read
		vsched.Quiesce()
	}
	w.ackHookAtClose = len(w.ackHook)
	w.sendHookAtClose = len(w.sendHook)
	for _, u := range w.b.Ups {
		for _, r := range u.AcksSent {
			w.acksSentAtClose = append(w.acksSentAtClose, fmt.Sprintf("%d:%d", r.SequenceNumber, r.ResultCode))
		}
	}
	w.snapshot(up, "after-close")
	w.phase = "closed"
	vsched.Quiesce()
	conn.Close(ctx)
	w.b.Stop()
	w.phase = "done"
}

func run(sc vlib.Scenario, cfg vsched.Config) (*vsched.Result, vlib.Verdict) {
	w := &world{p: sc.P.(params)}
	burstWindow = false
	res := vsched.Run(cfg, w.main)
	var v vlib.Verdict
	if res.Outcome == vsched.Panicked {
		v.Fail("panic", res.Panic.Site, "library panic: %s", res.Panic.Value)
		return res, v
	}
	if res.Outcome != vsched.Completed {
		v.Inconclusive = "not-completed:" + res.Outcome.String() + ":" + w.phase
		return res, v
	}
	if w.connErr != nil {
		v.Inconclusive = "connect/open failed: " + w.connErr.Error()
		return res, v
	}
	w.dev = res.Used[vsched.BudP] > 0
	switch propID {
	case "C20":
		w.oracleC20(&v)
	default:
		w.oracleC01(&v)
	}
	return res, v
}

func pkey(id message.DataID, e time.Duration, pl string) string {
	return fmt.Sprintf("%s@%d=%q", id.Name, e, pl)
}

func (w *world) oracleC01(v *vlib.Verdict) {
	if w.closeErr != nil {
		v.Inconclusive = "close failed"
		v.Outcome = "close-error"
		return
	}
	wantUps := 1
	if w.p.Prior {
		wantUps = 2
	}
	if len(w.b.Ups) != wantUps {
		v.Fail("C01.setup", "streams", "broker saw %d upstreams", len(w.b.Ups))
		return
	}
	u := w.b.Ups[wantUps-1]
	// 1. multiset
	var want []string
	// order is owed per data id among writes that are ordered themselves: those of one writer thread
	// (writes of different threads are concurrent, either order is a correct delivery)
	type idw struct {
		id message.DataID
		w  int
	}
	perID := map[idw][]string{}
	writerOf := map[string]int{}
	total := 0
	for _, wr := range w.writes {
		if wr.err != nil {
			continue
		}
		for _, p := range wr.points {
			want = append(want, pkey(p.id, p.elapsed, p.payload))
			perID[idw{p.id, wr.writer}] = append(perID[idw{p.id, wr.writer}], pkey(p.id, p.elapsed, p.payload))
			writerOf[pkey(p.id, p.elapsed, p.payload)] = wr.writer
			total++
		}
	}
	var got []string
	gotPerID := map[message.DataID][]string{}
	chunks := append([]*sim.ChunkRec{}, u.Chunks...)
	sort.SliceStable(chunks, func(i, j int) bool { return chunks[i].Seq < chunks[j].Seq })
	seqSeen := map[uint32]int{}
	shape := []string{}
	for _, c := range chunks {
		seqSeen[c.Seq]++
		if c.BadAlias {
			v.Fail("C01.alias", "unknown-alias", "chunk seq %d uses a data-id alias the broker never handed out", c.Seq)
		}
		if c.AfterClose {
			v.Fail("C01.after-close", "chunk", "chunk seq %d reached the broker after the close request", c.Seq)
		}
		if len(c.Points) == 0 {
			shape = append(shape, "0")
		} else {
			shape = append(shape, fmt.Sprint(len(c.Points)))
		}
		for _, p := range c.Points {
			got = append(got, pkey(p.ID, p.Elapsed, p.Payload))
			gotPerID[p.ID] = append(gotPerID[p.ID], pkey(p.ID, p.Elapsed, p.Payload))
		}
	}
	sw, sg := append([]string{}, want...), append([]string{}, got...)
	sort.Strings(sw)
	sort.Strings(sg)
	if strings.Join(sw, "|") != strings.Join(sg, "|") {
		kind := "differs"
		if len(sg) < len(sw) {
			kind = "lost"
		} else if len(sg) > len(sw) {
			kind = "duplicated"
		}
		v.Fail("C01.multiset", kind, "points at broker %v != points written %v", sg, sw)
	} else {
		for k, ws := range perID {
			var gs []string
			for _, g := range gotPerID[k.id] {
				if writerOf[g] == k.w {
					gs = append(gs, g)
				}
			}
			if strings.Join(ws, "|") != strings.Join(gs, "|") {
				v.Fail("C01.order", "per-id", "data id %s (writer %d): broker order %v != write order %v", k.id.Name, k.w, gs, ws)
			}
		}
	}
	// 3. sequence numbers 1..N
	n := uint32(len(seqSeen))
	for s, k := range seqSeen {
		if k != 1 {
			v.Fail("C01.seq", "reused", "sequence number %d used by %d chunks", s, k)
		}
		if s < 1 || s > n {
			v.Fail("C01.seq", "gap", "sequence numbers %v are not 1..%d", keys(seqSeen), n)
		}
	}
	// 4. close request
	if u.Close == nil {
		v.Fail("C01.close", "no-close-request", "Close returned nil but the broker has no close request")
	} else {
		if u.Close.FinalSequenceNumber != n {
			v.Fail("C01.close", "final-seq", "close request final sequence number %d, chunks received %d", u.Close.FinalSequenceNumber, n)
		}
		if u.Close.TotalDataPoints != uint64(total) {
			v.Fail("C01.close", "total-points", "close request total %d, points written %d", u.Close.TotalDataPoints, total)
		}
	}
	// 6. send hook
	hookSeq := map[uint32]int{}
	for _, h := range w.sendHook {
		hookSeq[h.SequenceNumber]++
		var hp []string
		for _, g := range h.DataPointGroups {
			if g.DataID == nil {
				v.Fail("C01.sendhook", "nil-data-id", "send hook of seq %d carries a group without a data id", h.SequenceNumber)
				continue
			}
			for _, p := range g.DataPoints {
				if p == nil {
					v.Fail("C01.sendhook", "nil-point", "send hook of seq %d carries a nil data point", h.SequenceNumber)
					continue
				}
				hp = append(hp, pkey(*g.DataID, p.ElapsedTime, string(p.Payload)))
			}
		}
		sort.Strings(hp)
		for _, c := range chunks {
			if c.Seq == h.SequenceNumber {
				var cp []string
				for _, p := range c.Points {
					cp = append(cp, pkey(p.ID, p.Elapsed, p.Payload))
				}
				sort.Strings(cp)
				if strings.Join(cp, "|") != strings.Join(hp, "|") {
					v.Fail("C01.sendhook", "content", "send hook content of seq %d %v != transmitted %v", h.SequenceNumber, hp, cp)
				}
			}
		}
	}
	for s := range seqSeen {
		if hookSeq[s] != 1 {
			v.Fail("C01.sendhook", fmt.Sprintf("count=%d", min(hookSeq[s], 2)), "send hook saw seq %d %d times", s, hookSeq[s])
		}
	}
	for s, k := range hookSeq {
		if seqSeen[s] == 0 {
			v.Fail("C01.sendhook", "phantom", "send hook announced seq %d (%d times) that never reached the broker", s, k)
		}
	}
	// 7. ack hook. The scripted broker acknowledges every chunk it receives (held acks are released as
	// soon as the client is quiescent, late ones after 1 s of virtual time), so when Close returns nil
	// every chunk's result must have been reported; and the hook never reports a result more often than
	// the broker sent it, nor one the broker did not send (a duplicate still in flight when Close
	// returns need not be reported).
	hookedSeq := map[uint32]bool{}
	for _, r := range w.ackHook[:w.ackHookAtClose] {
		hookedSeq[r.SequenceNumber] = true
	}
	hookedLater := map[uint32]bool{}
	for _, r := range w.ackHook {
		hookedLater[r.SequenceNumber] = true
	}
	var missing []uint32
	late := true
	for s := range seqSeen {
		if !hookedSeq[s] {
			missing = append(missing, s)
			if !hookedLater[s] {
				late = false
			}
		}
	}
	if len(missing) > 0 && !w.p.CT0 { // (with a close timeout of 0 Close does not wait for acknowledgements by configuration)
		sort.Slice(missing, func(i, j int) bool { return missing[i] < missing[j] })
		sent := fmt.Sprint(w.acksSentAtClose)
		if len(w.acksSentAtClose) > 40 {
			sent = fmt.Sprintf("%v ... (%d results)", w.acksSentAtClose[:40], len(w.acksSentAtClose))
		}
		sig := fmt.Sprintf("missing-at-close/reported-later=%v/dev=%v", late, w.dev)
		if w.p.AckBurst > 1024 && !late && missing[0] > 1024 {
			// the per-stream ack queue of the wire connection holds 1024 messages and the dispatcher does not wait
			// for room: what is lost are results that arrived while more than 1024 were queued
			sig = "ack-burst/results-beyond-1024-queued-dropped"
		}
		v.Fail("C01.ackhook", sig, "Close returned nil although the results of chunks %v had not been reported to the ack hook (broker acks every chunk; results sent by then: %s)", missing, sent)
	}
	sentCount := map[string]int{}
	for _, r := range u.AcksSent {
		sentCount[fmt.Sprintf("%d:%d", r.SequenceNumber, r.ResultCode)]++
	}
	hookCount := map[string]int{}
	for _, r := range w.ackHook {
		hookCount[fmt.Sprintf("%d:%d", r.SequenceNumber, r.ResultCode)]++
	}
	for k, n := range hookCount {
		if n > sentCount[k] {
			kind := "more-than-sent"
			if sentCount[k] == 0 {
				kind = "never-sent"
			}
			v.Fail("C01.ackhook", kind, "ack hook reported result %s %d times, the broker sent it %d times", k, n, sentCount[k])
		}
	}
	v.Outcome = fmt.Sprintf("chunks=%s acks=%d", strings.Join(shape, "+"), len(u.AcksSent))
}

func keys(m map[uint32]int) []uint32 {
	var out []uint32
	for k := range m {
		out = append(out, k)
	}
	sort.Slice(out, func(i, j int) bool { return out[i] < out[j] })
	return out
}

var propID = "C01"

func init() {
	for i, a := range os_args() {
		if a == "-id" && i+1 < len(os_args()) {
			propID = os_args()[i+1]
		}
	}
}

func main() {
	h := &vlib.Harness{
		Property:  "C01",
		Scenarios: scenarios,
		Config:    config,
		Run:       run,
		Rule:      "mode E: root scenarios = flush policy x QoS x (un)reliable side channel x pre-declared ids x write/flush history (alphabet wA1 wA2 wB1 w0 F Z); broker choices (alias at open, ack now/hold per chunk, alias in ack, result code, release shape of held acks: single/duplicated/batched/reversed) explored exhaustively; schedule deviations up to P inside iscp.(*Upstream)/eventDispatcher",
		Assumptions: []string{
			"the repository's protobuf codec is the trusted base for the broker's view of the wire (it is the subject of C11/C12)",
			"scheduler semantics of DESIGN.md section 2.2; virtual time only advances at quiescence",
			"in-memory link is loss-free and FIFO per direction",
		},
	}
	vlib.Main(h)
}
