package main

import (
	"fmt"
	"sort"
	"strings"

	"github.com/aptpod/iscp-go/internal/vh/lib"
	"github.com/aptpod/iscp-go/internal/vh/sim"
)

// reference chunking for single-writer histories: which points each chunk must contain.
// A Flush whose context is already cancelled may or may not cut (both are allowed), so the
// reference is a set of chunkings: one per subset of the cancelled flushes that did cut.
func (w *world) refChunks() []string {
	nfc := 0
	for _, op := range w.p.Ops {
		if op == "Fc" || op == "Fm" {
			nfc++
		}
	}
	var all []string
	for mask := 0; mask < 1<<nfc; mask++ {
		var out [][]string
		var buf []string
		size := 0
		cut := func() {
			if len(buf) > 0 {
				c := append([]string{}, buf...)
				sort.Strings(c)
				out = append(out, c)
			}
			buf, size = nil, 0
		}
		wi, fi := 0, 0
		for _, op := range w.p.Ops {
			switch {
			case op[0] == 'w':
				wr := w.writes[wi]
				wi++
				if wr.err != nil {
					continue
				}
				for _, p := range wr.points {
					buf = append(buf, pkey(p.id, p.elapsed, p.payload))
					size += len(p.payload)
				}
				switch w.pol() {
				case "size", "intsize":
					if size > 4 {
						cut()
					}
				case "immediate":
					cut()
				}
			case op == "F":
				cut()
			case op == "Fc" || op == "Fm":
				if mask&(1<<fi) != 0 {
					cut()
				}
				fi++
			case op == "Z":
				if w.pol() == "interval" || w.pol() == "intsize" {
					cut()
				}
			}
		}
		cut() // Close
		all = append(all, fmt.Sprint(out))
	}
	return all
}

func (w *world) oracleC20(v *vlib.Verdict) {
	wantUps := 1
	if w.p.Prior {
		wantUps = 2
	}
	if len(w.b.Ups) != wantUps {
		v.Fail("C20.setup", "streams", "broker saw %d upstreams", len(w.b.Ups))
		return
	}
	u := w.b.Ups[wantUps-1]
	chunks := append([]*sim.ChunkRec{}, u.Chunks...)
	sort.SliceStable(chunks, func(i, j int) bool { return chunks[i].Seq < chunks[j].Seq })
	// (f) no chunk without a data point
	for _, c := range chunks {
		if len(c.Points) == 0 {
			v.Fail("C20.empty-chunk", fmt.Sprintf("groups=%d", min(c.NGroups, 2)), "chunk seq %d carries no data point (%d groups)", c.Seq, c.NGroups)
		}
	}
	// (e) snapshots
	for _, s := range w.states {
		buffered := 0
		inBuf := map[string]int{}
		for _, g := range s.st.DataPointsBuffer {
			buffered += len(g.DataPoints)
			for _, p := range g.DataPoints {
				inBuf[pkey(*g.DataID, p.ElapsedTime, string(p.Payload))]++
			}
		}
		if int(s.st.TotalDataPoints)+buffered > s.issued {
			v.Fail("C20.state", "invents", "%s: TotalDataPoints %d + buffered %d > points of writes issued %d", s.when, s.st.TotalDataPoints, buffered, s.issued)
		}
		for k, n := range inBuf {
			if n > 1 {
				v.Fail("C20.state", "double-buffered", "%s: point %s appears %d times in the buffer snapshot", s.when, k, n)
			}
		}
		if strings.HasPrefix(s.when, "after-flush") {
			if w.p.Writers <= 1 {
				if buffered != 0 {
					v.Fail("C20.barrier", "buffer-not-empty", "%s: Flush returned nil but %d points are still buffered", s.when, buffered)
				}
				if int(s.st.TotalDataPoints) != s.accepted {
					v.Fail("C20.barrier", "total", "%s: Flush returned nil: TotalDataPoints %d != points accepted %d", s.when, s.st.TotalDataPoints, s.accepted)
				}
			}
			if s.accBefore >= 0 && int(s.st.TotalDataPoints) < s.accBefore {
				v.Fail("C20.barrier", "not-cut", "%s: Flush returned nil but only %d of the %d points accepted before the call have been cut", s.when, s.st.TotalDataPoints, s.accBefore)
			}
		}
		if s.when == "after-interval" && (w.pol() == "interval" || w.pol() == "intsize") && w.p.Writers <= 1 {
			if buffered != 0 {
				v.Fail("C20.interval", "held", "one flush interval after the last write %d points are still buffered", buffered)
			}
		}
	}
	// policy none: nothing transmitted before the first Flush / Close
	if w.pol() == "none" {
		for _, s := range w.states {
			if s.when == "before-flush" || s.when == "before-close" {
				if s.chunks != 0 || s.st.LastIssuedSequenceNumber != 0 {
					v.Fail("C20.none", "early", "policy none: %d chunks at the broker / sequence number %d before the first Flush or Close", s.chunks, s.st.LastIssuedSequenceNumber)
				}
				break
			}
		}
	}
	// chunk boundaries against the reference model (single writer, successful close)
	if w.p.Writers <= 1 && w.closeErr == nil {
		ref := w.refChunks()
		var got [][]string
		for _, c := range chunks {
			var ps []string
			for _, p := range c.Points {
				ps = append(ps, pkey(p.ID, p.Elapsed, p.Payload))
			}
			sort.Strings(ps)
			if len(ps) > 0 {
				got = append(got, ps)
			}
		}
		okRef := false
		for _, r := range ref {
			if r == fmt.Sprint(got) {
				okRef = true
			}
		}
		if !okRef {
			kind := "boundaries"
			v.Fail("C20.cut/"+w.pol(), kind, "chunks at the broker %v != chunks promised by policy %s for history %v: %v", got, w.pol(), w.p.Ops, ref)
		}
	}
	for i, e := range w.flushErrs {
		if e != nil {
			v.Outcome += fmt.Sprintf("flusherr%d ", i)
		}
	}
	shape := []string{}
	for _, c := range chunks {
		shape = append(shape, fmt.Sprint(len(c.Points)))
	}
	v.Outcome += "chunks=" + strings.Join(shape, "+")
}
