// c06: request/response matching of wire.ClientConn under schedule exploration.
// K caller threads issue requests of mixed kinds over an in-memory link; the scripted peer
// answers in every permutation, optionally inserting a response with an unknown id and a
// duplicate of an already answered one; one caller's context may be cancelled at any of
// several protocol positions. Preemptions up to P inside the wire package, atomics visible.
package main

import (
	"context"
	"errors"
	"fmt"
	"sort"
	"strings"
	"time"

	"github.com/aptpod/iscp-go/encoding"
	"github.com/aptpod/iscp-go/encoding/protobuf"
	"github.com/aptpod/iscp-go/internal/vcontext"
	"github.com/aptpod/iscp-go/internal/vh/lib"
	"github.com/aptpod/iscp-go/internal/vh/sim"
	"github.com/aptpod/iscp-go/internal/vsched"
	"github.com/aptpod/iscp-go/message"
	"github.com/aptpod/iscp-go/transport"
	"github.com/aptpod/iscp-go/wire"
	uuid "github.com/google/uuid"
)

type params struct {
	Kinds    []string // per caller: upopen downopen meta upclose downclose upresume
	Cancel   int      // index of the caller whose context is cancelled (-1 none)
	Spurious bool     // peer may insert unknown-id / duplicate responses
	HoldPing bool     // the pong of the first keep-alive ping takes part in the permutation
	P        int
}

func (p params) name() string {
	return fmt.Sprintf("%s/cancel%d/sp%v/hp%v/P%d", strings.Join(p.Kinds, ","), p.Cancel, p.Spurious, p.HoldPing, p.P)
}

func scenarios(tier string) []vlib.Scenario {
	var out []vlib.Scenario
	add := func(p params) { out = append(out, vlib.Scenario{Name: p.name(), P: p}) }
	kinds := []string{"upopen", "downopen", "meta", "upclose"}
	for i, a := range kinds {
		for _, b := range kinds[i:] {
			for _, c := range []int{-1, 0} {
				add(params{Kinds: []string{a, b}, Cancel: c, Spurious: true, P: 1})
			}
		}
	}
	add(params{Kinds: []string{"upopen", "upopen"}, Cancel: -1, Spurious: true, HoldPing: true, P: 1})
	add(params{Kinds: []string{"meta", "downopen"}, Cancel: 1, Spurious: false, HoldPing: true, P: 1})
	add(params{Kinds: []string{"upopen", "meta"}, Cancel: -1, Spurious: false, P: 2})
	add(params{Kinds: []string{"upresume", "downclose"}, Cancel: -1, Spurious: true, P: 1})
	add(params{Kinds: []string{"upopen", "meta", "downopen"}, Cancel: -1, Spurious: false, P: 1})
	if tier == "thorough" {
		for i, a := range kinds {
			for _, b := range kinds[i:] {
				add(params{Kinds: []string{a, b, "meta"}, Cancel: -1, Spurious: false, P: 1})
				add(params{Kinds: []string{a, b}, Cancel: 1, Spurious: true, HoldPing: true, P: 1})
				add(params{Kinds: []string{a, b}, Cancel: -1, Spurious: false, P: 2})
			}
		}
		add(params{Kinds: []string{"upopen", "downopen", "upclose"}, Cancel: 2, Spurious: true, P: 1})
	}
	return out
}

func config(sc vlib.Scenario, tier string) vsched.Config {
	p := sc.P.(params)
	cfg := vsched.Config{Preempt: 1, Switch: 1, SelCase: 1, Stall: 1, Timer: -1, Horizon: 30 * time.Second, MaxSteps: 200000, Atomics: true}
	cfg.Budget[vsched.BudP] = p.P
	cfg.Scope = func(site string) bool {
		return strings.Contains(site, "wire.(*ClientConn).sendRequest") || strings.Contains(site, "wire.(*ClientConn).readRequestLoop") ||
			strings.Contains(site, "wire.(*IDGenerator)") || strings.Contains(site, "wire.(*ClientConn).Send") || strings.Contains(site, "wire.(*ClientConn).readReliableLoop")
	}
	return cfg
}

type callRes struct {
	kind   string
	reqID  uint32
	resp   message.Message
	err    error
	done   bool
	cancelled bool
}

type world struct {
	p       params
	link    *sim.Link
	tr      *encoding.Transport
	calls   []*callRes
	reqSeen []uint32 // request ids in arrival order at the peer (all kinds incl. ping/connect)
	pending []message.Request
	answered []uint32
	spurious int
	connErr error
	rxAt    int
	phase   string
}

func respFor(m message.Request) message.Message {
	tag := fmt.Sprintf("id:%d", m.GetRequestID())
	switch r := m.(type) {
	case *message.UpstreamOpenRequest:
		return &message.UpstreamOpenResponse{RequestID: r.RequestID, AssignedStreamID: sim.StreamUUID('u', int(r.RequestID)), AssignedStreamIDAlias: uint32(r.RequestID) + 100, ResultCode: message.ResultCodeSucceeded, ResultString: tag}
	case *message.DownstreamOpenRequest:
		return &message.DownstreamOpenResponse{RequestID: r.RequestID, AssignedStreamID: sim.StreamUUID('d', int(r.RequestID)), ResultCode: message.ResultCodeSucceeded, ResultString: tag}
	case *message.UpstreamMetadata:
		return &message.UpstreamMetadataAck{RequestID: r.RequestID, ResultCode: message.ResultCodeSucceeded, ResultString: tag}
	case *message.UpstreamCloseRequest:
		return &message.UpstreamCloseResponse{RequestID: r.RequestID, ResultCode: message.ResultCodeSucceeded, ResultString: tag}
	case *message.DownstreamCloseRequest:
		return &message.DownstreamCloseResponse{RequestID: r.RequestID, ResultCode: message.ResultCodeSucceeded, ResultString: tag}
	case *message.UpstreamResumeRequest:
		return &message.UpstreamResumeResponse{RequestID: r.RequestID, AssignedStreamIDAlias: uint32(r.RequestID) + 100, ResultCode: message.ResultCodeSucceeded, ResultString: tag}
	case *message.Ping:
		return &message.Pong{RequestID: r.RequestID}
	}
	panic(fmt.Sprintf("respFor %T", m))
}

func (w *world) peer() {
	for {
		// answer when all caller requests are in
		if len(w.pending) >= len(w.p.Kinds) {
			w.answerAll()
		}
		m, err := w.tr.Read()
		if err != nil {
			return
		}
		w.rxAt++
		switch r := m.(type) {
		case *message.ConnectRequest:
			w.reqSeen = append(w.reqSeen, r.GetRequestID())
			w.tr.Write(&message.ConnectResponse{RequestID: r.RequestID, ProtocolVersion: r.ProtocolVersion, ResultCode: message.ResultCodeSucceeded})
		case *message.Ping:
			w.reqSeen = append(w.reqSeen, r.GetRequestID())
			if w.p.HoldPing && len(w.answered) == 0 {
				w.pending = append(w.pending, r)
				// a held ping does not count as a caller request
				continue
			}
			w.tr.Write(&message.Pong{RequestID: r.RequestID})
		case message.Request:
			w.reqSeen = append(w.reqSeen, r.GetRequestID())
			w.pending = append(w.pending, r)
		}
	}
}

func (w *world) nonPing() int {
	n := 0
	for _, r := range w.pending {
		if _, ok := r.(*message.Ping); !ok {
			n++
		}
	}
	return n
}

func (w *world) answerAll() {
	if w.nonPing() < len(w.p.Kinds) {
		return
	}
	for len(w.pending) > 0 {
		i := vsched.Choose("answer-next", len(w.pending))
		r := w.pending[i]
		w.pending = append(w.pending[:i:i], w.pending[i+1:]...)
		if w.p.Spurious {
			switch vsched.Choose("spurious", 3) {
			case 1: // unknown id (even, never issued)
				w.spurious++
				w.tr.Write(&message.UpstreamOpenResponse{RequestID: 9998, ResultCode: message.ResultCodeSucceeded, ResultString: "spurious"})
			case 2: // duplicate of an already answered one, with a different type to make misrouting visible
				if len(w.answered) > 0 {
					w.spurious++
					w.tr.Write(&message.UpstreamMetadataAck{RequestID: message.RequestID(w.answered[len(w.answered)-1]), ResultCode: message.ResultCodeSucceeded, ResultString: "duplicate"})
				}
			}
		}
		w.tr.Write(respFor(r))
		w.answered = append(w.answered, r.GetRequestID())
	}
}

func (w *world) caller(c *wire.ClientConn, i int, ctx context.Context) {
	r := w.calls[i]
	switch r.kind {
	case "upopen":
		req := &message.UpstreamOpenRequest{SessionID: fmt.Sprint(i), QoS: message.QoSReliable}
		resp, err := c.SendUpstreamOpenRequest(ctx, req)
		r.reqID, r.err = req.GetRequestID(), err
		if resp != nil {
			r.resp = resp
		}
	case "downopen":
		req := &message.DownstreamOpenRequest{DesiredStreamIDAlias: uint32(i + 1), QoS: message.QoSReliable}
		resp, err := c.SendDownstreamOpenRequest(ctx, req)
		r.reqID, r.err = req.GetRequestID(), err
		if resp != nil {
			r.resp = resp
		}
	case "meta":
		req := &message.UpstreamMetadata{Metadata: &message.BaseTime{SessionID: fmt.Sprint(i), Name: "n"}}
		resp, err := c.SendUpstreamMetadata(ctx, req)
		r.reqID, r.err = req.GetRequestID(), err
		if resp != nil {
			r.resp = resp
		}
	case "upclose":
		req := &message.UpstreamCloseRequest{StreamID: uuid.UUID{1, byte(i)}}
		resp, err := c.SendUpstreamCloseRequest(ctx, req)
		r.reqID, r.err = req.GetRequestID(), err
		if resp != nil {
			r.resp = resp
		}
	case "downclose":
		req := &message.DownstreamCloseRequest{StreamID: uuid.UUID{2, byte(i)}}
		resp, err := c.SendDownstreamCloseRequest(ctx, req)
		r.reqID, r.err = req.GetRequestID(), err
		if resp != nil {
			r.resp = resp
		}
	case "upresume":
		req := &message.UpstreamResumeRequest{StreamID: uuid.UUID{3, byte(i)}}
		resp, err := c.SendUpstreamResumeRequest(ctx, req, message.QoSReliable)
		r.reqID, r.err = req.GetRequestID(), err
		if resp != nil {
			r.resp = resp
		}
	}
	r.done = true
}

func (w *world) main() {
	w.link = sim.NewLink(0, false, transport.NegotiationParams{})
	w.tr = encoding.NewTransport(&encoding.TransportConfig{Transport: w.link.Server, Encoding: protobuf.NewEncoding()})
	vsched.Go("h:peer", w.peer)
	ctr := encoding.NewTransport(&encoding.TransportConfig{Transport: w.link.Client, Encoding: protobuf.NewEncoding()})
	c, err := wire.Connect(&wire.ClientConnConfig{Transport: ctr, ProtocolVersion: "2.0.0", NodeID: "n", PingInterval: time.Second, PingTimeout: time.Second})
	if err != nil {
		w.connErr = err
		return
	}
	w.phase = "calls"
	var wg vsched.WaitGroup
	for i, k := range w.p.Kinds {
		w.calls = append(w.calls, &callRes{kind: k})
		_ = i
	}
	for i := range w.p.Kinds {
		i := i
		ctx := vcontext.Background()
		if i == w.p.Cancel {
			cctx, cancel := vcontext.WithCancel(ctx)
			ctx = cctx
			w.calls[i].cancelled = true
			vsched.Go("h:canceller", func() {
				// cancel after the peer has received j messages / answered j requests
				pos := vsched.Choose("cancel-at", 4)
				switch pos {
				case 0:
				case 1:
					vsched.WaitUntil("cancel-after-first-request", func() bool { return len(w.reqSeen) >= 3 })
				case 2:
					vsched.WaitUntil("cancel-after-all-requests", func() bool { return w.nonPing() >= len(w.p.Kinds) || len(w.answered) > 0 })
				case 3:
					vsched.WaitUntil("cancel-after-first-answer", func() bool { return len(w.answered) >= 1 })
				}
				cancel()
			})
		}
		wg.Add(1)
		vsched.Go("h:caller", func() {
			defer wg.Done()
			w.caller(c, i, ctx)
		})
	}
	wg.Wait()
	w.phase = "idle"
	// the connection outlives a few keep-alive intervals: later pings are requests with ids of their own
	vsched.Sleep(2500*time.Millisecond, "h:idle")
	w.phase = "closing"
	c.Close()
	w.phase = "done"
}

func run(sc vlib.Scenario, cfg vsched.Config) (*vsched.Result, vlib.Verdict) {
	w := &world{p: sc.P.(params)}
	res := vsched.Run(cfg, w.main)
	var v vlib.Verdict
	if res.Outcome == vsched.Panicked {
		v.Fail("C06.panic", res.Panic.Site, "panic: %s", res.Panic.Value)
		return res, v
	}
	if w.connErr != nil {
		v.Inconclusive = "connect failed"
		return res, v
	}
	if res.Outcome == vsched.Deadlock || res.Outcome == vsched.StepLimit {
		var stuck []string
		for i, c := range w.calls {
			if !c.done {
				stuck = append(stuck, fmt.Sprintf("%d:%s", i, c.kind))
			}
		}
		if w.phase == "calls" && len(w.answered) >= len(w.p.Kinds) {
			where := ""
			for _, t := range res.Alive {
				if t.Name == "h:caller" {
					where = t.Site
				}
			}
			v.Fail("C06.hang", "caller-never-returns@"+siteFunc(where), "peer answered every request (%v) but callers %v never returned", w.answered, stuck)
		} else {
			v.Inconclusive = "not-completed:" + w.phase
		}
		return res, v
	}
	// ids distinct and even
	seen := map[uint32]bool{}
	for _, id := range w.reqSeen {
		if id%2 != 0 {
			v.Fail("C06.id", "odd", "request id %d is not of the client's parity (ids seen: %v)", id, w.reqSeen)
		}
		if seen[id] {
			v.Fail("C06.id", "reused", "request id %d used twice (ids seen: %v)", id, w.reqSeen)
		}
		seen[id] = true
	}
	outcome := []string{}
	for i, c := range w.calls {
		if !c.done {
			v.Fail("C06.hang", "caller-not-done", "caller %d did not finish", i)
			continue
		}
		if c.err != nil {
			if c.cancelled && errors.Is(c.err, context.Canceled) {
				outcome = append(outcome, "cancelled")
				continue
			}
			v.Fail("C06.error", c.kind, "caller %d (%s, request id %d) failed: %v", i, c.kind, c.reqID, c.err)
			continue
		}
		rr, ok := c.resp.(message.Request)
		if !ok || rr.GetRequestID() != c.reqID {
			v.Fail("C06.match", "wrong-id", "caller %d (%s, request id %d) got response %T with id %v", i, c.kind, c.reqID, c.resp, c.resp)
			continue
		}
		tag := resultString(c.resp)
		if tag != fmt.Sprintf("id:%d", c.reqID) {
			v.Fail("C06.match", "not-own-response:"+tag[:min(len(tag), 9)], "caller %d (%s, request id %d) got response tagged %q", i, c.kind, c.reqID, tag)
			continue
		}
		outcome = append(outcome, "ok")
	}
	sort.Strings(outcome)
	v.Outcome = fmt.Sprintf("%v order=%v spurious=%d", outcome, w.answered, w.spurious)
	return res, v
}

func siteFunc(s string) string {
	if i := strings.Index(s, "@"); i > 0 {
		return s[:i]
	}
	return s
}

func resultString(m message.Message) string {
	switch r := m.(type) {
	case *message.UpstreamOpenResponse:
		return r.ResultString
	case *message.DownstreamOpenResponse:
		return r.ResultString
	case *message.UpstreamMetadataAck:
		return r.ResultString
	case *message.UpstreamCloseResponse:
		return r.ResultString
	case *message.DownstreamCloseResponse:
		return r.ResultString
	case *message.UpstreamResumeResponse:
		return r.ResultString
	}
	return "?"
}

func main() {
	vlib.Main(&vlib.Harness{
		Property:  "C06",
		Scenarios: scenarios,
		Config:    config,
		Run:       run,
		Rule:      "mode S on wire.ClientConn over an in-memory link: K caller threads x request kinds (open/resume/close/metadata) + the keep-alive ping; the scripted peer answers in every permutation (choice at every step), optionally preceded by a response with an unknown id or a duplicate of an already answered id; one caller may be cancelled at 4 protocol positions; preemptions <= P at scheduling points of sendRequest/readRequestLoop/readReliableLoop/Send*/IDGenerator with atomics visible",
		Assumptions: []string{
			"plain (non-atomic, unlocked) memory accesses are not scheduling points: a racy rewrite of the id generator is the subject of C09",
			"scheduler semantics of DESIGN.md section 2.2",
		},
	})
}
