// c02: reliable upstream across disconnect / resume (mode E with fault injection).
// The broker's fault hook offers "cut the link here" at every boundary of the messages that
// matter (chunk, ack, resume request/response, connect request/response of a redial, close
// request); with budget F every single position (F=1) / every pair (F=2) is explored,
// together with which acks were sent before the cut, the resume outcome and the redial outcome.
package main

import (
	"context"
	"os"
	"errors"
	"fmt"
	"sort"
	"strings"
	"time"

	iscperrors "github.com/aptpod/iscp-go/errors"
	"github.com/aptpod/iscp-go/internal/vcontext"
	"github.com/aptpod/iscp-go/internal/vh/lib"
	"github.com/aptpod/iscp-go/internal/vh/sim"
	"github.com/aptpod/iscp-go/internal/vsched"
	"github.com/aptpod/iscp-go/iscp"
	"github.com/aptpod/iscp-go/message"
	"github.com/aptpod/iscp-go/transport"
	uuid "github.com/google/uuid"
)

var (
	idA = message.DataID{Name: "a", Type: "t"}
	idB = message.DataID{Name: "b", Type: "t"}
)

type params struct {
	Policy string
	Ops    []string // wA1 wA2 wB1 F Z(=3s pause)
	F      int
	P      int
	Store  string // default | payload
	Narrow bool   // deviations only in the ack-wait path (withAckTimeoutCh, readResultLoop, readAckLoop): affordable with two deviations
	SlowResume bool // the broker answers resume requests after 5 s
	WithholdOne bool // after the recovery the broker never acknowledges the first chunk it receives there (it still acknowledges the others)
	AckTO  bool   // the stream has an ack timeout of 1 s, and the client-to-broker direction of the link may stall at a chunk (pings still answered) until the link fails
	Burst  int    // this many chunks stay unacknowledged; the broker then sends their results as single acks back to back and closes the link right behind them
	Silent bool   // the failure is a broker that goes silent (message dropped, nothing answered any more): the keep-alive detects the outage
}

func (p params) name() string {
	if p.WithholdOne {
		t := ""
		if p.AckTO {
			t = "/acktimeout"
		}
		return fmt.Sprintf("%s/%s/F%d/P%d/%s/one-retransmission-never-acked%s", p.Policy, strings.Join(p.Ops, ","), p.F, p.P, p.Store, t)
	}
	if p.AckTO {
		return fmt.Sprintf("%s/%s/F%d/P%d/%s/acktimeout", p.Policy, strings.Join(p.Ops, ","), p.F, p.P, p.Store)
	}
	if p.Burst > 0 {
		return fmt.Sprintf("%s/ackburst%d-then-eof/P%d", p.Policy, p.Burst, p.P)
	}
	if p.Narrow {
		return fmt.Sprintf("%s/%s/F%d/P%d/%s/ackwait", p.Policy, strings.Join(p.Ops, ","), p.F, p.P, p.Store)
	}
	if p.SlowResume {
		return fmt.Sprintf("%s/%s/F%d/P%d/%s/slowresume", p.Policy, strings.Join(p.Ops, ","), p.F, p.P, p.Store)
	}
	if p.Silent {
		return fmt.Sprintf("%s/%s/F%d/P%d/%s/silent", p.Policy, strings.Join(p.Ops, ","), p.F, p.P, p.Store)
	}
	return fmt.Sprintf("%s/%s/F%d/P%d/%s", p.Policy, strings.Join(p.Ops, ","), p.F, p.P, p.Store)
}

func scenarios(tier string) []vlib.Scenario {
	var out []vlib.Scenario
	add := func(p params) { out = append(out, vlib.Scenario{Name: p.name(), P: p}) }
	hs := []params{
		{Policy: "none", Ops: []string{"wA1", "F", "wB1", "F"}},
		{Policy: "immediate", Ops: []string{"wA1", "wB1"}},
		{Policy: "immediate", Ops: []string{"wA1", "Z", "wB1"}},
		{Policy: "none", Ops: []string{"wA2", "F", "Z", "wA1", "F"}},
		// a write that is still buffered when Close is called on the resumed stream
		{Policy: "none", Ops: []string{"wA1", "F", "Z", "wB1"}},
	}
	for _, h := range hs {
		h.F, h.Store = 1, "default"
		add(h)
	}
	add(params{Policy: "immediate", Ops: []string{"wA1", "wB1"}, F: 0, Store: "default"})
	// every pair of cut positions on the shortest two-chunk histories, and schedule deviations on one of them
	add(params{Policy: "immediate", Ops: []string{"wA1", "wB1"}, F: 2, Store: "default"})
	add(params{Policy: "none", Ops: []string{"wA1", "F", "wB1", "F"}, F: 2, Store: "default"})
	add(params{Policy: "immediate", Ops: []string{"wA1", "wB1"}, F: 1, P: 1, Store: "default"})
	// the run context is cancelled before the ack channels are closed (one stall) and the ack wait then takes either select case
	// the link fails while Close is waiting for acknowledgements; a write issued after the recovery, Close still pending
	add(params{Policy: "none", Ops: []string{"wA1", "F", "Cbg", "Z", "wB1"}, F: 1, Store: "default"})
	// Close while the stream is still resuming (the broker answers the resume request late)
	add(params{Policy: "none", Ops: []string{"wA1", "F", "z1"}, F: 1, Store: "default", SlowResume: true})
	add(params{Policy: "immediate", Ops: []string{"wA1", "wB1", "z1"}, F: 1, Store: "default", SlowResume: true})
	// outages detected by the keep-alive (the broker goes silent) instead of by a read error
	add(params{Policy: "immediate", Ops: []string{"wA1", "wB1"}, F: 1, P: 0, Store: "default", Silent: true})
	add(params{Policy: "immediate", Ops: []string{"wA1", "wB1"}, F: 1, P: 1, Store: "default", Silent: true})
	// an ack timeout expires (the broker lost the chunk, or acknowledges it late) and the link fails afterwards
	add(params{Policy: "immediate", Ops: []string{"wA1", "Z", "wB1", "Z"}, F: 2, Store: "default", AckTO: true})
	add(params{Policy: "none", Ops: []string{"wA1", "F", "Z", "wB1", "F", "Z"}, F: 2, Store: "default", AckTO: true})
	// the broker never acknowledges the first chunk that is retransmitted to it: the others are owed all the same
	add(params{Policy: "immediate", Ops: []string{"wA1", "wB1", "Z"}, F: 1, Store: "default", WithholdOne: true})
	add(params{Policy: "immediate", Ops: []string{"wA1", "wB1", "Z"}, F: 1, Store: "default", WithholdOne: true, AckTO: true})
	// a burst of acknowledgements with the end of the link right behind it: the stream's ack path is still
	// forwarding when the run context ends (the hand-over queues of the stream hold 8)
	burst := func(n, p int) params {
		ops := []string{}
		for i := 0; i < n; i++ {
			ops = append(ops, "wA1")
		}
		return params{Policy: "immediate", Ops: append(ops, "Z", "wB1"), Burst: n, P: p, Store: "default"}
	}
	add(burst(12, 0))
	add(burst(12, 1))
	if tier == "thorough" {
		add(burst(12, 2))
		add(burst(20, 1))
		for i, h := range hs {
			h.F, h.Store = 2, "default"
			if i > 1 {
				add(h)
			}
			h.F, h.P = 1, 1
			if i != 1 {
				add(h)
			}
		}
		add(params{Policy: "immediate", Ops: []string{"wA1", "wB1", "wA2"}, F: 2, Store: "default"})
		add(params{Policy: "immediate", Ops: []string{"wA1", "Z", "wB1", "Z", "wA2"}, F: 2, Store: "default"})
	}
	return out
}

func config(sc vlib.Scenario, tier string) vsched.Config {
	p := sc.P.(params)
	cfg := vsched.Config{Preempt: 1, Switch: 1, SelCase: 1, Stall: 1, Timer: -1, Horizon: 120 * time.Second, MaxSteps: 600000}
	cfg.Budget[vsched.BudP] = p.P
	cfg.Budget[vsched.BudF] = p.F
	cfg.Scope = func(site string) bool {
		if dbg := os.Getenv("C02_SCOPE"); dbg != "" {
			return strings.Contains(site, dbg) // debugging aid
		}
		if p.Burst > 0 {
			return strings.Contains(site, "ackOrDone") || strings.Contains(site, "readAckLoop") || strings.Contains(site, "readAliasLoop") || strings.Contains(site, "readResultLoop")
		}
		if p.Narrow {
			return strings.Contains(site, "withAckTimeoutCh") || strings.Contains(site, "readResultLoop") || strings.Contains(site, "readAckLoop") || strings.Contains(site, "ackOrDone")
		}
		for _, s := range []string{"sendChunkAndWaitAck", "withAckTimeoutCh", "processResult", "readResultLoop", "(*Upstream).run", "(*Upstream).resume", "(*Upstream).flush"} {
			if strings.Contains(site, s) {
				return true
			}
		}
		return false
	}
	return cfg
}

type wrec struct {
	op     string
	points []string
	err    error
	done   bool
}

type world struct {
	conn      *iscp.Conn
	liveAtEnd *sim.BConn
	liveTaken bool
	closeStarted bool
	p        params
	b        *sim.Broker
	writes   []*wrec
	sendHook []iscp.UpstreamChunk
	ackHook  []iscp.UpstreamChunkResult
	closed   []error
	resumed  int
	resumedAtSettle, reconnAtSettle int
	disc     int
	reconn   int
	closeErr error
	closeDone bool
	postWriteErr error
	connErr  error
	phase    string
	n        int
	cuts     int
	drops    int
	withheldSeq uint32
	stalled  int  // 1 + index of the incarnation whose client-to-broker traffic stalled
	stalledUntilClose bool // the stalled link failed only when the application's Close had given up waiting and sent its close request
	dropOpen bool // a chunk vanished on a link that has not failed since
	rxn      map[string]int
}

func (w *world) script() *sim.Script {
	s := &sim.Script{}
	w.rxn = map[string]int{}
	s.Fault = func(c *sim.BConn, dir string, m message.Message) sim.FaultKind {
		if w.p.Silent && c.Silent {
			return sim.FaultDrop // a black hole from the failure on: nothing is processed, nothing answered
		}
		interesting := false
		switch m.(type) {
		case *message.UpstreamChunk, *message.UpstreamResumeRequest, *message.UpstreamCloseRequest:
			interesting = dir == "rx"
		case *message.UpstreamChunkAck, *message.UpstreamResumeResponse:
			interesting = dir == "tx"
		case *message.ConnectRequest:
			interesting = dir == "rx" && c.Idx > 0
		case *message.ConnectResponse:
			interesting = dir == "tx" && c.Idx > 0
		}
		// a link that has stalled client-to-broker traffic (an ordered link: what follows the stalled chunk is stalled too)
		// still answers pings; it delivers nothing more until it fails
		stalledHere := w.stalled == c.Idx+1 && dir == "rx"
		if _, isPing := m.(*message.Ping); isPing {
			stalledHere = false
		}
		if !interesting {
			if stalledHere {
				return sim.FaultDrop
			}
			return sim.NoFault
		}
		key := fmt.Sprintf("%s:%T", dir, m)
		w.rxn[key]++
		nch := 2
		if _, isChunk := m.(*message.UpstreamChunk); isChunk && w.p.AckTO && dir == "rx" && !stalledHere {
			nch = 3
		}
		choice := vsched.ChooseBudget(fmt.Sprintf("cut@%s#%d", strings.Replace(key, "*message.", "", 1), w.rxn[key]), nch, vsched.BudF)
		if choice == 2 {
			w.drops++
			w.dropOpen = true
			w.stalled = c.Idx + 1
			return sim.FaultDrop // stalled from here on: the link stays up, nothing is processed or acknowledged
		}
		if choice == 1 {
			w.cuts++
			w.dropOpen = false // what was lost was in flight when this link died
			if _, isClose := m.(*message.UpstreamCloseRequest); isClose && stalledHere {
				w.stalledUntilClose = true
			}
			for _, u := range w.b.Ups {
				u.Held = nil // acks waiting on the dead connection are lost with it
			}
			if w.p.Silent {
				c.Silent = true
				return sim.FaultDrop
			}
			return sim.FaultCut
		}
		if stalledHere {
			return sim.FaultDrop
		}
		return sim.NoFault
	}
	bgClose := false
	for _, o := range w.p.Ops {
		bgClose = bgClose || o == "Cbg"
	}
	if bgClose {
		s.AckDelay = 5 * time.Second
	}
	if w.p.Burst > 0 {
		s.AckChunk = func(c *sim.BConn, u *sim.UpStream, ch *sim.ChunkRec) sim.AckMode {
			if c.Idx == 0 {
				return sim.AckHold
			}
			return sim.AckNow
		}
		s.ReleaseHeld = func(b *sim.Broker, c *sim.BConn, u *sim.UpStream) {
			if c.Idx > 0 {
				b.SendAck(c, u, u.Held, nil)
				u.Held = nil
				return
			}
			if len(u.Held) < w.p.Burst {
				return
			}
			held := u.Held
			u.Held = nil
			for _, r := range held {
				b.SendAck(c, u, []*message.UpstreamChunkResult{r}, nil)
			}
			w.cuts++
			// everything sent is delivered, then the link breaks; the application notices at once through a request
			// of its own that fails on the broken link (no keep-alive period has to pass)
			vsched.Go("h:break-and-probe", func() {
				vsched.WaitUntil("burst-delivered", func() bool { return c.Link.Delivered() })
				b.Cut(c)
				mctx, mcancel := vcontext.WithTimeout(vcontext.Background(), 20*time.Second)
				defer mcancel()
				w.conn.SendMetadata(mctx, &message.BaseTime{SessionID: "s", Name: "probe"})
			})
		}
		return s
	}
	withheld := false
	s.AckChunk = func(c *sim.BConn, u *sim.UpStream, ch *sim.ChunkRec) sim.AckMode {
		if w.p.WithholdOne && c.Idx > 0 && !withheld {
			withheld = true
			w.withheldSeq = ch.Seq
			return sim.AckNever
		}
		n := 2
		if bgClose && c.Idx > 0 {
			n = 3 // after the recovery the acknowledgement may also take 5 s: the Close that waits for it is still pending
		}
		switch vsched.Choose(fmt.Sprintf("ack-seq%d@%d", ch.Seq, c.Idx), n) {
		case 0:
			return sim.AckNow
		case 2:
			return sim.AckDelay
		}
		return sim.AckHold
	}
	if w.p.SlowResume {
		s.OnMessage = func(b *sim.Broker, c *sim.BConn, m message.Message) bool {
			if _, ok := m.(*message.UpstreamResumeRequest); ok {
				vsched.AfterFunc(5*time.Second, "h:slow-resume", func() {
					vsched.Spawn("h:slow-resume", func() { b.HandleDefault(c, m) })
				})
				return true
			}
			return false
		}
	}
	s.UpResumeResult = func(c *sim.BConn, u *sim.UpStream, attempt int) message.ResultCode {
		if attempt == 0 && !w.p.SlowResume && vsched.Choose("resume-result", 2) == 1 {
			return message.ResultCodeResumeRequestConflict
		}
		return message.ResultCodeSucceeded
	}
	refused := false
	s.AcceptDial = func(n int, cfg transport.DialConfig) (bool, time.Duration) {
		if n >= 1 && !refused && vsched.Choose("redial", 2) == 1 {
			refused = true
			return false, 0
		}
		return true, 0
	}
	return s
}

func (w *world) doOp(ctx context.Context, up *iscp.Upstream, op string) {
	w.n++
	base := time.Duration(w.n*10) * time.Microsecond
	mk := func(id message.DataID, pl ...string) {
		r := &wrec{op: op}
		var dps []*message.DataPoint
		for i, s := range pl {
			e := base + time.Duration(i)*time.Microsecond
			r.points = append(r.points, fmt.Sprintf("%s@%d=%q", id.Name, e, s))
			dps = append(dps, &message.DataPoint{ElapsedTime: e, Payload: []byte(s)})
		}
		w.writes = append(w.writes, r)
		idc := id
		r.err = up.WriteDataPoints(ctx, &idc, dps...)
		r.done = true
	}
	switch op {
	case "wA1":
		mk(idA, "a")
	case "wA2":
		mk(idA, "x", "bb")
	case "wB1":
		mk(idB, "ccccc")
	case "F":
		up.Flush(ctx)
	case "Z":
		vsched.Sleep(3*time.Second, "h:Z")
	case "z1":
		vsched.Sleep(time.Second, "h:z1")
	case "Cbg":
		// Close in a thread of its own: the following operations run while it is pending
		w.closeStarted = true
		vsched.Go("h:closer", func() {
			cctx, cancel := vcontext.WithTimeout(vcontext.Background(), 30*time.Second)
			w.closeErr = up.Close(cctx)
			cancel()
			w.closeDone = true
		})
		vsched.Quiesce()
	}
}

func (w *world) main() {
	w.b = sim.NewBroker(w.script())
	iscp.VerifRegisterDialer("sim", func() transport.Dialer { return w.b.Dialer() })
	iscp.VerifDeterministicIDs()
	copts := []iscp.ConnOption{
		iscp.WithConnPingInterval(time.Second), iscp.WithConnPingTimeout(time.Second),
		iscp.WithConnDisconnectedEventHandler(iscp.DisconnectedEventHandlerFunc(func(*iscp.DisconnectedEvent) { w.disc++ })),
		iscp.WithConnReconnectedEventHandler(iscp.ReconnectedEventHandlerFunc(func(*iscp.ReconnectedEvent) { w.reconn++ })),
	}
	if w.p.Store == "payload" {
		copts = append(copts, iscp.VerifWithSentStorage(iscp.VerifNewInmemSentStorage()))
	}
	conn, err := iscp.Connect("sim:1", "sim", copts...)
	if err != nil {
		w.connErr = err
		return
	}
	w.conn = conn
	ctx := vcontext.Background()
	var pol iscp.UpstreamOption
	if w.p.Policy == "none" {
		pol = iscp.WithUpstreamFlushPolicyNone()
	} else {
		pol = iscp.WithUpstreamFlushPolicyImmediately()
	}
	ackTO := time.Duration(0)
	if w.p.AckTO {
		ackTO = time.Second
	}
	up, err := conn.OpenUpstream(ctx, "sess", pol, iscp.WithUpstreamQoS(message.QoSReliable), iscp.WithUpstreamAckTimeout(ackTO),
		iscp.WithUpstreamSendDataPointsHooker(iscp.SendDataPointsHookerFunc(func(id uuid.UUID, c iscp.UpstreamChunk) { w.sendHook = append(w.sendHook, c) })),
		iscp.WithUpstreamReceiveAckHooker(iscp.ReceiveAckHookerFunc(func(id uuid.UUID, r iscp.UpstreamChunkResult) { w.ackHook = append(w.ackHook, r) })),
		iscp.WithUpstreamClosedEventHandler(iscp.UpstreamClosedEventHandlerFunc(func(ev *iscp.UpstreamClosedEvent) { w.closed = append(w.closed, ev.Err) })),
		iscp.WithUpstreamResumedEventHandler(iscp.UpstreamResumedEventHandlerFunc(func(ev *iscp.UpstreamResumedEvent) { w.resumed++ })),
	)
	if err != nil {
		w.connErr = err
		return
	}
	w.phase = "ops"
	octx, ocancel := vcontext.WithTimeout(ctx, 60*time.Second)
	defer ocancel()
	for _, op := range w.p.Ops {
		w.doOp(octx, up, op)
	}
	w.phase = "settle"
	if !w.p.SlowResume {
		vsched.Sleep(10*time.Second, "h:settle")
	}
	w.resumedAtSettle, w.reconnAtSettle = w.resumed, w.reconn
	w.phase = "close"
	if w.closeStarted {
		vsched.WaitUntil("closer-done", func() bool { return w.closeDone })
	} else {
		cctx, cancel := vcontext.WithTimeout(ctx, 30*time.Second)
		w.closeErr = up.Close(cctx)
		cancel()
		w.closeDone = true
	}
	w.phase = "post"
	pctx, pcancel := vcontext.WithTimeout(ctx, time.Second)
	ida := idA
	w.postWriteErr = up.WriteDataPoints(pctx, &ida, &message.DataPoint{ElapsedTime: 999, Payload: []byte("z")})
	pcancel()
	vsched.Quiesce()
	w.liveAtEnd, w.liveTaken = w.b.Live(), true // the broker's view before the harness closes the connection
	w.phase = "connclose"
	conn.Close(ctx)
	w.b.Stop()
	w.phase = "done"
}

func run(sc vlib.Scenario, cfg vsched.Config) (*vsched.Result, vlib.Verdict) {
	w := &world{p: sc.P.(params)}
	res := vsched.Run(cfg, w.main)
	var v vlib.Verdict
	if res.Outcome == vsched.Panicked {
		v.Fail("C02.panic", res.Panic.Site, "library panic: %s", res.Panic.Value)
		return res, v
	}
	if w.connErr != nil {
		v.Inconclusive = "connect/open failed"
		return res, v
	}
	if w.dropOpen {
		// a chunk that vanishes on a link that stays up is not a transport failure: C02 speaks about what was in flight when the transport died
		v.Inconclusive = "chunk lost on a live link"
		return res, v
	}
	if res.Outcome != vsched.Completed && !w.closeDone {
		// a hang is C08's subject; the data clauses below still apply to what the broker has
		v.Inconclusive = "not-completed:" + res.Outcome.String() + ":" + w.phase
	}
	w.oracle(&v, res)
	return res, v
}

func chunkKey(points []string) string {
	c := append([]string{}, points...)
	sort.Strings(c)
	return strings.Join(c, "|")
}

func (w *world) oracle(v *vlib.Verdict, res *vsched.Result) {
	if len(w.b.Ups) != 1 {
		v.Inconclusive = "no-upstream"
		return
	}
	u := w.b.Ups[0]
	live := w.b.Live()
	if w.liveTaken && w.liveAtEnd != nil {
		live = w.liveAtEnd // (not the broker's view after the harness closed the connection)
	}
	reportedClosed := false
	for _, e := range w.closed {
		if e != nil {
			reportedClosed = true
		}
	}
	dev := res.Used[vsched.BudP] > 0
	// the connection came back (10 s before the settle point at the latest) and the stream was not reported closed:
	// it must have been resumed - writes are not even accepted by a stream that stays behind
	if w.p.Burst > 0 && w.reconnAtSettle > 0 && w.resumedAtSettle == 0 && !reportedClosed {
		where := ""
		for _, t := range res.Alive {
			if t.Lib && strings.Contains(t.Site, "(*Upstream)") {
				where += " " + t.Site + "/" + t.Op
			}
		}
		v.Fail("C02.resume", fmt.Sprintf("never-resumed/dev=%v", dev), "the connection was re-established (%d reconnects) but the upstream was never resumed and never reported closed; stream threads still parked:%s", w.reconnAtSettle, where)
	}
	// ground truth: what the send hook saw
	truth := map[uint32]string{}
	for _, h := range w.sendHook {
		var ps []string
		for _, g := range h.DataPointGroups {
			for _, p := range g.DataPoints {
				ps = append(ps, fmt.Sprintf("%s@%d=%q", g.DataID.Name, p.ElapsedTime, string(p.Payload)))
			}
		}
		k := chunkKey(ps)
		if old, ok := truth[h.SequenceNumber]; ok && old != k {
			v.Fail("C02.seq-reuse", "hook", "sequence number %d announced with two contents: %s / %s", h.SequenceNumber, old, k)
		}
		truth[h.SequenceNumber] = k
	}
	// what the broker received
	got := map[uint32]map[string][]int{}
	for _, c := range u.Chunks {
		var ps []string
		for _, p := range c.Points {
			ps = append(ps, fmt.Sprintf("%s@%d=%q", p.ID.Name, p.Elapsed, p.Payload))
		}
		if got[c.Seq] == nil {
			got[c.Seq] = map[string][]int{}
		}
		k := chunkKey(ps)
		got[c.Seq][k] = append(got[c.Seq][k], c.Conn)
	}
	for seq, m := range got {
		if len(m) > 1 {
			var ks []string
			retrans := false
			for k, conns := range m {
				ks = append(ks, fmt.Sprintf("%s@conn%v", k, conns))
				if k != truth[seq] {
					for _, cn := range conns {
						if cn > 0 {
							retrans = true
						}
					}
				}
			}
			sort.Strings(ks)
			v.Fail("C02.seq-content", fmt.Sprintf("differs/retransmission=%v", retrans), "sequence number %d reached the broker with different contents: %v (accepted: %s)", seq, ks, truth[seq])
		}
	}
	if reportedClosed {
		v.Outcome = "stream-reported-closed"
		if w.postWriteErr == nil || !errors.Is(w.postWriteErr, iscperrors.ErrStreamClosed) {
			if w.closeDone {
				v.Fail("C02.closed-report", "write-after-closed-event", "closed event carried an error but a later write returned %v instead of the stream-closed error", w.postWriteErr)
			}
		}
		return
	}
	if live == nil {
		v.Inconclusive = "no-live-connection-at-end"
		return
	}
	// every accepted chunk received at least once with its original content, under the original stream
	var missing, altered []uint32
	for seq, k := range truth {
		m, ok := got[seq]
		if !ok {
			missing = append(missing, seq)
			continue
		}
		if _, ok := m[k]; !ok {
			altered = append(altered, seq)
		}
	}
	sort.Slice(missing, func(i, j int) bool { return missing[i] < missing[j] })
	sort.Slice(altered, func(i, j int) bool { return altered[i] < altered[j] })
	state := fmt.Sprintf("close=%v/resumes=%d/cuts=%d", errKind(w.closeErr, w.closeDone), len(u.Resumes), w.cuts)
	if len(missing) > 0 && w.stalledUntilClose && w.closeErr != nil {
		// the application closed the stream while its chunks were stalled, Close gave up waiting (close timeout) and failed
		// when the link died under its close request: the application was told, and a closing stream is not resumed
		v.Outcome = "close-failed-on-stalled-link"
	} else if len(missing) > 0 {
		v.Fail("C02.lost", fmt.Sprintf("never-received/closeerr=%v/resumed=%v/dev=%v", errKind(w.closeErr, w.closeDone), len(u.Resumes) > 0, dev), "chunks %v (accepted, announced to the send hook) never reached the broker although the connection is back (%s; closed events %v)", missing, state, w.closed)
	}
	if len(altered) > 0 {
		payloadOnly := true
		for _, seq := range altered {
			for k := range got[seq] {
				if stripPayload(k) != stripPayload(truth[seq]) {
					payloadOnly = false
				}
			}
		}
		v.Fail("C02.altered", fmt.Sprintf("payload-only=%v", payloadOnly), "chunks %v reached the broker only with altered content, e.g. seq %d: got %v, accepted %s", altered, altered[0], keysOf(got[altered[0]]), truth[altered[0]])
	}
	// written points all cut into chunks? (accepted writes vs hook): every accepted point appears in some announced chunk
	inTruth := map[string]bool{}
	for _, k := range truth {
		for _, p := range strings.Split(k, "|") {
			inTruth[p] = true
		}
	}
	total := 0
	for _, wr := range w.writes {
		if wr.done && wr.err == nil {
			total += len(wr.points)
			for _, p := range wr.points {
				if !inTruth[p] && w.closeDone && w.closeErr == nil {
					v.Fail("C02.lost", "accepted-point-never-cut", "point %s was accepted but never cut into a chunk although Close succeeded", p)
				}
			}
		}
	}
	// every chunk acknowledged to the client in the end (un-acked ones were retransmitted)
	if w.closeDone && w.closeErr == nil {
		hooked := map[uint32]bool{}
		for _, r := range w.ackHook {
			hooked[r.SequenceNumber] = true
		}
		var unacked []uint32
		for seq := range truth {
			if !hooked[seq] {
				unacked = append(unacked, seq)
			}
		}
		if w.p.WithholdOne {
			var rest []uint32
			for _, q := range unacked {
				if q != w.withheldSeq {
					rest = append(rest, q)
				}
			}
			unacked = rest
		}
		if len(unacked) > 0 && !dev {
			sort.Slice(unacked, func(i, j int) bool { return unacked[i] < unacked[j] })
			v.Fail("C02.unacked", "close-ok-without-ack", "Close succeeded but the client never received an acknowledgement for chunks %v (%s)", unacked, state)
		}
		if u.Close == nil {
			v.Fail("C02.close", "no-close-request", "Close returned nil but the broker has no close request (%s)", state)
		} else {
			if int(u.Close.FinalSequenceNumber) != len(truth) {
				v.Fail("C02.close", "final-seq", "close request final sequence number %d, chunks cut %d", u.Close.FinalSequenceNumber, len(truth))
			}
			if int(u.Close.TotalDataPoints) != total {
				v.Fail("C02.close", "total", "close request total %d, points accepted %d", u.Close.TotalDataPoints, total)
			}
		}
		// resumed under the original id: the broker only attributes chunks to the stream named in the resume request
		for _, c := range u.Chunks {
			if c.BadAlias {
				v.Fail("C02.alias", "unknown-alias", "chunk seq %d uses a data-id alias the broker never handed out", c.Seq)
			}
		}
	}
	if len(w.b.Strays) > 0 {
		v.Outcome += fmt.Sprintf("strays=%d ", len(w.b.Strays))
	}
	v.Outcome += fmt.Sprintf("%s retrans=%d", state, len(u.Chunks)-len(got))
}

func errKind(e error, done bool) string {
	if !done {
		return "hung"
	}
	if e == nil {
		return "nil"
	}
	if errors.Is(e, context.DeadlineExceeded) {
		return "deadline"
	}
	if errors.Is(e, iscperrors.ErrStreamClosed) {
		return "stream-closed"
	}
	if errors.Is(e, iscperrors.ErrConnectionClosed) {
		return "conn-closed"
	}
	return "other"
}

func stripPayload(k string) string {
	var out []string
	for _, p := range strings.Split(k, "|") {
		if i := strings.Index(p, "="); i >= 0 {
			p = p[:i]
		}
		out = append(out, p)
	}
	return strings.Join(out, "|")
}

func keysOf(m map[string][]int) []string {
	var out []string
	for k := range m {
		out = append(out, k)
	}
	sort.Strings(out)
	return out
}

func main() {
	vlib.Main(&vlib.Harness{
		Property:  "C02",
		Scenarios: scenarios,
		Config:    config,
		Run:       run,
		Rule:      "mode E with fault budget F: the broker offers 'cut the link here' at every rx/tx boundary of UpstreamChunk, UpstreamChunkAck, UpstreamResumeRequest/Response, Connect request/response of redials and UpstreamCloseRequest; every position (F=1) / pair (F=2) x ack now/hold per chunk and incarnation x resume success / conflict-then-success x redial accepted / refused once; reliable QoS with the default sent storage; keep-alive 1s/1s on the virtual clock",
		Assumptions: []string{
			"the send hook is the ground truth for (sequence number -> content) of accepted chunks",
			"the repository's protobuf codec is the trusted base for the broker's view of the wire",
			"scheduler semantics of DESIGN.md section 2.2; a cut drops undelivered messages in both directions",
		},
	})
}
