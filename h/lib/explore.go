package vlib

import (
	"encoding/json"
	"flag"
	"fmt"
	"hash/fnv"
	"os"
	"path/filepath"
	"sort"
	"strconv"
	"sync"
	"time"
)

// Explore is the helper for mode-I checks (bounded-exhaustive enumeration of inputs or
// operation sequences, no scheduler). It is safe for concurrent use.
//
//	e := vlib.StartExplore("C17")
//	if e.Replay != nil { ... re-run the single case in e.Replay ...; e.FinishReplay(violated) }
//	for every case { e.Case(family, key); if bad { e.Violation(sig, detail, replayCase) } }
//	e.Finish(rule, exhaustive, extra, assumptions)
type Explore struct {
	Property string
	Tier     string // "quick" | "thorough"
	Seed     int
	Verif    string
	// Replay is the "case" field of the replay file when invoked with -replay (nil otherwise).
	Replay json.RawMessage
	// ReplaySig is the signature recorded in the replay file.
	ReplaySig string

	mu         sync.Mutex
	t0         time.Time
	evals      int64
	distinct   map[uint64]struct{}
	families   map[string]int64
	samples    []any
	viol       map[string]*exploreViolation
	violCount  map[string]int
	replayPath string
}

type exploreViolation struct {
	Sig    string `json:"sig"`
	Detail string `json:"detail"`
	Case   any    `json:"case"`
}

// StartExplore parses the standard flags (-id -tier -verif -replay).
func StartExplore(defaultProperty string) *Explore {
	if !flag.Parsed() {
		flag.Parse()
	}
	e := &Explore{Property: defaultProperty, Tier: *flagTier, Verif: *flagVerif, t0: time.Now(),
		distinct: map[uint64]struct{}{}, families: map[string]int64{}, viol: map[string]*exploreViolation{}, violCount: map[string]int{}}
	if *flagID != "" {
		e.Property = *flagID
	}
	e.Seed, _ = strconv.Atoi(os.Getenv("VERIF_SEED"))
	if *flagReplay != "" {
		b, err := os.ReadFile(*flagReplay)
		if err != nil {
			fmt.Fprintln(os.Stderr, err)
			os.Exit(2)
		}
		var r struct {
			Case json.RawMessage `json:"case"`
			Sig  string          `json:"sig"`
			Tier string          `json:"tier"`
		}
		if err := json.Unmarshal(b, &r); err != nil {
			fmt.Fprintln(os.Stderr, err)
			os.Exit(2)
		}
		e.Replay, e.ReplaySig, e.replayPath = r.Case, r.Sig, *flagReplay
		if r.Tier != "" {
			e.Tier = r.Tier
		}
	}
	return e
}

// Thorough reports whether the thorough tier was requested.
func (e *Explore) Thorough() bool { return e.Tier == "thorough" }

// Case counts one evaluated case. family groups cases for the evidence; key identifies the
// case (distinct keys are counted; pass a canonical rendering of the input).
func (e *Explore) Case(family, key string) {
	h := fnv.New64a()
	h.Write([]byte(family))
	h.Write([]byte{0})
	h.Write([]byte(key))
	e.mu.Lock()
	e.evals++
	e.families[family]++
	if len(e.distinct) < 50_000_000 {
		e.distinct[h.Sum64()] = struct{}{}
	}
	e.mu.Unlock()
}

// CaseN counts n evaluated cases of a family whose distinctness is established by construction
// (an enumeration without repetition); they are counted as n distinct cases.
func (e *Explore) CaseN(family string, n int64) {
	e.mu.Lock()
	e.evals += n
	e.families[family] += n
	e.families["#bulk:"+family] += n
	e.mu.Unlock()
}

// Sample stores a few written-out cases for the evidence (at most 8 are kept).
func (e *Explore) Sample(v any) {
	e.mu.Lock()
	if len(e.samples) < 8 {
		e.samples = append(e.samples, v)
	}
	e.mu.Unlock()
}

// Violation records a violated clause. sig is the structural signature ("clause:where"),
// stable for the same defect and different for a different one; replayCase must allow the
// harness to re-run exactly this case (it is stored in the replay file under "case").
func (e *Explore) Violation(sig, detail string, replayCase any) {
	e.mu.Lock()
	e.violCount[sig]++
	if _, ok := e.viol[sig]; !ok {
		e.viol[sig] = &exploreViolation{Sig: sig, Detail: detail, Case: replayCase}
	}
	e.mu.Unlock()
}

// FinishReplay ends a -replay invocation.
func (e *Explore) FinishReplay(violated bool, detail string) {
	if violated {
		fmt.Printf("violated: %s\n  %s\n", e.ReplaySig, detail)
		fmt.Printf("VIOLATION property=%s replay=%s\n", e.Property, e.replayPath)
		os.Exit(1)
	}
	fmt.Println("replay: recorded violation did not occur on this tree")
	os.Exit(0)
}

// Finish writes the evidence, prints KNOWN-FINDING / VIOLATION lines and exits (0 or 1).
func (e *Explore) Finish(rule string, exhaustive bool, extra map[string]any, assumptions []string) {
	known := LoadKnown(e.Verif, e.Property)
	sigs := make([]string, 0, len(e.viol))
	for s := range e.viol {
		sigs = append(sigs, s)
	}
	sort.Strings(sigs)
	exit, unknown := 0, 0
	if old, _ := filepath.Glob(filepath.Join(e.Verif, "replays", e.Property, e.Tier+"-*.json")); len(old) > 0 {
		for _, f := range old {
			os.Remove(f)
		}
	}
	for i, s := range sigs {
		v := e.viol[s]
		if k, ok := known[s]; ok && k.Status == "known" {
			fmt.Printf("KNOWN-FINDING: property=%s %s (%s; %d cases)\n", e.Property, k.What, s, e.violCount[s])
			continue
		}
		unknown++
		path := filepath.Join(e.Verif, "replays", e.Property, fmt.Sprintf("%s-%d.json", e.Tier, i))
		os.MkdirAll(filepath.Dir(path), 0o755)
		b, _ := json.MarshalIndent(map[string]any{"property": e.Property, "tier": e.Tier, "sig": v.Sig, "detail": v.Detail, "case": v.Case, "cases_with_this_signature": e.violCount[s]}, "", " ")
		os.WriteFile(path, b, 0o644)
		fmt.Printf("VIOLATION property=%s replay=%s\n  sig=%s\n  %s\n", e.Property, path, v.Sig, v.Detail)
		exit = 1
	}
	var bulk int64
	fam := map[string]int64{}
	for k, n := range e.families {
		if len(k) > 6 && k[:6] == "#bulk:" {
			bulk += n
			continue
		}
		if _, isBulk := e.families["#bulk:"+k]; isBulk {
			fam[k] = n
			continue
		}
		fam[k] = n
	}
	distinct := int64(len(e.distinct)) + bulk
	cov := map[string]any{
		"evaluations":          e.evals,
		"distinct_nontrivial":  distinct,
		"rule":                 rule,
		"samples":              e.samples,
		"exhaustive":           exhaustive,
		"families":             fam,
		"violation_signatures": e.violCount,
	}
	if len(e.samples) == 0 {
		cov["samples"] = []any{"(no sample recorded)"}
	}
	for k, v := range extra {
		cov[k] = v
	}
	WriteEvidence(e.Verif, e.Property, e.Tier, e.Seed, "exploration", cov, assumptions, time.Since(e.t0).Seconds(), unknown)
	fmt.Fprintf(os.Stderr, "[%s %s] done in %.1fs: evaluations=%d distinct=%d families=%d violations(unlisted)=%d exhaustive=%v\n", e.Property, e.Tier, time.Since(e.t0).Seconds(), e.evals, distinct, len(fam), unknown, exhaustive)
	os.Exit(exit)
}
