// Package vlib is the harness library: stateless DFS explorer over recorded choice
// prefixes (sharded over worker processes), known-findings handling, replay files and
// evidence output.
package vlib

import (
	"bufio"
	"encoding/json"
	"flag"
	"fmt"
	"io"
	"os"
	"os/exec"
	"path/filepath"
	"runtime"
	"runtime/pprof"
	"sort"
	"strconv"
	"strings"
	"syscall"
	"time"

	"github.com/aptpod/iscp-go/internal/vsched"
)

// Violation of one oracle clause in one execution.
type Violation struct {
	Clause string `json:"clause"`
	Sig    string `json:"sig"` // structural signature (clause + where), stable across schedules
	Detail string `json:"detail"`
}

// Verdict of one execution.
type Verdict struct {
	Violations   []Violation
	Inconclusive string // precondition of the property not met in this execution
	Outcome      string // label used to count distinct observed outcomes
}

func (v *Verdict) Fail(clause, sig, format string, a ...any) {
	v.Violations = append(v.Violations, Violation{Clause: clause, Sig: clause + ":" + sig, Detail: fmt.Sprintf(format, a...)})
}

// Scenario is one root of the exploration.
type Scenario struct {
	Name string
	P    any // harness specific parameters
}

// Harness describes a scheduler-based check.
type Harness struct {
	Property    string
	Level       string // evidence level, default model_checking
	Scenarios   func(tier string) []Scenario
	Config      func(sc Scenario, tier string) vsched.Config
	Run         func(sc Scenario, cfg vsched.Config) (*vsched.Result, Verdict)
	Rule        string
	Assumptions []string
	// MaxExecs caps the number of executions per tier (0 = 2e6 quick / 5e7 thorough).
	MaxExecs func(tier string) int
	// Budget of wall seconds per tier for exploration (internal deadline; exit 0, exhaustive:false).
	Deadline func(tier string) time.Duration
	// Extra is merged into coverage.
	Extra func() map[string]any
	// Static is an optional non-scheduler part of the check (e.g. an explicit-state search over a model
	// extracted from the source); it runs once in the coordinator, its violations are classified like the
	// others and its coverage keys are merged into the evidence.
	Static func() ([]Violation, map[string]any)
}

type item struct {
	Sc    int     `json:"sc"`
	Stack [][]int `json:"stack"`
}

type foundViolation struct {
	Violation
	Scenario string   `json:"scenario"`
	Sc       int      `json:"sc"`
	Choices  []int    `json:"choices"`
	Labels   []string `json:"labels,omitempty"`
	Trace    []string `json:"trace,omitempty"`
	Repro    int      `json:"repro"`
}

type sample struct {
	Scenario string   `json:"scenario"`
	Choices  []string `json:"choices"`
	Outcome  string   `json:"outcome"`
	Steps    int      `json:"steps"`
}

type reply struct {
	Execs        int              `json:"execs"`
	Steps        int64            `json:"steps"`
	Nodes        int64            `json:"nodes"`
	Outcomes     map[string]int   `json:"outcomes"`
	Inconclusive map[string]int   `json:"inconclusive"`
	Violations   []foundViolation `json:"violations"`
	Rest         [][]int          `json:"rest"`
	Samples      []sample         `json:"samples"`
	EngineErr    string           `json:"engine_err,omitempty"`
	MaxUsed      [4]int           `json:"max_used"`
	MaxChoices   int              `json:"max_choices"`
}

var (
	flagID     = flag.String("id", "", "property id")
	flagTier   = flag.String("tier", "quick", "tier")
	flagVerif  = flag.String("verif", "/verif", "verif dir")
	flagReplay = flag.String("replay", "", "replay file")
	flagWorker = flag.Bool("worker", false, "worker mode")
	flagBuildS = flag.String("build-s", "0", "build seconds (informational)")
	flagOnly   = flag.String("only", "", "only scenarios whose name contains this")
	flagW      = flag.Int("workers", 0, "worker processes")
	flagPrefix = flag.String("prefix", "", "debug: run the single scenario selected by -only with this comma separated choice prefix and print the trace")
	flagList   = flag.Bool("list", false, "list scenarios")
	flagEvName = flag.String("evname", "", "evidence file base name (default: the property id); used by multi-stage checks")
)

func choicesOf(r *vsched.Result) []int {
	out := make([]int, len(r.Choices))
	for i, c := range r.Choices {
		out[i] = c.Chosen
	}
	return out
}

// Main runs the harness according to the command line.
func Main(h *Harness) {
	flag.Parse()
	if h.Level == "" {
		h.Level = "model_checking"
	}
	if *flagID != "" {
		h.Property = *flagID
	}
	switch {
	case *flagList:
		for _, s := range scenarios(h) {
			fmt.Println(s.Name)
		}
	case *flagPrefix != "":
		debugMain(h)
	case *flagWorker:
		workerMain(h)
	case *flagReplay != "":
		replayMain(h)
	default:
		coordinatorMain(h)
	}
}

func scenarios(h *Harness) []Scenario {
	scs := h.Scenarios(*flagTier)
	if *flagOnly != "" {
		var out []Scenario
		for _, s := range scs {
			if strings.Contains(s.Name, *flagOnly) {
				out = append(out, s)
			}
		}
		return out
	}
	return scs
}

// ---------- worker ----------

func workerMain(h *Harness) {
	if pf := os.Getenv("VERIF_CPUPROF"); pf != "" {
		f, _ := os.Create(pf)
		pprof.StartCPUProfile(f)
		defer pprof.StopCPUProfile()
	}
	var lim syscall.Rlimit
	lim.Cur, lim.Max = 12<<30, 12<<30
	syscall.Setrlimit(syscall.RLIMIT_AS, &lim)
	scs := scenarios(h)
	in := bufio.NewReaderSize(os.Stdin, 1<<20)
	out := bufio.NewWriter(os.Stdout)
	seenSig := map[string]int{}
	selfChecked := false
	for {
		line, err := in.ReadBytes('\n')
		if err != nil {
			return
		}
		var req struct {
			item
			Quantum int `json:"quantum"`
			Sample  int `json:"sample"`
		}
		if err := json.Unmarshal(line, &req); err != nil {
			fmt.Fprintf(os.Stderr, "worker: bad request: %v\n", err)
			os.Exit(2)
		}
		sc := scs[req.Sc]
		base := h.Config(sc, *flagTier)
		rep := reply{Outcomes: map[string]int{}, Inconclusive: map[string]int{}}
		stack := req.Stack
		if !selfChecked && len(stack) > 0 {
			// determinism self-check: the same prefix must yield the same execution (history hash, steps, choices)
			selfChecked = true
			c1 := base
			c1.Prefix = stack[len(stack)-1]
			r1, _ := h.Run(sc, c1)
			r2, _ := h.Run(sc, c1)
			if r1.Hash != r2.Hash || r1.Steps != r2.Steps || len(r1.Choices) != len(r2.Choices) {
				rep.EngineErr = fmt.Sprintf("uncontrolled nondeterminism: scenario %s prefix %v ran twice with different histories (hash %x/%x, steps %d/%d, choices %d/%d)", sc.Name, c1.Prefix, r1.Hash, r2.Hash, r1.Steps, r2.Steps, len(r1.Choices), len(r2.Choices))
				b, _ := json.Marshal(rep)
				out.Write(b)
				out.WriteByte('\n')
				out.Flush()
				return
			}
		}
		for len(stack) > 0 && rep.Execs < req.Quantum {
			prefix := stack[len(stack)-1]
			stack = stack[:len(stack)-1]
			cfg := base
			cfg.Prefix = prefix
			res, v := h.Run(sc, cfg)
			rep.Execs++
			rep.Steps += int64(res.Steps)
			if res.Outcome == vsched.Diverged {
				rep.EngineErr = fmt.Sprintf("scenario %s prefix %v: replay diverged: %s", sc.Name, prefix, res.Diverge)
				break
			}
			if len(res.Choices) < len(prefix) {
				rep.EngineErr = fmt.Sprintf("scenario %s prefix %v: execution ended after %d of %d replayed choices (outcome %v)", sc.Name, prefix, len(res.Choices), len(prefix), res.Outcome)
				break
			}
			for i := 0; i < 4; i++ {
				if res.Used[i] > rep.MaxUsed[i] {
					rep.MaxUsed[i] = res.Used[i]
				}
			}
			if len(res.Choices) > rep.MaxChoices {
				rep.MaxChoices = len(res.Choices)
			}
			rep.Nodes += int64(len(res.Choices)-len(prefix)) + 1
			if v.Inconclusive != "" {
				rep.Inconclusive[v.Inconclusive]++
			}
			if v.Outcome != "" {
				rep.Outcomes[v.Outcome]++
			}
			ch := choicesOf(res)
			for _, viol := range v.Violations {
				seenSig[viol.Sig]++
				if seenSig[viol.Sig] > 1 {
					rep.Violations = append(rep.Violations, foundViolation{Violation: viol, Scenario: sc.Name, Sc: req.Sc, Repro: -1})
					continue
				}
				fv := foundViolation{Violation: viol, Scenario: sc.Name, Sc: req.Sc, Choices: ch}
				// reproduce 5x with labels and trace
				for k := 0; k < 5; k++ {
					c2 := base
					c2.Prefix = ch
					c2.Labels = true
					c2.Trace = 300
					r2, v2 := h.Run(sc, c2)
					ok := false
					for _, x := range v2.Violations {
						if x.Sig == viol.Sig {
							ok = true
						}
					}
					if ok {
						fv.Repro++
					}
					if k == 0 {
						for _, c := range r2.Choices {
							fv.Labels = append(fv.Labels, fmt.Sprintf("%c:%s=%d/%d", c.Kind, c.Label, c.Chosen, c.N))
						}
						fv.Trace = r2.Trace
						if r2.Panic != nil {
							fv.Trace = append(fv.Trace, "PANIC: "+r2.Panic.Value, r2.Panic.Stack)
						}
					}
				}
				rep.Violations = append(rep.Violations, fv)
			}
			if req.Sample > 0 && rep.Execs%req.Sample == 1 && len(rep.Samples) < 3 {
				c2 := base
				c2.Prefix = ch
				c2.Labels = true
				r2, v2 := h.Run(sc, c2)
				s := sample{Scenario: sc.Name, Outcome: v2.Outcome, Steps: r2.Steps}
				for _, c := range r2.Choices {
					s.Choices = append(s.Choices, fmt.Sprintf("%c:%s=%d/%d", c.Kind, c.Label, c.Chosen, c.N))
				}
				rep.Samples = append(rep.Samples, s)
			}
			// children, pushed in reverse so that lower alternatives are explored first
			for i := len(res.Choices) - 1; i >= len(prefix); i-- {
				for alt := res.Choices[i].N - 1; alt >= 1; alt-- {
					p := make([]int, i+1)
					copy(p, ch[:i])
					p[i] = alt
					stack = append(stack, p)
				}
			}
		}
		rep.Rest = stack
		b, _ := json.Marshal(rep)
		out.Write(b)
		out.WriteByte('\n')
		out.Flush()
		if rep.EngineErr != "" {
			return
		}
	}
}

// ---------- coordinator ----------

type wproc struct {
	cmd  *exec.Cmd
	wc   io.Closer
	in   *bufio.Writer
	out  *bufio.Reader
	busy bool
	n    int
}

func startWorker() *wproc {
	args := []string{"-worker", "-id", *flagID, "-tier", *flagTier, "-verif", *flagVerif}
	if *flagOnly != "" {
		args = append(args, "-only", *flagOnly)
	}
	cmd := exec.Command(os.Args[0], args...)
	cmd.Env = append(os.Environ(), "GOMAXPROCS=1")
	cmd.Stderr = os.Stderr
	stdin, _ := cmd.StdinPipe()
	stdout, _ := cmd.StdoutPipe()
	if err := cmd.Start(); err != nil {
		fmt.Fprintf(os.Stderr, "ENGINE-ERROR: cannot start worker: %v\n", err)
		os.Exit(2)
	}
	return &wproc{cmd: cmd, wc: stdin, in: bufio.NewWriter(stdin), out: bufio.NewReaderSize(stdout, 1<<20)}
}

type result struct {
	w   *wproc
	rep reply
	it  item
	err error
}

func coordinatorMain(h *Harness) {
	t0 := time.Now()
	tier := *flagTier
	seed, _ := strconv.Atoi(os.Getenv("VERIF_SEED"))
	scs := scenarios(h)
	if len(scs) == 0 {
		fmt.Fprintln(os.Stderr, "ENGINE-ERROR: no scenarios")
		os.Exit(2)
	}
	maxExecs := 2_000_000
	if tier == "thorough" {
		maxExecs = 50_000_000
	}
	if h.MaxExecs != nil {
		if m := h.MaxExecs(tier); m > 0 {
			maxExecs = m
		}
	}
	deadline := 4 * time.Minute
	if tier == "thorough" {
		deadline = 25 * time.Minute
	}
	if h.Deadline != nil {
		if d := h.Deadline(tier); d > 0 {
			deadline = d
		}
	}
	nw := *flagW
	if nw == 0 {
		nw = runtime.NumCPU()
		if nw > 16 {
			nw = 16
		}
	}
	if nw > len(scs)*4 {
		nw = len(scs) * 4
	}
	// work stack
	var work []item
	for i := len(scs) - 1; i >= 0; i-- {
		work = append(work, item{Sc: i, Stack: [][]int{{}}})
	}
	total := reply{Outcomes: map[string]int{}, Inconclusive: map[string]int{}}
	var viols []foundViolation
	sigCount := map[string]int{}
	var staticCov map[string]any
	if h.Static != nil && *flagOnly == "" {
		sv, cov := h.Static()
		staticCov = cov
		for _, v := range sv {
			sigCount[v.Sig]++
			viols = append(viols, foundViolation{Violation: v, Scenario: "static", Sc: -1, Repro: 5})
		}
	}
	results := make(chan result, nw)
	var workers []*wproc
	idle := []*wproc{}
	for i := 0; i < nw; i++ {
		w := startWorker()
		workers = append(workers, w)
		idle = append(idle, w)
	}
	inflight := 0
	capped := ""
	sampleEvery := 997 + seed%200
	send := func(w *wproc, it item) {
		q := 400
		if len(work) > 4*nw {
			q = 4000
		}
		b, _ := json.Marshal(map[string]any{"sc": it.Sc, "stack": it.Stack, "quantum": q, "sample": sampleEvery})
		w.in.Write(b)
		w.in.WriteByte('\n')
		if err := w.in.Flush(); err != nil {
			fmt.Fprintf(os.Stderr, "ENGINE-ERROR: worker write: %v\n", err)
			os.Exit(2)
		}
		inflight++
		go func() {
			line, err := w.out.ReadBytes('\n')
			var r result
			r.w, r.it, r.err = w, it, err
			if err == nil {
				r.err = json.Unmarshal(line, &r.rep)
			}
			results <- r
		}()
	}
	lastProgress := time.Now()
	for {
		for len(idle) > 0 && len(work) > 0 && capped == "" {
			w := idle[len(idle)-1]
			idle = idle[:len(idle)-1]
			it := work[len(work)-1]
			work = work[:len(work)-1]
			// split big stacks so that other workers get something to do
			if len(it.Stack) > 8 && len(work) < nw {
				half := len(it.Stack) / 2
				work = append(work, item{Sc: it.Sc, Stack: it.Stack[:half]})
				it.Stack = it.Stack[half:]
			}
			send(w, it)
		}
		if inflight == 0 {
			break
		}
		r := <-results
		inflight--
		if r.err != nil {
			r.w.cmd.Wait()
			fmt.Fprintf(os.Stderr, "ENGINE-ERROR: worker died while exploring scenario %s (stack top %v): %v\n", scs[r.it.Sc].Name, top(r.it.Stack), r.err)
			os.Exit(2)
		}
		if r.rep.EngineErr != "" {
			fmt.Fprintf(os.Stderr, "ENGINE-ERROR: %s\n", r.rep.EngineErr)
			os.Exit(2)
		}
		total.Execs += r.rep.Execs
		total.Steps += r.rep.Steps
		total.Nodes += r.rep.Nodes
		for k, v := range r.rep.Outcomes {
			total.Outcomes[k] += v
		}
		for k, v := range r.rep.Inconclusive {
			total.Inconclusive[k] += v
		}
		for i := 0; i < 4; i++ {
			if r.rep.MaxUsed[i] > total.MaxUsed[i] {
				total.MaxUsed[i] = r.rep.MaxUsed[i]
			}
		}
		if r.rep.MaxChoices > total.MaxChoices {
			total.MaxChoices = r.rep.MaxChoices
		}
		if len(total.Samples) < 6 {
			total.Samples = append(total.Samples, r.rep.Samples...)
		}
		for _, v := range r.rep.Violations {
			sigCount[v.Sig]++
			if v.Repro >= 0 {
				have := false
				for _, x := range viols {
					if x.Sig == v.Sig {
						have = true
					}
				}
				if !have {
					viols = append(viols, v)
				}
			}
		}
		if len(r.rep.Rest) > 0 {
			work = append(work, item{Sc: r.it.Sc, Stack: r.rep.Rest})
		}
		r.w.n += r.rep.Execs
		if r.w.n > 30000 { // recycle
			r.w.wc.Close()
			r.w.cmd.Wait()
			nw2 := startWorker()
			for i := range workers {
				if workers[i] == r.w {
					workers[i] = nw2
				}
			}
			idle = append(idle, nw2)
		} else {
			idle = append(idle, r.w)
		}
		if capped == "" {
			if total.Execs >= maxExecs {
				capped = fmt.Sprintf("execution cap %d reached", maxExecs)
			} else if time.Since(t0) > deadline {
				capped = fmt.Sprintf("internal deadline %v reached", deadline)
			}
		}
		if time.Since(lastProgress) > 20*time.Second {
			lastProgress = time.Now()
			fmt.Fprintf(os.Stderr, "[%s %s] %.0fs execs=%d pending-items=%d violations-sigs=%d\n", h.Property, tier, time.Since(t0).Seconds(), total.Execs, len(work), len(sigCount))
		}
	}
	for _, w := range workers {
		w.wc.Close()
		w.cmd.Wait()
	}
	pendingPrefixes := 0
	for _, it := range work {
		pendingPrefixes += len(it.Stack)
	}
	exhaustive := capped == "" && pendingPrefixes == 0

	// replay files of earlier runs of this tier are stale now
	rprefix := tier
	if *flagEvName != "" {
		rprefix = tier + "." + *flagEvName
	}
	if old, _ := filepath.Glob(filepath.Join(*flagVerif, "replays", h.Property, rprefix+"-*.json")); len(old) > 0 {
		for _, f := range old {
			os.Remove(f)
		}
	}
	// classify violations against the known-findings file
	known := LoadKnown(*flagVerif, h.Property)
	exit := 0
	sort.Slice(viols, func(i, j int) bool { return viols[i].Sig < viols[j].Sig })
	nUnknown := 0
	for i, v := range viols {
		if v.Repro < 5 {
			fmt.Fprintf(os.Stderr, "ENGINE-ERROR: violation %s reproduced only %d/5 times (scenario %s, choices %v)\n", v.Sig, v.Repro, v.Scenario, v.Choices)
			os.Exit(2)
		}
		if k, ok := known[v.Sig]; ok && k.Status == "known" {
			fmt.Printf("KNOWN-FINDING: property=%s %s (%s; seen in %d executions)\n", h.Property, k.What, v.Sig, sigCount[v.Sig])
			continue
		}
		nUnknown++
		path := filepath.Join(*flagVerif, "replays", h.Property, fmt.Sprintf("%s-%d.json", rprefix, i))
		os.MkdirAll(filepath.Dir(path), 0o755)
		b, _ := json.MarshalIndent(map[string]any{
			"stage": *flagEvName, "property": h.Property, "scenario": v.Scenario, "sc": v.Sc, "tier": tier, "choices": v.Choices, "labels": v.Labels,
			"clause": v.Clause, "sig": v.Sig, "detail": v.Detail, "trace": v.Trace, "executions_with_this_signature": sigCount[v.Sig],
		}, "", " ")
		os.WriteFile(path, b, 0o644)
		fmt.Printf("VIOLATION property=%s replay=%s\n", h.Property, path)
		fmt.Printf("  clause=%s sig=%s\n  %s\n", v.Clause, v.Sig, v.Detail)
		exit = 1
	}
	// evidence
	outcomes := make([]string, 0, len(total.Outcomes))
	for k := range total.Outcomes {
		outcomes = append(outcomes, k)
	}
	sort.Strings(outcomes)
	if len(outcomes) > 40 {
		outcomes = outcomes[:40]
	}
	cov := map[string]any{
		"states":                        total.Nodes,
		"transitions":                   total.Steps,
		"traces_validated_against_impl": total.Execs,
		"evaluations":                   total.Execs,
		"distinct_nontrivial":           len(total.Outcomes),
		"rule":                          h.Rule + " | states = nodes of the explored choice tree (decision points with >=2 affordable alternatives, plus one terminal state per execution); transitions = scheduler steps executed on the real implementation; every explored trace is an implementation trace; distinct_nontrivial = number of distinct oracle-level outcome labels observed",
		"samples":                       total.Samples,
		"exhaustive":                    exhaustive,
		"root_scenarios":                len(scs),
		"distinct_outcomes":             len(total.Outcomes),
		"outcome_labels":                outcomes,
		"inconclusive":                  total.Inconclusive,
		"max_budget_used":               map[string]int{"P": total.MaxUsed[0], "F": total.MaxUsed[1], "T": total.MaxUsed[2]},
		"max_choice_points":             total.MaxChoices,
		"violation_signatures":          sigCount,
		"workers":                       nw,
		"build_s":                       *flagBuildS,
	}
	if capped != "" {
		cov["cap"] = capped
		cov["unexplored_prefixes_at_cap"] = pendingPrefixes
	}
	if h.Extra != nil {
		for k, v := range h.Extra() {
			cov[k] = v
		}
	}
	for k, v := range staticCov {
		cov[k] = v
	}
	if len(total.Samples) == 0 {
		cov["samples"] = []any{map[string]any{"scenario": scs[0].Name, "choices": []string{}}}
	}
	WriteEvidence(*flagVerif, h.Property, tier, seed, h.Level, cov, h.Assumptions, time.Since(t0).Seconds(), nUnknown)
	fmt.Fprintf(os.Stderr, "[%s %s] done in %.1fs: execs=%d steps=%d nodes=%d outcomes=%d inconclusive=%v exhaustive=%v %s\n", h.Property, tier, time.Since(t0).Seconds(), total.Execs, total.Steps, total.Nodes, len(total.Outcomes), total.Inconclusive, exhaustive, capped)
	os.Exit(exit)
}

func top(s [][]int) []int {
	if len(s) == 0 {
		return nil
	}
	return s[len(s)-1]
}

// ---------- replay ----------

func replayMain(h *Harness) {
	b, err := os.ReadFile(*flagReplay)
	if err != nil {
		fmt.Fprintln(os.Stderr, err)
		os.Exit(2)
	}
	var r struct {
		Scenario string `json:"scenario"`
		Tier     string `json:"tier"`
		Choices  []int  `json:"choices"`
		Sig      string `json:"sig"`
	}
	if err := json.Unmarshal(b, &r); err != nil {
		fmt.Fprintln(os.Stderr, err)
		os.Exit(2)
	}
	if r.Tier != "" {
		*flagTier = r.Tier
	}
	if r.Scenario == "static" && h.Static != nil {
		sv, _ := h.Static()
		for _, x := range sv {
			if x.Sig == r.Sig {
				fmt.Printf("violated: %s\n  %s\n", x.Sig, x.Detail)
				fmt.Printf("VIOLATION property=%s replay=%s\n", h.Property, *flagReplay)
				os.Exit(1)
			}
		}
		fmt.Println("replay: recorded violation did not occur on this tree")
		os.Exit(0)
	}
	for _, sc := range h.Scenarios(*flagTier) {
		if sc.Name != r.Scenario {
			continue
		}
		cfg := h.Config(sc, *flagTier)
		cfg.Prefix = r.Choices
		cfg.Labels = true
		cfg.Trace = 400
		res, v := h.Run(sc, cfg)
		for _, l := range res.Trace {
			fmt.Println(l)
		}
		fmt.Printf("outcome=%v steps=%d virtual-time=%v\n", res.Outcome, res.Steps, res.Now)
		if res.Panic != nil {
			fmt.Printf("panic: %s\n%s\n", res.Panic.Value, res.Panic.Stack)
		}
		for _, t := range res.Alive {
			fmt.Printf("alive: t%d %s parked in %s @%s lib=%v\n", t.ID, t.Name, t.Op, t.Site, t.Lib)
		}
		hit := false
		for _, x := range v.Violations {
			fmt.Printf("violated: %s\n  %s\n", x.Sig, x.Detail)
			if x.Sig == r.Sig {
				hit = true
			}
		}
		if hit {
			fmt.Printf("VIOLATION property=%s replay=%s\n", h.Property, *flagReplay)
			os.Exit(1)
		}
		fmt.Println("replay: recorded violation did not occur on this tree")
		os.Exit(0)
	}
	fmt.Fprintf(os.Stderr, "scenario %q not found\n", r.Scenario)
	os.Exit(2)
}

func debugMain(h *Harness) {
	scs := scenarios(h)
	if len(scs) == 0 {
		fmt.Println("no scenario")
		os.Exit(2)
	}
	sc := scs[0]
	var prefix []int
	for _, f := range strings.Split(*flagPrefix, ",") {
		if f == "" || f == "-" {
			continue
		}
		n, _ := strconv.Atoi(f)
		prefix = append(prefix, n)
	}
	cfg := h.Config(sc, *flagTier)
	cfg.Prefix = prefix
	cfg.Labels = true
	cfg.Trace = 3000
	if ms, _ := strconv.Atoi(os.Getenv("VERIF_MAXSTEPS")); ms > 0 {
		cfg.MaxSteps = ms
	}
	res, v := h.Run(sc, cfg)
	for _, l := range res.Trace {
		fmt.Println(l)
	}
	fmt.Printf("scenario=%s outcome=%v steps=%d virtual-time=%v\n", sc.Name, res.Outcome, res.Steps, res.Now)
	for i, c := range res.Choices {
		fmt.Printf("choice %d: %c:%s=%d/%d\n", i, c.Kind, c.Label, c.Chosen, c.N)
	}
	for _, t := range res.Alive {
		fmt.Printf("alive: t%d %s parked in %s @%s lib=%v\n", t.ID, t.Name, t.Op, t.Site, t.Lib)
	}
	if res.Panic != nil {
		fmt.Printf("panic: %s\n%s\n", res.Panic.Value, res.Panic.Stack)
	}
	fmt.Printf("verdict: outcome=%q inconclusive=%q\n", v.Outcome, v.Inconclusive)
	for _, x := range v.Violations {
		fmt.Printf("violated: %s\n  %s\n", x.Sig, x.Detail)
	}
}

// ---------- known findings & evidence ----------

type Known struct {
	Status   string `json:"status"` // known | fixed
	Property string `json:"property"`
	Sig      string `json:"sig"`
	What     string `json:"what"`
	Commit   string `json:"commit,omitempty"`
}

// LoadKnown reads /verif/known_findings.jsonl (never written at run time).
func LoadKnown(verif, property string) map[string]Known {
	out := map[string]Known{}
	path := filepath.Join(verif, "known_findings.jsonl")
	if k := os.Getenv("VERIF_KNOWN"); k != "" {
		path = k
	}
	f, err := os.Open(path)
	if err != nil {
		return out
	}
	defer f.Close()
	sc := bufio.NewScanner(f)
	sc.Buffer(make([]byte, 1<<20), 1<<20)
	for sc.Scan() {
		l := strings.TrimSpace(sc.Text())
		if l == "" || strings.HasPrefix(l, "#") {
			continue
		}
		var k Known
		if json.Unmarshal([]byte(l), &k) == nil && k.Property == property {
			out[k.Sig] = k
		}
	}
	return out
}

// WriteEvidence writes /verif/evidence/<id>.json.
func WriteEvidence(verif, id, tier string, seed int, level string, cov map[string]any, assumptions []string, wall float64, violations int) {
	ev := map[string]any{
		"property_id": id, "tier": tier, "seed": seed, "level": level, "coverage": cov,
		"assumptions": assumptions, "wall_s": wall, "violations": violations,
	}
	if assumptions == nil {
		ev["assumptions"] = []string{}
	}
	b, _ := json.MarshalIndent(ev, "", " ")
	os.MkdirAll(filepath.Join(verif, "evidence"), 0o755)
	name := id
	if *flagEvName != "" {
		name = *flagEvName
	}
	if err := os.WriteFile(filepath.Join(verif, "evidence", name+".json"), b, 0o644); err != nil {
		fmt.Fprintf(os.Stderr, "ENGINE-ERROR: cannot write evidence: %v\n", err)
		os.Exit(2)
	}
}
