// demo: template of a mode-I harness (see /verif/h/README.md).
package main

import (
	"encoding/json"
	"fmt"

	"github.com/aptpod/iscp-go/internal/vh/lib"
	"github.com/aptpod/iscp-go/transport"
)

type replayCase struct {
	Level int `json:"level"`
}

func check(level int) (bad bool, detail string) {
	p := transport.NegotiationParams{CompressLevel: &level}
	_ = p
	return false, ""
}

func main() {
	e := vlib.StartExplore("C99")
	if e.Replay != nil {
		var c replayCase
		json.Unmarshal(e.Replay, &c)
		bad, detail := check(c.Level)
		e.FinishReplay(bad, detail)
	}
	max := 9
	if e.Thorough() {
		max = 99
	}
	for l := 0; l <= max; l++ {
		e.Case("levels", fmt.Sprint(l))
		if bad, detail := check(l); bad {
			e.Violation("C99.level:"+fmt.Sprint(l > 9), detail, replayCase{l})
		}
		if l%4 == e.Seed%4 {
			e.Sample(map[string]any{"level": l})
		}
	}
	e.Finish("every compression level 0..max", true, nil, []string{"none"})
}
