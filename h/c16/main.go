// c16: end-to-end calls and replies reach exactly their caller (modes S + E).
package main

import (
	"context"
	"fmt"
	"sort"
	"strings"
	"time"

	"github.com/aptpod/iscp-go/internal/vh/kit"
	"github.com/aptpod/iscp-go/internal/vh/lib"
	"github.com/aptpod/iscp-go/internal/vh/sim"
	"github.com/aptpod/iscp-go/internal/vsched"
	"github.com/aptpod/iscp-go/iscp"
	"github.com/aptpod/iscp-go/message"
)

type params struct {
	Kinds    []string // call | reply (SendReplyCall) | callwait (SendCallAndWaitReplayCall)
	Neg      bool     // the broker may answer with a negative ack (choice)
	Spurious bool     // unknown-id reply / duplicated ack may be inserted (choice)
	Incoming int      // number of incoming calls + replies the broker pushes to ReceiveCall / ReceiveReplyCall consumers
	F        int
	P        int
	LateAck  bool // after the callers: a call whose caller gives up (1 s) before the broker acknowledges it, then a fresh call
	Flood    int // replies for nobody (and incoming calls) delivered before the callers start, with no Receive* consumer: the inboxes hold 1024
}

func (p params) name() string {
	if p.LateAck {
		return fmt.Sprintf("%s/neg%v/sp%v/in%d/F%d/P%d/lateack", strings.Join(p.Kinds, ","), p.Neg, p.Spurious, p.Incoming, p.F, p.P)
	}
	if p.Flood > 0 {
		return fmt.Sprintf("%s/neg%v/sp%v/in%d/F%d/P%d/flood%d", strings.Join(p.Kinds, ","), p.Neg, p.Spurious, p.Incoming, p.F, p.P, p.Flood)
	}
	return fmt.Sprintf("%s/neg%v/sp%v/in%d/F%d/P%d", strings.Join(p.Kinds, ","), p.Neg, p.Spurious, p.Incoming, p.F, p.P)
}

func scenarios(tier string) []vlib.Scenario {
	var out []vlib.Scenario
	add := func(p params) { out = append(out, vlib.Scenario{Name: p.name(), P: p}) }
	kinds := []string{"call", "reply", "callwait"}
	for i, a := range kinds {
		for _, b := range kinds[i:] {
			add(params{Kinds: []string{a, b}, Neg: true, Spurious: true, Incoming: 2})
			add(params{Kinds: []string{a, b}, Spurious: false, Incoming: 0, P: 1})
		}
	}
	add(params{Kinds: []string{"callwait", "callwait"}, Incoming: 3, F: 1})
	add(params{Kinds: []string{"call", "callwait"}, Incoming: 0, F: 1})
	// an acknowledgement (and a reply) that arrive after their caller gave up must not block the dispatchers
	add(params{Kinds: []string{"call"}, Incoming: 0, LateAck: true})
	add(params{Kinds: []string{"callwait"}, Incoming: 0, LateAck: true, P: 1})
	// an application that never calls ReceiveCall / ReceiveReplyCall: the inboxes are full, callers are still served
	add(params{Kinds: []string{"callwait", "call"}, Incoming: 0, Flood: 1030})
	if tier == "thorough" {
		for i, a := range kinds {
			for j, b := range kinds[i:] {
				for _, c := range kinds[i+j:] {
					add(params{Kinds: []string{a, b, c}, Neg: true, Spurious: false, Incoming: 2})
				}
				add(params{Kinds: []string{a, b}, Neg: true, Spurious: true, Incoming: 2, P: 1})
				add(params{Kinds: []string{a, b}, Incoming: 2, F: 1, P: 1})
				add(params{Kinds: []string{a, b}, Incoming: 0, F: 2})
			}
		}
	}
	return out
}

func config(sc vlib.Scenario, tier string) vsched.Config {
	p := sc.P.(params)
	cfg := vsched.Config{Preempt: 1, Switch: 1, SelCase: 1, Stall: 1, Timer: -1, Horizon: 120 * time.Second, MaxSteps: 600000}
	cfg.Budget[vsched.BudP] = p.P
	cfg.Budget[vsched.BudF] = p.F
	cfg.Scope = func(site string) bool {
		for _, s := range []string{"iscp.(*Conn).call", "iscp.(*Conn).Send", "iscp.(*Conn).Receive", "iscp.(*Conn).receiveReplyCall", "subscribeReply", "readUpstreamCallAckLoop", "readDownstreamCallLoop", "ReceiveUpstreamCallAck", "ReceiveDownstreamCall", "wire.(*ClientConn).readReliableLoop"} {
			if strings.Contains(site, s) {
				return true
			}
		}
		return false
	}
	return cfg
}

type caller struct {
	kind   string
	gotID  string
	reply  *iscp.DownstreamReplyCall
	err    error
	done   bool
	tag    string
}

type action struct {
	kind string // ack | reply
	call *message.UpstreamCall
}

type world struct {
	holdActs  bool
	abandoned *caller
	after     *caller
	kit.World
	p        params
	callers  []*caller
	pendingActs []action
	negFor   map[string]bool
	recvCalls []*iscp.DownstreamCall
	recvReplies []*iscp.DownstreamReplyCall
	pushed   []string // ids of pushed incoming calls in order
	pushedReplies []string
	seenCalls []*message.UpstreamCall
	spurious int
	rxn      map[string]int
	cuts     int
	acted    bool
	acked    []*message.UpstreamCallAck
	lastReply *message.DownstreamCall
}

func (w *world) script() *sim.Script {
	s := &sim.Script{}
	w.negFor = map[string]bool{}
	w.rxn = map[string]int{}
	s.CallAck = func(c *sim.BConn, call *message.UpstreamCall) (bool, message.ResultCode) { return false, 0 } // driven by the action list
	s.OnMessage = func(b *sim.Broker, c *sim.BConn, m message.Message) bool {
		call, ok := m.(*message.UpstreamCall)
		if !ok {
			return false
		}
		if w.p.F > 0 {
			w.rxn["rx"]++
			if vsched.ChooseBudget(fmt.Sprintf("cut@rx:UpstreamCall#%d", w.rxn["rx"]), 2, vsched.BudF) == 1 {
				w.cuts++
				b.Calls = append(b.Calls, call)
				b.Cut(c)
				return true
			}
		}
		w.seenCalls = append(w.seenCalls, call)
		hasAck, hasReply := false, false
		for _, a := range w.pendingActs {
			if a.call.CallID == call.CallID {
				if a.kind == "ack" {
					hasAck = true
				} else {
					hasReply = true
				}
			}
		}
		if !hasAck {
			w.pendingActs = append(w.pendingActs, action{"ack", call})
		}
		if !hasReply {
			for _, cl := range w.callers {
				if cl.tag == call.Name && cl.kind == "callwait" {
					w.pendingActs = append(w.pendingActs, action{"reply", call})
				}
			}
		}
		return false
	}
	s.OnIdle = func(b *sim.Broker) bool {
		// when the client is quiescent: perform the pending actions in a chosen order
		if len(w.pendingActs) == 0 || w.holdActs {
			return false
		}
		c := b.Live()
		if c == nil {
			return false
		}
		w.acted = true
		for len(w.pendingActs) > 0 {
			i := vsched.Choose("act-next", len(w.pendingActs))
			a := w.pendingActs[i]
			w.pendingActs = append(w.pendingActs[:i:i], w.pendingActs[i+1:]...)
			if w.p.Spurious {
				switch vsched.Choose("spurious", 4) {
				case 3:
					// the same reply delivered twice more (a caller waits with a 1-buffered channel: the dispatcher must not block)
					if w.lastReply != nil {
						w.spurious++
						for k := 0; k < 2; k++ {
							cp := *w.lastReply
							if b.Send(c, &cp) {
								w.pushedReplies = append(w.pushedReplies, cp.CallID)
							}
						}
					}
				case 1:
					w.spurious++
					id := fmt.Sprintf("x-unknown-%d", w.spurious)
					if b.Send(c, &message.DownstreamCall{CallID: id, RequestCallID: "nobody", SourceNodeID: "peer", Name: "stray", Type: "t", Payload: []byte("stray")}) {
						w.pushedReplies = append(w.pushedReplies, id)
					}
				case 2:
					if len(w.acked) > 0 {
						w.spurious++
						last := w.acked[len(w.acked)-1]
						b.Send(c, &message.UpstreamCallAck{CallID: last.CallID, ResultCode: last.ResultCode, ResultString: "dup"})
					}
				}
			}
			switch a.kind {
			case "ack":
				code := message.ResultCodeSucceeded
				if w.p.Neg && vsched.Choose("neg-ack", 2) == 1 {
					code = message.ResultCodeUnspecifiedError
					w.negFor[a.call.CallID] = true
				}
				if w.p.F > 0 {
					w.rxn["tx"]++
					if vsched.ChooseBudget(fmt.Sprintf("cut@tx:UpstreamCallAck#%d", w.rxn["tx"]), 2, vsched.BudF) == 1 {
						w.cuts++
						b.Cut(c)
						return true
					}
				}
				ack := &message.UpstreamCallAck{CallID: a.call.CallID, ResultCode: code, ResultString: "ack:" + a.call.CallID}
				b.Send(c, ack)
				w.acked = append(w.acked, ack)
				// a call that waits for a reply gets one (possibly before the ack, see below)
			case "reply":
				rp := &message.DownstreamCall{CallID: "r-" + a.call.CallID, RequestCallID: a.call.CallID, SourceNodeID: "peer", Name: a.call.Name, Type: "t", Payload: []byte("reply-to:" + a.call.CallID)}
				if b.Send(c, rp) {
					w.pushedReplies = append(w.pushedReplies, "r-"+a.call.CallID)
					w.lastReply = rp
				}
			}
		}
		return true
	}
	return s
}

func (w *world) main() {
	if err := w.Connect(w.script()); err != nil {
		return
	}
	w.Phase = "calls"
	var wg vsched.WaitGroup
	for i, k := range w.p.Kinds {
		c := &caller{kind: k, tag: fmt.Sprintf("c%d", i)}
		w.callers = append(w.callers, c)
	}
	// consumers of incoming calls / replies
	cctx, ccancel := kit.Ctx(60 * time.Second)
	defer ccancel()
	if w.p.Incoming > 0 {
		vsched.Go("h:recvcall", func() {
			for {
				c, err := w.Conn.ReceiveCall(cctx)
				if err != nil {
					return
				}
				w.recvCalls = append(w.recvCalls, c)
			}
		})
		vsched.Go("h:recvreply", func() {
			for {
				c, err := w.Conn.ReceiveReplyCall(cctx)
				if err != nil {
					return
				}
				w.recvReplies = append(w.recvReplies, c)
			}
		})
	}
	if w.p.Flood > 0 {
		if c := w.B.Live(); c != nil {
			for i := 0; i < w.p.Flood; i++ {
				w.B.Send(c, &message.DownstreamCall{CallID: fmt.Sprintf("fr-%d", i), RequestCallID: fmt.Sprintf("nobody-%d", i), SourceNodeID: "peer", Name: "n", Type: "t"})
				w.B.Send(c, &message.DownstreamCall{CallID: fmt.Sprintf("fc-%d", i), SourceNodeID: "peer", Name: "n", Type: "t"})
				if i%64 == 63 {
					vsched.Quiesce()
				}
			}
		}
		vsched.Quiesce()
	}
	for i := range w.callers {
		c := w.callers[i]
		wg.Add(1)
		vsched.Go("h:caller", func() {
			defer wg.Done()
			ctx, cancel := kit.Ctx(40 * time.Second)
			defer cancel()
			w.doCall(ctx, c)
			c.done = true
		})
	}
	// the broker pushes incoming calls while the callers are busy
	for i := 0; i < w.p.Incoming; i++ {
		if c := w.B.Live(); c != nil {
			id := fmt.Sprintf("in-%d", i)
			w.pushed = append(w.pushed, id)
			w.B.Send(c, &message.DownstreamCall{CallID: id, SourceNodeID: "peer", Name: "incoming", Type: "t", Payload: []byte("payload-" + id)})
		}
	}
	wg.Wait()
	if w.p.LateAck {
		vsched.Quiesce()
		w.holdActs = true
		kind := w.p.Kinds[0]
		ab := &caller{kind: kind, tag: "abandoned"}
		w.abandoned = ab
		actx, acancel := kit.Ctx(time.Second)
		w.doCall(actx, ab)
		acancel()
		w.holdActs = false // now the broker acknowledges (and answers) the abandoned call
		vsched.Sleep(500*time.Millisecond, "h:late-ack")
		vsched.Quiesce()
		af := &caller{kind: kind, tag: "after"}
		w.after = af
		if kind == "callwait" {
			w.callers = append(w.callers, af) // so that the broker schedules a reply for it
		}
		fctx, fcancel := kit.Ctx(10 * time.Second)
		w.doCall(fctx, af)
		fcancel()
		af.done = true
		if kind == "callwait" {
			w.callers = w.callers[:len(w.callers)-1]
		}
	}
	if w.p.Incoming > 0 {
		vsched.Quiesce()
		if c := w.B.Live(); c != nil {
			id := "in-last"
			w.pushed = append(w.pushed, id)
			w.B.Send(c, &message.DownstreamCall{CallID: id, SourceNodeID: "peer", Name: "incoming", Type: "t", Payload: []byte("payload-" + id)})
		}
	}
	w.Phase = "closing"
	vsched.Quiesce()
	xctx, xcancel := kit.Ctx(5 * time.Second)
	w.Conn.Close(xctx)
	xcancel()
	w.B.Stop()
	w.Phase = "done"
}

func (w *world) doCall(ctx context.Context, c *caller) {
	switch c.kind {
	case "call":
		c.gotID, c.err = w.Conn.SendCall(ctx, &iscp.UpstreamCall{DestinationNodeID: "dst", Name: c.tag, Type: "t", Payload: []byte(c.tag)})
	case "reply":
		c.gotID, c.err = w.Conn.SendReplyCall(ctx, &iscp.UpstreamReplyCall{RequestCallID: "req-" + c.tag, DestinationNodeID: "dst", Name: c.tag, Type: "t", Payload: []byte(c.tag)})
	case "callwait":
		c.reply, c.err = w.Conn.SendCallAndWaitReplayCall(ctx, &iscp.UpstreamCall{DestinationNodeID: "dst", Name: c.tag, Type: "t", Payload: []byte(c.tag)})
	}
}

func run(sc vlib.Scenario, cfg vsched.Config) (*vsched.Result, vlib.Verdict) {
	w := &world{p: sc.P.(params)}
	// a waiting call gets a reply action in addition to its ack: registered lazily below
	res := vsched.Run(cfg, w.main)
	var v vlib.Verdict
	dev := res.Used[vsched.BudP] > 0
	if res.Outcome == vsched.Panicked {
		v.Fail("C16.panic", res.Panic.Site, "library panic: %s", res.Panic.Value)
		return res, v
	}
	if w.ConnErr != nil || w.B == nil {
		v.Inconclusive = "connect failed"
		return res, v
	}
	if res.Outcome != vsched.Completed {
		stuck := []string{}
		for _, c := range w.callers {
			if !c.done {
				stuck = append(stuck, c.kind)
			}
		}
		sort.Strings(stuck)
		if w.Phase == "calls" {
			v.Fail("C16.hang", fmt.Sprintf("%v/cuts=%d/dev=%v", stuck, w.cuts, dev), "callers %v never returned although the broker acknowledged / answered every call it received (calls seen %d)", stuck, len(w.seenCalls))
		} else {
			v.Inconclusive = "not-completed:" + w.Phase
		}
		return res, v
	}
	if w.after != nil && w.after.err != nil {
		v.Fail("C16.result", fmt.Sprintf("after-late-ack/%s/%s/dev=%v", w.after.kind, kit.ErrKind(w.after.err), dev), "a %s issued after the late acknowledgement of an abandoned call failed: %v (the abandoned call itself ended with %v)", w.after.kind, w.after.err, w.abandoned.err)
	}
	// call ids distinct
	ids := map[string]int{}
	byName := map[string]*message.UpstreamCall{}
	for _, c := range w.seenCalls {
		byName[c.Name] = c
	}
	distinct := map[string]string{}
	for _, c := range w.seenCalls {
		if other, ok := distinct[c.CallID]; ok && other != c.Name {
			v.Fail("C16.id", "reused", "call id %q used by two different calls (%s, %s)", c.CallID, other, c.Name)
		}
		distinct[c.CallID] = c.Name
		ids[c.CallID]++
	}
	out := []string{}
	for _, c := range w.callers {
		sent := byName[c.tag]
		if sent == nil {
			if c.err == nil {
				v.Fail("C16.result", c.kind+"/nil-without-call", "%s returned nil but the broker never saw its call", c.kind)
			}
			out = append(out, c.kind+"=unsent:"+kit.ErrKind(c.err))
			continue
		}
		neg := w.negFor[sent.CallID]
		switch c.kind {
		case "call", "reply":
			if neg {
				if c.err == nil {
					v.Fail("C16.result", c.kind+"/negative-ack-ignored", "%s got a negative ack for %q but returned nil", c.kind, sent.CallID)
				}
			} else if c.err != nil {
				v.Fail("C16.result", fmt.Sprintf("%s/%s/cuts=%d/dev=%v", c.kind, kit.ErrKind(c.err), w.cuts, dev), "%s for %q was acknowledged positively but returned %v", c.kind, sent.CallID, c.err)
			} else if c.gotID != sent.CallID {
				v.Fail("C16.match", c.kind+"/foreign-call-id", "%s returned call id %q, its call carried %q", c.kind, c.gotID, sent.CallID)
			}
			if c.kind == "reply" && sent.RequestCallID != "req-"+c.tag {
				v.Fail("C16.content", "request-call-id", "SendReplyCall transmitted request call id %q, want %q", sent.RequestCallID, "req-"+c.tag)
			}
		case "callwait":
			if neg {
				if c.err == nil {
					v.Fail("C16.result", "callwait/negative-ack-ignored", "SendCallAndWaitReplayCall got a negative ack for %q but returned a reply", sent.CallID)
				}
			} else if c.err != nil {
				v.Fail("C16.result", fmt.Sprintf("callwait/%s/cuts=%d/dev=%v", kit.ErrKind(c.err), w.cuts, dev), "SendCallAndWaitReplayCall for %q was acknowledged and answered but returned %v", sent.CallID, c.err)
			} else if c.reply == nil || c.reply.RequestCallID != sent.CallID || string(c.reply.Payload) != "reply-to:"+sent.CallID {
				v.Fail("C16.match", "callwait/foreign-reply", "SendCallAndWaitReplayCall for %q returned reply %+v", sent.CallID, c.reply)
			}
		}
		if string(sent.Payload) != c.tag || sent.DestinationNodeID != "dst" {
			v.Fail("C16.content", "call-altered", "call of %s reached the broker as %+v", c.tag, sent)
		}
		out = append(out, c.kind+"="+kit.ErrKind(c.err))
	}
	// incoming calls: once each, unmodified, in arrival order
	if w.p.Incoming > 0 && w.cuts == 0 {
		var got []string
		for _, c := range w.recvCalls {
			got = append(got, c.CallID)
			if string(c.Payload) != "payload-"+c.CallID || c.SourceNodeID != "peer" || c.Name != "incoming" {
				v.Fail("C16.incoming", "altered", "incoming call %q was returned as %+v", c.CallID, c)
			}
		}
		if strings.Join(got, ",") != strings.Join(w.pushed, ",") {
			v.Fail("C16.incoming", fmt.Sprintf("calls-order-or-count/dev=%v", dev), "ReceiveCall returned %v, the broker sent %v", got, w.pushed)
		}
	}
	if w.p.Incoming > 0 && w.cuts == 0 {
		var got []string
		for _, c := range w.recvReplies {
			got = append(got, c.CallID)
		}
		if strings.Join(got, ",") != strings.Join(w.pushedReplies, ",") {
			v.Fail("C16.incoming", fmt.Sprintf("replies-order-or-count/dev=%v", dev), "ReceiveReplyCall returned %v, the broker sent replies %v", got, w.pushedReplies)
		}
	}
	sort.Strings(out)
	v.Outcome = fmt.Sprintf("%v spurious=%d cuts=%d", out, w.spurious, w.cuts)
	return res, v
}

func main() {
	vlib.Main(&vlib.Harness{
		Property:  "C16",
		Scenarios: scenarios,
		Config:    config,
		Run:       run,
		Rule:      "modes S+E: 2-3 caller threads over {SendCall, SendReplyCall, SendCallAndWaitReplayCall}; when the client is quiescent the broker performs the pending acks and replies in every order (choice per step), optionally negative acks, optionally preceded by a reply for an unknown id or a duplicated ack; incoming calls pushed to ReceiveCall/ReceiveReplyCall consumers; link cut at rx of the call / tx of the ack (budget F); deviations <= P in the e2e code",
		Assumptions: []string{"call ids are made deterministic through the package's randomString seam (freshness = one generator call per API call)"},
	})
}

var _ = sim.NoFault
