// c03: downstream delivery (C03) and downstream acknowledgements / alias announcements (C04), mode E.
// The broker sends chunk sequences mixing full infos/ids and aliases (only aliases it learnt from
// the client's acks or from the pre-registered list are valid; an alias it never learnt is an
// invalid probe); reads are issued immediately or deferred, ack flushes happen or not (choices).
package main

import (
	"context"
	"fmt"
	"os"
	"sort"
	"strings"
	"time"

	"github.com/aptpod/iscp-go/internal/vh/kit"
	"github.com/aptpod/iscp-go/internal/vh/lib"
	"github.com/aptpod/iscp-go/internal/vh/sim"
	"github.com/aptpod/iscp-go/internal/vsched"
	"github.com/aptpod/iscp-go/iscp"
	"github.com/aptpod/iscp-go/message"
	uuid "github.com/google/uuid"
)

var propID = "C03"

func init() {
	for i, a := range os.Args {
		if a == "-id" && i+1 < len(os.Args) {
			propID = os.Args[i+1]
		}
	}
}

type shape struct {
	Up      int    // 1 | 2
	UpAlias bool   // by alias (if the broker knows one, else invalid probe)
	IDs     []int  // data ids 1|2
	IDAlias []bool // per group
}

var shapes = map[string]shape{
	"a": {1, false, []int{1}, []bool{false}},
	"b": {1, true, []int{1}, []bool{true}},
	"c": {2, false, []int{2}, []bool{false}},
	"d": {1, true, []int{1, 2}, []bool{false, true}},
	"e": {1, false, []int{2}, []bool{true}},
	"f": {2, true, []int{1}, []bool{true}},
	"g": {1, false, []int{1, 2}, []bool{false, false}},
	"h": {2, false, []int{1, 2, 1}, []bool{false, false, false}}, // the same data id twice in one chunk, full form
	"k": {1, true, []int{1, 2}, []bool{true, false}},             // an aliased group followed by a new id in full form
	"m": {2, false, []int{2, 1, 3}, []bool{true, true, false}},   // two aliased groups, then a third id in full form
}

type params struct {
	Seq           []string // shape names; "M1"/"M2" = metadata from source node 1/2
	QoS           message.QoS
	Unrel         bool
	Predecl       bool // D2 pre-registered with WithDownstreamDataIDs
	PredeclDup    bool // ... and listed twice there (with D1 in between)
	FlushZero     bool // WithDownstreamAckFlushInterval(0)
	F             int  // link failures (C04 thorough)
	P             int
	DupFilter     bool // the downstream has two filters for source node 1
	CloseInResume bool // the link is cut with an acknowledgement pending, the resume request is never answered, the application closes the stream
	ReadInClose   bool // the broker takes 1 s to answer the close request; the application reads a queued chunk meanwhile
	HoldAck       bool // the client's transport write stalls while an ack flush is under way, a second chunk is read meanwhile, then the link is cut
	Stream        bool // a reader thread consumes while the broker keeps sending at intervals (early timer firing allowed: T=1)
}

func (p params) name() string {
	if p.Stream {
		return fmt.Sprintf("stream-%s/P%d", strings.Join(p.Seq, ""), p.P)
	}
	if p.HoldAck {
		return fmt.Sprintf("holdack-%s/P%d", strings.Join(p.Seq, ""), p.P)
	}
	if p.ReadInClose {
		return fmt.Sprintf("readinclose-%s/P%d", strings.Join(p.Seq, ""), p.P)
	}
	if p.CloseInResume {
		return fmt.Sprintf("closeinresume-%s/P%d", strings.Join(p.Seq, ""), p.P)
	}
	if p.DupFilter {
		return fmt.Sprintf("dupfilter-%s/P%d", strings.Join(p.Seq, ""), p.P)
	}
	if p.PredeclDup {
		return fmt.Sprintf("predecl-twice-%s/P%d", strings.Join(p.Seq, ""), p.P)
	}
	if p.FlushZero {
		return fmt.Sprintf("ackflush0-%s/P%d", strings.Join(p.Seq, ""), p.P)
	}
	return fmt.Sprintf("%s/q%d/u%v/pre%v/F%d/P%d", strings.Join(p.Seq, ""), p.QoS, p.Unrel, p.Predecl, p.F, p.P)
}

func seqs(alpha []string, maxLen int) [][]string {
	out := [][]string{}
	var rec func(cur []string)
	rec = func(cur []string) {
		if len(cur) > 0 {
			out = append(out, append([]string{}, cur...))
		}
		if len(cur) == maxLen {
			return
		}
		for _, a := range alpha {
			rec(append(cur, a))
		}
	}
	rec(nil)
	return out
}

func scenarios(tier string) []vlib.Scenario {
	var out []vlib.Scenario
	add := func(p params) { out = append(out, vlib.Scenario{Name: p.name(), P: p}) }
	alpha := []string{"a", "b", "c", "d", "e", "f"}
	maxLen := 3
	if tier == "thorough" {
		alpha = append(alpha, "g")
	}
	for _, s := range seqs(alpha, maxLen) {
		for _, pre := range []bool{false, true} {
			if tier != "thorough" && pre && len(s) == 3 && s[0] != "e" && s[1] != "e" {
				continue
			}
			add(params{Seq: s, QoS: message.QoSReliable, Predecl: pre})
		}
	}
	for _, s := range seqs([]string{"a", "b", "c"}, 2) {
		add(params{Seq: s, QoS: message.QoSPartial})
		add(params{Seq: s, QoS: message.QoSUnreliable})
		add(params{Seq: s, QoS: message.QoSUnreliable, Unrel: true})
	}
	// metadata, alone and mixed with chunks
	for _, s := range seqs([]string{"M1", "M2"}, 3) {
		add(params{Seq: s, QoS: message.QoSReliable})
	}
	add(params{Seq: []string{"a", "M1", "b", "M2"}, QoS: message.QoSReliable})
	for _, sq := range [][]string{{"h"}, {"h", "b"}, {"a", "h"}, {"h", "h"}, {"c", "h", "f"}, {"a", "k"}, {"a", "k", "e"}, {"g", "m"}, {"g", "m", "m"}, {"k"}} {
		add(params{Seq: sq, QoS: message.QoSReliable})
	}
	add(params{Seq: []string{"a", "c"}, QoS: message.QoSReliable, P: 1, Stream: true})
	add(params{Seq: []string{"a", "a", "b"}, QoS: message.QoSReliable, P: 1})
	add(params{Seq: []string{"a", "c", "f"}, QoS: message.QoSReliable, P: 1})
	// two filters for one source node: its metadata still arrives once and in order
	add(params{Seq: []string{"M1", "M1", "M2"}, QoS: message.QoSReliable, DupFilter: true})
	add(params{Seq: []string{"M1", "M1"}, QoS: message.QoSReliable, DupFilter: true, P: 1})
	// a data id listed twice among the pre-registered ones; an ack flush interval of 0
	add(params{Seq: []string{"a", "e"}, QoS: message.QoSReliable, Predecl: true, PredeclDup: true})
	add(params{Seq: []string{"e", "c"}, QoS: message.QoSReliable, Predecl: true, PredeclDup: true})
	add(params{Seq: []string{"a", "c"}, QoS: message.QoSReliable, FlushZero: true})
	// Close while the resume request is unanswered: nothing may follow the close request
	add(params{Seq: []string{"a"}, QoS: message.QoSReliable, CloseInResume: true})
	// a read that overlaps Close: what it returns is acknowledged, or it fails
	add(params{Seq: []string{"a", "c"}, QoS: message.QoSReliable, ReadInClose: true})
	add(params{Seq: []string{"a", "c"}, QoS: message.QoSReliable, ReadInClose: true, P: 1})
	// an acknowledgement whose write stalls and then fails with the link, while the application goes on reading
	add(params{Seq: []string{"a", "c"}, QoS: message.QoSReliable, HoldAck: true})
	add(params{Seq: []string{"a", "c"}, QoS: message.QoSReliable, HoldAck: true, P: 1})
	// an outage (link cut at quiescence, resume) between the items
	for _, s := range seqs([]string{"a", "b", "c"}, 2) {
		add(params{Seq: s, QoS: message.QoSReliable, F: 1})
	}
	if tier == "thorough" {
		for _, s := range seqs([]string{"a", "b", "c", "e"}, 4) {
			if len(s) == 4 {
				add(params{Seq: s, QoS: message.QoSReliable, Predecl: s[0] == "e"})
			}
		}
		for _, s := range seqs([]string{"a", "b", "c"}, 3) {
			add(params{Seq: s, QoS: message.QoSReliable, F: 1})
			if len(s) <= 2 {
				add(params{Seq: s, QoS: message.QoSReliable, P: 1})
			}
		}
	}
	return out
}

func config(sc vlib.Scenario, tier string) vsched.Config {
	p := sc.P.(params)
	cfg := vsched.Config{Preempt: 1, Switch: 1, SelCase: 1, Stall: 1, Timer: -1, Horizon: 120 * time.Second, MaxSteps: 600000}
	cfg.Budget[vsched.BudP] = p.P
	cfg.Budget[vsched.BudF] = p.F
	if p.Stream {
		cfg.Timer = 1
		cfg.Budget[vsched.BudT] = 1
	}
	cfg.Scope = func(site string) bool {
		if site == "h:stream-gap" {
			return true
		}
		// h:write:client = the client's transport write (a slow broker / back pressure is a stall at that point)
		return strings.Contains(site, "iscp.(*Downstream)") || strings.Contains(site, "readDownstream") || strings.Contains(site, "subscribeDownstreamMetadata") || strings.HasPrefix(site, "h:write:client")
	}
	return cfg
}

func upInfo(n int) *message.UpstreamInfo {
	return &message.UpstreamInfo{SessionID: fmt.Sprintf("sess-%d", n), SourceNodeID: fmt.Sprintf("node-%d", n), StreamID: sim.StreamUUID('s', n)}
}

func dataID(n int) message.DataID { return message.DataID{Name: fmt.Sprintf("d%d", n), Type: "t"} }

type sent struct {
	kind    string // chunk | meta
	valid   bool
	seq     uint32
	up      int
	groups  []string // "d1@10=payload"
	metaReq uint32
	node    string
	name    string
	unrel   bool
}

type readRes struct {
	kind   string
	err    error
	seq    uint32
	up     *message.UpstreamInfo
	groups []string
	node   string
	name   string
}

type world struct {
	resumedAtClose int
	kit.World
	p                params
	sent             []sent
	reads            []readRes
	closeErr         error
	cuts             int
	closedBeforeAcks bool
	state            *iscp.DownstreamState
}

// knownAliases reconstructs what the broker learnt from the acks it received so far.
func (w *world) knownAliases() (ups map[uuid.UUID]uint32, ids map[message.DataID]uint32) {
	ups, ids = map[uuid.UUID]uint32{}, map[message.DataID]uint32{}
	if len(w.B.Downs) == 0 {
		return
	}
	d := w.B.Downs[0]
	for a, id := range d.Open.DataIDAliases {
		ids[*id] = a
	}
	for _, ack := range d.Acks {
		for a, u := range ack.UpstreamAliases {
			if _, ok := ups[u.StreamID]; !ok {
				ups[u.StreamID] = a
			}
		}
		for a, id := range ack.DataIDAliases {
			if _, ok := ids[*id]; !ok {
				ids[*id] = a
			}
		}
	}
	return
}

func (w *world) sendItem(i int, name string) {
	c := w.B.Live()
	if c == nil {
		return
	}
	alias := w.B.Downs[0].Alias
	if name == "M1" || name == "M2" {
		node := "src1"
		if name == "M2" {
			node = "src2"
		}
		req := uint32(5001 + 2*i)
		nm := fmt.Sprintf("meta-%d", i)
		w.B.Send(c, &message.DownstreamMetadata{RequestID: message.RequestID(req), StreamIDAlias: alias, SourceNodeID: node, Metadata: &message.BaseTime{SessionID: "s", Name: nm}})
		w.sent = append(w.sent, sent{kind: "meta", valid: true, metaReq: req, node: node, name: nm})
		return
	}
	sh := shapes[name]
	ups, ids := w.knownAliases()
	rec := sent{kind: "chunk", valid: true, seq: uint32(10 + i), up: sh.Up}
	ch := &message.DownstreamChunk{StreamIDAlias: alias, StreamChunk: &message.StreamChunk{SequenceNumber: rec.seq}}
	info := upInfo(sh.Up)
	if sh.UpAlias {
		if a, ok := ups[info.StreamID]; ok {
			ch.UpstreamOrAlias = message.UpstreamAlias(a)
		} else {
			ch.UpstreamOrAlias = message.UpstreamAlias(90 + uint32(sh.Up))
			rec.valid = false
		}
	} else {
		ch.UpstreamOrAlias = info
	}
	for g, idn := range sh.IDs {
		id := dataID(idn)
		payload := fmt.Sprintf("p%d-%d", i, g)
		el := time.Duration(100*i+g) * time.Microsecond
		grp := &message.DataPointGroup{DataPoints: []*message.DataPoint{{ElapsedTime: el, Payload: []byte(payload)}}}
		if sh.IDAlias[g] {
			if a, ok := ids[id]; ok {
				grp.DataIDOrAlias = message.DataIDAlias(a)
			} else {
				grp.DataIDOrAlias = message.DataIDAlias(80 + uint32(idn))
				rec.valid = false
			}
		} else {
			idc := id
			grp.DataIDOrAlias = &idc
		}
		ch.StreamChunk.DataPointGroups = append(ch.StreamChunk.DataPointGroups, grp)
		rec.groups = append(rec.groups, fmt.Sprintf("%s@%d=%s", id.Name, el, payload))
	}
	if w.p.QoS == message.QoSUnreliable && w.p.Unrel {
		rec.unrel = true
		w.B.SendUnreliable(c, ch)
	} else {
		w.B.Send(c, ch)
	}
	w.sent = append(w.sent, rec)
}

func (w *world) readOne(kind string) {
	ctx, cancel := kit.Ctx(2 * time.Second)
	defer cancel()
	d := w.Downs[0].D
	if kind == "meta" {
		m, err := d.ReadMetadata(ctx)
		r := readRes{kind: "meta", err: err}
		if m != nil {
			r.node = m.SourceNodeID
			if bt, ok := m.Metadata.(*message.BaseTime); ok {
				r.name = bt.Name
			}
		}
		w.reads = append(w.reads, r)
		return
	}
	c, err := d.ReadDataPoints(ctx)
	r := readRes{kind: "chunk", err: err}
	if c != nil {
		r.seq, r.up = c.SequenceNumber, c.UpstreamInfo
		for _, g := range c.DataPointGroups {
			for _, p := range g.DataPoints {
				r.groups = append(r.groups, fmt.Sprintf("%s@%d=%s", g.DataID.Name, p.ElapsedTime, string(p.Payload)))
			}
		}
	}
	w.reads = append(w.reads, r)
}

func (w *world) main() {
	s := &sim.Script{Unreliable: w.p.Unrel}
	if w.p.CloseInResume {
		s.OnMessage = func(b *sim.Broker, c *sim.BConn, m message.Message) bool {
			if _, ok := m.(*message.DownstreamResumeRequest); ok {
				// answered only after the application has closed the stream
				vsched.AfterFunc(4*time.Second, "h:late-resume-answer", func() {
					vsched.Spawn("h:late-resume-answer", func() { b.HandleDefault(c, m) })
				})
				return true
			}
			return false
		}
	}
	if w.p.ReadInClose {
		s.OnMessage = func(b *sim.Broker, c *sim.BConn, m message.Message) bool {
			if _, ok := m.(*message.DownstreamCloseRequest); ok {
				vsched.AfterFunc(time.Second, "h:slow-close-answer", func() {
					vsched.Spawn("h:slow-close-answer", func() { b.HandleDefault(c, m) })
				})
				return true
			}
			return false
		}
	}
	if err := w.Connect(s); err != nil {
		return
	}
	sctx, scancel := kit.Ctx(10 * time.Second)
	defer scancel()
	opts := []iscp.DownstreamOption{iscp.WithDownstreamQoS(w.p.QoS), iscp.WithDownstreamAckFlushInterval(100 * time.Millisecond)}
	if w.p.FlushZero {
		opts = append(opts, iscp.WithDownstreamAckFlushInterval(0))
	}
	if w.p.Predecl {
		d2 := dataID(2)
		opts = append(opts, iscp.WithDownstreamDataIDs([]*message.DataID{&d2}))
	}
	if w.p.PredeclDup {
		d1, d2, d2b := dataID(1), dataID(2), dataID(2)
		opts = append(opts, iscp.WithDownstreamDataIDs([]*message.DataID{&d2, &d1, &d2b}))
	}
	filters := []*message.DownstreamFilter{kit.Filter("src1")[0], kit.Filter("src2")[0]}
	if w.p.DupFilter {
		filters = []*message.DownstreamFilter{kit.Filter("src1")[0], {SourceNodeID: "src1", DataFilters: []*message.DataFilter{{Name: "other", Type: "#"}}}, kit.Filter("src2")[0]}
	}
	if _, err := w.OpenDown(sctx, "d0", filters, opts...); err != nil {
		w.Phase = "setup-failed"
		return
	}
	w.Phase = "run"
	if w.p.CloseInResume {
		w.sendItem(0, w.p.Seq[0])
		vsched.Quiesce()
		w.readOne("chunk") // its acknowledgement is still buffered (flush interval 100 ms)
		w.cuts++
		w.B.Cut(w.B.Live())
		vsched.Sleep(3*time.Second, "h:resume-pending")
		w.Phase = "close"
		cctx, ccancel := kit.Ctx(3 * time.Second)
		w.resumedAtClose = w.Downs[0].Resumed
		w.closeErr = w.Downs[0].D.Close(cctx)
		ccancel()
		vsched.Sleep(2*time.Second, "h:after-close")
		w.Phase = "connclose"
		xctx, xcancel := kit.Ctx(5 * time.Second)
		w.Conn.Close(xctx)
		xcancel()
		w.B.Stop()
		w.Phase = "done"
		return
	}
	if w.p.ReadInClose {
		w.sendItem(0, w.p.Seq[0])
		vsched.Quiesce()
		w.readOne("chunk")
		vsched.Sleep(150*time.Millisecond, "h:ack-flushed")
		w.sendItem(1, w.p.Seq[1])
		vsched.Quiesce()
		var wg vsched.WaitGroup
		wg.Add(1)
		vsched.Go("h:closer", func() {
			defer wg.Done()
			cctx, ccancel := kit.Ctx(10 * time.Second)
			w.resumedAtClose = w.Downs[0].Resumed
			w.closeErr = w.Downs[0].D.Close(cctx)
			ccancel()
		})
		vsched.Sleep(500*time.Millisecond, "h:close-pending")
		w.readOne("chunk")
		wg.Wait()
		w.Phase = "close"
		vsched.Quiesce()
		w.Phase = "connclose"
		xctx, xcancel := kit.Ctx(5 * time.Second)
		w.Conn.Close(xctx)
		xcancel()
		w.B.Stop()
		w.Phase = "done"
		return
	}
	if w.p.HoldAck {
		w.sendItem(0, w.p.Seq[0])
		vsched.Quiesce()
		w.readOne("chunk")
		live := w.B.Live()
		live.Link.HoldClientWrites = true
		vsched.Sleep(150*time.Millisecond, "h:ack-flush-stalls")
		w.sendItem(1, w.p.Seq[1])
		vsched.Quiesce()
		var wg vsched.WaitGroup
		wg.Add(1)
		vsched.Go("h:reader", func() { defer wg.Done(); w.readOne("chunk") })
		vsched.Quiesce()
		w.cuts++
		w.B.Cut(live)
		vsched.Sleep(8*time.Second, "h:recover")
		wg.Wait()
		w.Phase = "close"
		cctx, ccancel := kit.Ctx(10 * time.Second)
		w.resumedAtClose = w.Downs[0].Resumed
		w.closeErr = w.Downs[0].D.Close(cctx)
		ccancel()
		vsched.Quiesce()
		w.Phase = "connclose"
		xctx, xcancel := kit.Ctx(5 * time.Second)
		w.Conn.Close(xctx)
		xcancel()
		w.B.Stop()
		w.Phase = "done"
		return
	}
	if w.p.Stream {
		// the broker keeps sending at intervals while a reader thread consumes
		var wg vsched.WaitGroup
		wg.Add(1)
		n := len(w.p.Seq)
		vsched.Go("h:stream-reader", func() {
			defer wg.Done()
			for i := 0; i < n; i++ {
				w.readOne("chunk")
			}
		})
		for i, name := range w.p.Seq {
			w.sendItem(i, name)
			vsched.Sleep(150*time.Millisecond, "h:stream-gap")
		}
		wg.Wait()
		w.Phase = "close"
		cctx, ccancel := kit.Ctx(10 * time.Second)
		w.resumedAtClose = w.Downs[0].Resumed
		w.closeErr = w.Downs[0].D.Close(cctx)
		ccancel()
		vsched.Quiesce()
		xctx, xcancel := kit.Ctx(5 * time.Second)
		w.Conn.Close(xctx)
		xcancel()
		w.B.Stop()
		w.Phase = "done"
		return
	}
	if w.p.DupFilter {
		// the items are sent back to back; the application reads afterwards
		for i, name := range w.p.Seq {
			w.sendItem(i, name)
		}
		vsched.Quiesce()
		for range w.p.Seq {
			w.readOne("meta")
		}
		w.Phase = "close"
		w.resumedAtClose = w.Downs[0].Resumed
		cctx, ccancel := kit.Ctx(10 * time.Second)
		w.closeErr = w.Downs[0].D.Close(cctx)
		ccancel()
		vsched.Quiesce()
		w.Phase = "connclose"
		xctx, xcancel := kit.Ctx(5 * time.Second)
		w.Conn.Close(xctx)
		xcancel()
		w.B.Stop()
		w.Phase = "done"
		return
	}
	var deferred []string
	for i, name := range w.p.Seq {
		kind := "chunk"
		if name[0] == 'M' {
			kind = "meta"
		}
		if w.p.F > 0 && vsched.ChooseBudget(fmt.Sprintf("cut-before-item%d", i), 2, vsched.BudF) == 1 {
			w.cuts++
			w.B.Cut(w.B.Live())
			vsched.Sleep(8*time.Second, "h:recover")
		}
		w.sendItem(i, name)
		vsched.Quiesce()
		if vsched.Choose(fmt.Sprintf("read-now%d", i), 2) == 0 {
			// drain the deferred ones first so that order is the arrival order per kind
			for _, k := range deferred {
				w.readOne(k)
			}
			deferred = nil
			w.readOne(kind)
			if vsched.Choose(fmt.Sprintf("flush-interval%d", i), 2) == 1 {
				vsched.Sleep(100*time.Millisecond, "h:Z")
			}
		} else {
			deferred = append(deferred, kind)
		}
	}
	for _, k := range deferred {
		w.readOne(k)
	}
	w.Phase = "close"
	st := w.Downs[0].D.State()
	w.state = st
	cctx, ccancel := kit.Ctx(10 * time.Second)
	w.resumedAtClose = w.Downs[0].Resumed
	w.closeErr = w.Downs[0].D.Close(cctx)
	ccancel()
	vsched.Quiesce()
	w.Phase = "connclose"
	xctx, xcancel := kit.Ctx(5 * time.Second)
	w.Conn.Close(xctx)
	xcancel()
	w.B.Stop()
	w.Phase = "done"
}

func run(sc vlib.Scenario, cfg vsched.Config) (*vsched.Result, vlib.Verdict) {
	w := &world{p: sc.P.(params)}
	res := vsched.Run(cfg, w.main)
	var v vlib.Verdict
	if res.Outcome == vsched.Panicked {
		v.Fail(propID+".panic", res.Panic.Site, "library panic: %s", res.Panic.Value)
		return res, v
	}
	if w.ConnErr != nil || w.Phase == "setup-failed" || len(w.Downs) == 0 {
		v.Inconclusive = "setup failed"
		return res, v
	}
	if res.Outcome != vsched.Completed {
		v.Inconclusive = "not-completed:" + w.Phase
		if w.Phase == "run" || w.Phase == "close" {
			// every call of the harness carries a context: a read / the stream Close that never returns has not
			// returned the item (C03) / not sent the last acknowledgements before the close request (C04)
			where := ""
			for _, t := range res.Alive {
				if t.ID == 0 || t.Name == "h:reader" {
					where = kit.SiteFunc(t.Site) + "/" + t.Op
				}
			}
			v.Inconclusive = ""
			v.Fail(propID+".blocked", fmt.Sprintf("%s@%s/cuts=%d", w.Phase, where, w.cuts), "the scenario never finished (phase %s, %d cuts): parked at %s", w.Phase, w.cuts, where)
		}
		return res, v
	}
	dev := res.Used[vsched.BudP] > 0
	if propID == "C04" {
		w.oracleC04(&v, dev)
	} else {
		w.oracleC03(&v, dev)
	}
	return res, v
}

func (w *world) oracleC03(v *vlib.Verdict, dev bool) {
	if w.cuts > 0 {
		v.Inconclusive = "link failure (C03 assumes a consumer that keeps up on a live connection)"
		return
	}
	// per kind: the i-th read corresponds to the i-th sent item of that kind
	var sc, sm []sent
	for _, s := range w.sent {
		if s.kind == "chunk" {
			sc = append(sc, s)
		} else {
			sm = append(sm, s)
		}
	}
	var rc, rm []readRes
	for _, r := range w.reads {
		if r.kind == "chunk" {
			rc = append(rc, r)
		} else {
			rm = append(rm, r)
		}
	}
	outcome := []string{}
	for i, s := range sc {
		if i >= len(rc) {
			break
		}
		r := rc[i]
		switch {
		case s.valid && r.err != nil && w.p.ReadInClose && i == 1 && kit.ErrKind(r.err) == "stream-closed":
			// the read overlapped Close: a stream that is being closed may refuse it
			outcome = append(outcome, "C")
		case s.valid && r.err != nil:
			v.Fail("C03.deliver", fmt.Sprintf("valid-chunk-error/%s/dev=%v", kit.ErrKind(r.err), dev), "chunk #%d (seq %d, valid) was not returned: %v", i, s.seq, r.err)
			outcome = append(outcome, "E")
		case !s.valid && r.err == nil:
			v.Fail("C03.invalid", "unknown-alias-delivered", "chunk #%d (seq %d) uses an alias the client never announced but was delivered as %v from %+v", i, s.seq, r.groups, r.up)
			outcome = append(outcome, "X")
		case !s.valid:
			outcome = append(outcome, "e")
		default:
			want := upInfo(s.up)
			if r.seq != s.seq {
				v.Fail("C03.content", "sequence-number", "chunk #%d: read sequence number %d, broker sent %d (order or duplication)", i, r.seq, s.seq)
			}
			if r.up == nil || *r.up != *want {
				v.Fail("C03.resolve", "upstream-info", "chunk seq %d: upstream info %+v, broker meant %+v", s.seq, r.up, want)
			}
			if strings.Join(r.groups, "|") != strings.Join(s.groups, "|") {
				v.Fail("C03.resolve", "data-id-or-points", "chunk seq %d: read %v, broker meant %v", s.seq, r.groups, s.groups)
			}
			outcome = append(outcome, "k")
		}
	}
	if len(rc) != len(sc) {
		v.Fail("C03.count", "reads", "%d chunk reads for %d chunks", len(rc), len(sc))
	}
	// metadata: once each, in order per source node, one ack per read with the metadata's request id
	perNodeSent, perNodeRead := map[string][]string{}, map[string][]string{}
	for _, s := range sm {
		perNodeSent[s.node] = append(perNodeSent[s.node], s.name)
	}
	for _, r := range rm {
		if r.err != nil {
			v.Fail("C03.meta", "read-error/"+kit.ErrKind(r.err), "metadata read failed: %v", r.err)
			continue
		}
		perNodeRead[r.node] = append(perNodeRead[r.node], r.name)
	}
	for n, s := range perNodeSent {
		if strings.Join(s, ",") != strings.Join(perNodeRead[n], ",") {
			v.Fail("C03.meta", "order-or-count", "source node %s: read %v, broker sent %v", n, perNodeRead[n], s)
		}
	}
	if len(sm) > 0 {
		var wantReq, gotReq []string
		for _, s := range sm {
			wantReq = append(wantReq, fmt.Sprint(s.metaReq))
		}
		for _, a := range w.B.Downs[0].MetaAcks {
			gotReq = append(gotReq, fmt.Sprint(uint32(a.RequestID)))
		}
		sort.Strings(wantReq)
		sort.Strings(gotReq)
		if strings.Join(wantReq, ",") != strings.Join(gotReq, ",") {
			v.Fail("C03.meta", "acks", "metadata acks carry request ids %v, the metadata had %v", gotReq, wantReq)
		}
	}
	v.Outcome = strings.Join(outcome, "") + fmt.Sprintf(" m=%d", len(rm))
}

func (w *world) oracleC04(v *vlib.Verdict, dev bool) {
	d := w.B.Downs[0]
	// consumed chunks
	type key struct {
		up  uuid.UUID
		seq uint32
	}
	consumed := map[key]int{}
	var sc []sent
	for _, s := range w.sent {
		if s.kind == "chunk" {
			sc = append(sc, s)
		}
	}
	i := 0
	for _, r := range w.reads {
		if r.kind != "chunk" {
			continue
		}
		if r.err == nil && r.up != nil {
			consumed[key{r.up.StreamID, r.seq}]++
		}
		i++
	}
	acked := map[key]int{}
	lastAckID := uint32(0)
	upAlias := map[uint32]uuid.UUID{}
	upRev := map[uuid.UUID][]uint32{}
	idAlias := map[uint32]message.DataID{}
	idRev := map[message.DataID][]uint32{}
	for a, id := range d.Open.DataIDAliases {
		idAlias[a] = *id
		idRev[*id] = append(idRev[*id], a)
	}
	for n, ack := range d.Acks {
		// what the broker received: contiguous from 1 on a link that never failed; an ack that was in flight
		// when the link was cut is lost with it (the client still numbered it), so after a cut only "strictly
		// increasing" can be demanded of the received sequence
		if ack.AckID != lastAckID+1 && (w.cuts == 0 || ack.AckID <= lastAckID) {
			v.Fail("C04.ackid", fmt.Sprintf("not-increasing-from-1/resumed=%v", len(d.Resumes) > 0), "ack #%d carries ack id %d after %d", n, ack.AckID, lastAckID)
		}
		lastAckID = ack.AckID
		for _, r := range ack.Results {
			acked[key{r.StreamIDOfUpstream, r.SequenceNumberInUpstream}]++
		}
		for a, u := range ack.UpstreamAliases {
			if old, ok := upAlias[a]; ok && old != u.StreamID {
				v.Fail("C04.alias", "upstream-alias-reused", "upstream alias %d announced for %v and for %v", a, old, u.StreamID)
			}
			if _, ok := upAlias[a]; ok {
				v.Fail("C04.alias", "upstream-announced-twice", "upstream alias %d announced again", a)
			}
			upAlias[a] = u.StreamID
			upRev[u.StreamID] = append(upRev[u.StreamID], a)
		}
		for a, id := range ack.DataIDAliases {
			if old, ok := idAlias[a]; ok && old != *id {
				v.Fail("C04.alias", "data-id-alias-reused", "data-id alias %d given to %v and to %v", a, old, *id)
			}
			if _, ok := idAlias[a]; ok {
				v.Fail("C04.alias", "data-id-announced-twice", "data-id alias %d announced again", a)
			}
			idAlias[a] = *id
			idRev[*id] = append(idRev[*id], a)
		}
	}
	for u, as := range upRev {
		if len(as) > 1 {
			v.Fail("C04.alias", "upstream-two-aliases", "upstream %v received %d aliases %v", u, len(as), as)
		}
	}
	for id, as := range idRev {
		if len(as) > 1 {
			v.Fail("C04.alias", "data-id-two-aliases", "data id %v received %d aliases %v", id, len(as), as)
		}
	}
	if w.closeErr == nil && w.cuts == 0 {
		for k, n := range consumed {
			if acked[k] != n {
				kind := "missing"
				if acked[k] > n {
					kind = "duplicated"
				}
				v.Fail("C04.results", fmt.Sprintf("%s/dev=%v", kind, dev), "chunk (upstream %v, seq %d) was returned by %d reads but acknowledged %d times", k.up, k.seq, n, acked[k])
			}
		}
		for k, n := range acked {
			if consumed[k] == 0 {
				v.Fail("C04.results", "never-consumed", "ack for chunk (upstream %v, seq %d) x%d that no read returned", k.up, k.seq, n)
			}
		}
		// every full-form upstream / data id of a consumed chunk announced exactly once
		seenFullUp, seenFullID := map[uuid.UUID]bool{}, map[message.DataID]bool{}
		ri := 0
		for _, r := range w.reads {
			if r.kind != "chunk" {
				continue
			}
			if ri < len(sc) && r.err == nil {
				sh := shapes[w.chunkName(ri)]
				if !sh.UpAlias {
					seenFullUp[upInfo(sh.Up).StreamID] = true
				}
				for g, idn := range sh.IDs {
					if !sh.IDAlias[g] {
						seenFullID[dataID(idn)] = true
					}
				}
			}
			ri++
		}
		for u := range seenFullUp {
			if len(upRev[u]) == 0 {
				v.Fail("C04.announce", "upstream-never-announced", "upstream %v was consumed in full form but never announced under an alias", u)
			}
		}
		for id := range seenFullID {
			if len(idRev[id]) == 0 {
				v.Fail("C04.announce", "data-id-never-announced", "data id %v was consumed in full form but never announced under an alias", id)
			}
		}
		if d.Close == nil {
			v.Fail("C04.close", "no-close-request", "Close returned nil without a close request")
		}
	}
	// the harness cuts the link only at quiescence (nothing in flight): an acknowledgement that was still
	// buffered, or whose write failed on the dead link, is owed after the resume - the client knows it was not sent
	// (a stream that the application closes before its resume has completed cannot acknowledge anything any more)
	if w.closeErr == nil && w.cuts > 0 && len(d.Resumes) > 0 && w.resumedAtClose > 0 {
		for k, n := range consumed {
			switch {
			case acked[k] == 0:
				v.Fail("C04.results", fmt.Sprintf("lost-with-outage/dev=%v", dev), "chunk (upstream %v, seq %d) was returned by a read, the link was cut at quiescence and the stream resumed, but its acknowledgement never reached the broker", k.up, k.seq)
			case acked[k] > n:
				v.Fail("C04.results", fmt.Sprintf("duplicated-with-outage/dev=%v", dev), "chunk (upstream %v, seq %d) was returned by %d reads but acknowledged %d times across the resume", k.up, k.seq, n, acked[k])
			}
		}
	}
	// (independent of how the broker attributes it: on the wire, nothing of the stream follows its close request)
	closeSeen := map[int]bool{}
	for _, e := range w.B.Events {
		if e.Dir != "rx" {
			continue
		}
		switch e.Msg.(type) {
		case *message.DownstreamCloseRequest:
			closeSeen[e.Conn] = true
		case *message.DownstreamChunkAck:
			if closeSeen[e.Conn] {
				v.Fail("C04.close", fmt.Sprintf("ack-after-close-request/resumes=%d", min(len(d.Resumes), 1)), "a DownstreamChunkAck reached the broker after the DownstreamCloseRequest on incarnation %d", e.Conn)
			}
		}
	}
	for _, e := range w.B.Strays {
		if strings.Contains(e.Note, "ack after close") {
			v.Fail("C04.close", "ack-after-close-request", "a DownstreamChunkAck reached the broker after the DownstreamCloseRequest")
		}
	}
	v.Outcome = fmt.Sprintf("acks=%d results=%d ups=%d ids=%d", len(d.Acks), len(acked), len(upAlias), len(idAlias))
}

func (w *world) chunkName(i int) string {
	n := 0
	for _, s := range w.p.Seq {
		if s[0] == 'M' {
			continue
		}
		if n == i {
			return s
		}
		n++
	}
	return "a"
}

var _ context.Context

func main() {
	vlib.Main(&vlib.Harness{
		Property:    propID,
		Scenarios:   scenarios,
		Config:      config,
		Run:         run,
		Rule:        "mode E: broker chunk sequences (length <=3 quick, <=4 thorough) over 6-7 shapes {upstream U1|U2 in full form or by alias} x {1-2 groups, data ids D1|D2 in full form or by alias}; an alias is valid only if the broker learnt it from a DownstreamChunkAck it received or from the pre-registered list, otherwise the chunk is an invalid probe; QoS reliable/partial/unreliable(+side channel); per item: read now or deferred, ack-flush interval elapsed or not (choices); metadata from two source nodes interleaved; C04: oracle over all DownstreamChunkAcks of the history incl. one link failure with resume (thorough)",
		Assumptions: []string{"the consumer keeps up (every item is read; at most 4 items are outstanding, far below the documented 1024-item buffering)"},
	})
}
