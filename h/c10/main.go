// c10: Close is final (mode E). Operation histories before the close x close orders x
// repeated / concurrent Close, then every API method once more on the closed objects;
// nothing but Ping/Pong after Disconnect, no redial, handlers at most once, exact goroutine census.
package main

import (
	"context"
	"errors"
	"fmt"
	"sort"
	"strings"
	"time"

	iscperrors "github.com/aptpod/iscp-go/errors"
	"github.com/aptpod/iscp-go/internal/vcontext"
	"github.com/aptpod/iscp-go/internal/vh/kit"
	"github.com/aptpod/iscp-go/internal/vh/lib"
	"github.com/aptpod/iscp-go/internal/vh/sim"
	"github.com/aptpod/iscp-go/internal/vsched"
	"github.com/aptpod/iscp-go/iscp"
	"github.com/aptpod/iscp-go/message"
	"github.com/aptpod/iscp-go/transport"
)

type params struct {
	Streams string // none up down up+down
	Pending string // none read call write recvcall
	Failure string // none | cut (reconnect in progress when Close arrives) | cutresume (cut, resume not yet answered)
	Order   string // streams-first | conn-first | conn-only
	Conc    bool   // the first close is issued from two threads at once
	P       int
}

func (p params) name() string {
	return fmt.Sprintf("%s/%s/%s/%s/conc%v/P%d", p.Streams, p.Pending, p.Failure, p.Order, p.Conc, p.P)
}

func scenarios(tier string) []vlib.Scenario {
	var out []vlib.Scenario
	seen := map[string]bool{}
	add := func(p params) {
		if (p.Pending == "queued" && !strings.Contains(p.Streams, "down")) || (p.Pending == "read" && !strings.Contains(p.Streams, "down")) || (p.Pending == "write" && !strings.Contains(p.Streams, "up")) {
			return
		}
		if p.Streams == "none" && p.Order == "streams-first" {
			return
		}
		if !seen[p.name()] {
			seen[p.name()] = true
			out = append(out, vlib.Scenario{Name: p.name(), P: p})
		}
	}
	for _, s := range []string{"none", "up", "down", "up+down"} {
		for _, pe := range []string{"none", "read", "call", "write", "recvcall"} {
			for _, f := range []string{"none", "cut", "cutresume", "refused"} {
				for _, o := range []string{"streams-first", "conn-first", "conn-only"} {
					add(params{Streams: s, Pending: pe, Failure: f, Order: o})
				}
			}
		}
	}
	for _, s := range []string{"up", "down", "up+down"} {
		for _, o := range []string{"streams-first", "conn-first"} {
			add(params{Streams: s, Pending: "none", Failure: "none", Order: o, Conc: true, P: 1})
		}
	}
	add(params{Streams: "none", Pending: "call", Failure: "none", Order: "conn-only", Conc: true, P: 1})
	// items the broker delivered are still queued in the downstream when it is closed: later reads fail all the same
	for _, o := range []string{"streams-first", "conn-only"} {
		add(params{Streams: "down", Pending: "queued", Failure: "none", Order: o, P: 1})
	}
	// only the streams are closed (the connection stays up) and the broker answers their close requests with a failure
	// or not at all: the streams are closed all the same
	for _, st := range []string{"up", "down", "up+down"} {
		for _, f := range []string{"none", "closefail", "closesilent"} {
			add(params{Streams: st, Pending: "none", Failure: f, Order: "streams-only"})
		}
	}
	add(params{Streams: "up+down", Pending: "write", Failure: "closefail", Order: "streams-only", P: 1})
	// a point still buffered when the connection is closed: its last flush must not follow the Disconnect
	add(params{Streams: "up", Pending: "write", Failure: "none", Order: "conn-only", P: 2})
	// the peer answers the Disconnect with a burst of calls and call acks nobody will consume any more
	add(params{Streams: "none", Pending: "flood", Failure: "none", Order: "conn-only"})
	add(params{Streams: "none", Pending: "flood", Failure: "none", Order: "conn-only", P: 1})
	add(params{Streams: "up+down", Pending: "flood", Failure: "none", Order: "conn-first", P: 1})
	// incoming calls and replies still queued when the connection is closed: ReceiveCall / ReceiveReplyCall fail all the same
	add(params{Streams: "none", Pending: "queuedcalls", Failure: "none", Order: "conn-only"})
	add(params{Streams: "none", Pending: "queuedcalls", Failure: "none", Order: "conn-only", P: 1})
	// the resume is refused and the close request the library sends for the refused stream is never answered;
	// the application closes the streams meanwhile
	for _, st := range []string{"up", "down", "up+down"} {
		add(params{Streams: st, Pending: "none", Failure: "refused-noclose", Order: "streams-first"})
		add(params{Streams: st, Pending: "none", Failure: "refused-noclose", Order: "streams-first", P: 1})
	}
	add(params{Streams: "up+down", Pending: "none", Failure: "cut", Order: "conn-first", P: 1})
	// a call / a metadata request is issued at the very moment the connection is closed: it fails or it precedes the Disconnect
	for _, pe := range []string{"racecall", "racemeta"} {
		for pp := 0; pp <= 2; pp++ {
			add(params{Streams: "none", Pending: pe, Failure: "none", Order: "conn-only", P: pp})
		}
	}
	// the peer reads slowly (back pressure on the client's writes) at the moment of the close: a call, a metadata request
	// or a downstream acknowledgement whose write is already under way must fail or precede the Disconnect
	for _, pe := range []string{"heldcall", "heldmeta"} {
		for pp := 0; pp <= 2; pp++ {
			add(params{Streams: "none", Pending: pe, Failure: "none", Order: "conn-only", P: pp})
		}
	}
	for pp := 0; pp <= 2; pp++ {
		add(params{Streams: "down", Pending: "heldack", Failure: "none", Order: "conn-only", P: pp})
	}
	// Close arrives exactly while a redial is succeeding (the broker has just answered the connect request of the new incarnation)
	for _, st := range []string{"none", "up"} {
		for pp := 0; pp <= 2; pp++ {
			add(params{Streams: st, Pending: "none", Failure: "cutclose", Order: "conn-only", P: pp})
		}
	}
	if tier == "thorough" {
		add(params{Streams: "none", Pending: "racecall", Failure: "none", Order: "conn-only", P: 3})
		add(params{Streams: "none", Pending: "none", Failure: "cutclose", Order: "conn-only", P: 3})
		for _, s := range []string{"up", "down", "up+down"} {
			for _, pe := range []string{"none", "read", "call", "write"} {
				for _, f := range []string{"none", "cut"} {
					for _, o := range []string{"streams-first", "conn-first", "conn-only"} {
						add(params{Streams: s, Pending: pe, Failure: f, Order: o, P: 1})
						add(params{Streams: s, Pending: pe, Failure: f, Order: o, Conc: true, P: 1})
					}
				}
			}
		}
	}
	return out
}

func config(sc vlib.Scenario, tier string) vsched.Config {
	p := sc.P.(params)
	cfg := vsched.Config{Preempt: 1, Switch: 1, SelCase: 1, Stall: 1, Timer: -1, Horizon: 150 * time.Second, MaxSteps: 600000}
	cfg.Budget[vsched.BudP] = p.P
	cfg.Scope = func(site string) bool {
		if strings.HasPrefix(p.Pending, "race") && p.P >= 3 {
			// three deviations are affordable only around the write itself
			for _, s := range []string{"boundedWrite", "sendRequest.func", "iscp.(*Conn).close", "h:write:client"} {
				if strings.Contains(site, s) {
					return true
				}
			}
			return false
		}
		if strings.HasPrefix(p.Pending, "held") {
			for _, s := range []string{"boundedWrite", "sendRequest", "h:write", "h:close:client", "iscp.(*Conn).close", "wire.(*ClientConn).Close", "flushAck", "SendDownstreamDataPointsAck", "SendDisconnect"} {
				if strings.Contains(site, s) {
					return true
				}
			}
			return false
		}
		if strings.HasPrefix(p.Pending, "race") {
			for _, s := range []string{"(*Conn).call", "(*Conn).send", "(*Conn).SendMetadata", "boundedWrite", "sendRequest", "SendDisconnect", "SendUpstreamCall", "iscp.(*Conn).close", "wire.(*ClientConn).Close", "h:write:client"} {
				if strings.Contains(site, s) {
					return true
				}
			}
			return false
		}
		if p.Failure == "cutclose" {
			return strings.Contains(site, "iscp.(*Conn).reconnect") || strings.Contains(site, "iscp.(*Conn).close") || strings.Contains(site, "iscp.(*Conn).Close") || strings.Contains(site, "iscp.(*Conn).setRedialing") || strings.Contains(site, "iscp.(*Conn).redialState") || strings.Contains(site, "ConnectWithConfig.func")
		}
		if p.Pending == "write" && p.Order == "conn-only" && p.P >= 2 {
			// the last flush of a stream that is closed by the connection versus the Disconnect
			for _, s := range []string{"flushLoop", "(*Upstream).flush", "sendChunkAndWaitAck", "SendUpstreamChunk", "iscp.(*Conn).close", "wire.(*ClientConn).Close", "SendDisconnect", "h:write:client"} {
				if strings.Contains(site, s) {
					return true
				}
			}
			return false
		}
		for _, s := range []string{".Close", ".close", "closeWithError", "iscp.(*Conn).run", "iscp.(*Conn).reconnect", "ConnectWithConfig.func", "eventDispatcher", "OpenUpstream.func", "OpenDownstream.func", "(*Upstream).run", "(*Downstream).run", "flushAckLoop", "iscp.(*connStatus)", "(*Downstream).ReadDataPoints", "(*Downstream).ReadMetadata", "(*Upstream).resume", "(*Downstream).resume", "(*Conn).ReceiveCall", "(*Conn).ReceiveReplyCall"} {
			if strings.Contains(site, s) {
				return true
			}
		}
		return false
	}
	return cfg
}

type post struct {
	name string
	err  error
	dt   time.Duration
	done bool
	nilOK bool
}

type world struct {
	closerStarted, closerDone bool
	liveAfterClose            int // 1 + index of an incarnation that is still connected (no Disconnect received, link up) after Conn.Close returned
	closeReqs int
	kit.World
	p          params
	posts      []*post
	pendErr    error
	pendDone   bool
	pendKind   string
	closeErrs  []string
	disconnAt  int // index into B.Events of the Disconnect
	dialsAtClose int
	accept     bool
}

func (w *world) script() *sim.Script {
	s := &sim.Script{}
	w.accept = true
	s.AcceptDial = func(n int, cfg transport.DialConfig) (bool, time.Duration) {
		if n == 0 {
			return true, 0
		}
		if w.p.Failure == "cut" {
			return false, 0 // the redial keeps failing: reconnect in progress when Close arrives
		}
		return true, 0
	}
	if w.p.Failure == "closefail" {
		s.UpCloseResult = func(c *sim.BConn, u *sim.UpStream) message.ResultCode { return message.ResultCodeStreamNotFound }
	}
	if w.p.Failure == "refused-noclose" {
		s.UpResumeResult = func(c *sim.BConn, u *sim.UpStream, attempt int) message.ResultCode { return message.ResultCodeStreamNotFound }
		s.DownResumeResult = func(c *sim.BConn, d *sim.DownStream, attempt int) message.ResultCode { return message.ResultCodeStreamNotFound }
	}
	if w.p.Failure == "refused" {
		// the broker refuses the resume of every stream and also answers their close requests with a failure
		s.UpResumeResult = func(c *sim.BConn, u *sim.UpStream, attempt int) message.ResultCode { return message.ResultCodeStreamNotFound }
		s.DownResumeResult = func(c *sim.BConn, d *sim.DownStream, attempt int) message.ResultCode { return message.ResultCodeStreamNotFound }
		s.UpCloseResult = func(c *sim.BConn, u *sim.UpStream) message.ResultCode {
			if c.Idx > 0 {
				return message.ResultCodeStreamNotFound
			}
			return message.ResultCodeSucceeded
		}
	}
	if w.p.Failure == "cutclose" {
		s.AfterSend = func(b *sim.Broker, c *sim.BConn, m message.Message) {
			if _, ok := m.(*message.ConnectResponse); ok && c.Idx > 0 && !w.closerStarted {
				w.closerStarted = true
				vsched.Go("h:closer-at-redial", func() {
					ctx, cancel := kit.Ctx(8 * time.Second)
					err := w.Conn.Close(ctx)
					cancel()
					w.closeErrs = append(w.closeErrs, fmt.Sprintf("conn#0=%s", kit.ErrKind(err)))
					w.closerDone = true
				})
			}
		}
	}
	s.OnMessage = func(b *sim.Broker, c *sim.BConn, m message.Message) bool {
		if w.p.Failure == "closesilent" || (w.p.Failure == "closefail" && strings.Contains(w.p.Streams, "down")) {
			switch r := m.(type) {
			case *message.UpstreamCloseRequest:
				if w.p.Failure == "closesilent" {
					return true // never answered
				}
			case *message.DownstreamCloseRequest:
				if w.p.Failure == "closesilent" {
					return true
				}
				b.Send(c, &message.DownstreamCloseResponse{RequestID: r.RequestID, ResultCode: message.ResultCodeStreamNotFound, ResultString: "refused"})
				return true
			}
		}
		if w.p.Failure == "refused-noclose" && c.Idx > 0 {
			switch m.(type) {
			case *message.UpstreamCloseRequest, *message.DownstreamCloseRequest:
				w.closeReqs++
				if w.closeReqs <= len(w.Ups)+len(w.Downs) {
					return true // the library's own close request for the refused stream: never answered
				}
			}
		}
		if w.p.Failure == "cutresume" && c.Idx > 0 {
			switch m.(type) {
			case *message.UpstreamResumeRequest, *message.DownstreamResumeRequest:
				return true // never answered: half-finished resume
			}
		}
		if _, ok := m.(*message.Disconnect); ok && w.p.Pending == "flood" {
			for i := 0; i < 12; i++ {
				b.Send(c, &message.DownstreamCall{CallID: fmt.Sprintf("flood-%d", i), SourceNodeID: "peer", Name: "n", Type: "t"})
				b.Send(c, &message.UpstreamCallAck{CallID: fmt.Sprintf("nobody-%d", i), ResultCode: message.ResultCodeSucceeded})
			}
			return false
		}
		if _, ok := m.(*message.UpstreamCall); ok && w.p.Pending == "call" {
			// ack the call but never send the reply: the caller stays pending
			return false
		}
		return false
	}
	return s
}

func (w *world) try(name string, nilOK bool, f func(ctx context.Context) error) {
	p := &post{name: name, nilOK: nilOK}
	w.posts = append(w.posts, p)
	ctx, cancel := kit.Ctx(3 * time.Second)
	t0 := vsched.Now()
	p.err = f(ctx)
	cancel()
	p.dt = vsched.Now() - t0
	p.done = true
}

// postStreams calls every stream-level API on the closed streams.
func (w *world) postStreams() {
	for _, u := range w.Ups {
		u := u
		w.try("Upstream.WriteDataPoints", false, func(ctx context.Context) error { return u.Write(ctx, kit.IDA, "late") })
		w.try("Upstream.Flush", false, func(ctx context.Context) error { return u.U.Flush(ctx) })
		w.try("Upstream.Close", true, func(ctx context.Context) error { return u.U.Close(ctx) })
		u.U.State()
	}
	for _, d := range w.Downs {
		d := d
		w.try("Downstream.ReadDataPoints", false, func(ctx context.Context) error { _, err := d.D.ReadDataPoints(ctx); return err })
		w.try("Downstream.ReadMetadata", false, func(ctx context.Context) error { _, err := d.D.ReadMetadata(ctx); return err })
		w.try("Downstream.Close", true, func(ctx context.Context) error { return d.D.Close(ctx) })
		d.D.State()
	}
}

func (w *world) closeStreams(tag string) {
	for _, u := range w.Ups {
		u := u
		w.closeOne(tag+":"+u.Name, func(ctx context.Context) error { return u.U.Close(ctx) })
	}
	for _, d := range w.Downs {
		d := d
		w.closeOne(tag+":"+d.Name, func(ctx context.Context) error { return d.D.Close(ctx) })
	}
}

func (w *world) closeOne(name string, f func(ctx context.Context) error) {
	n := 1
	if w.p.Conc {
		n = 2
	}
	var wg vsched.WaitGroup
	for i := 0; i < n; i++ {
		wg.Add(1)
		i := i
		vsched.Go("h:closer", func() {
			defer wg.Done()
			ctx, cancel := kit.Ctx(8 * time.Second)
			err := f(ctx)
			cancel()
			w.closeErrs = append(w.closeErrs, fmt.Sprintf("%s#%d=%s", name, i, kit.ErrKind(err)))
		})
	}
	wg.Wait()
}

func (w *world) main() {
	if err := w.Connect(w.script()); err != nil {
		return
	}
	sctx, scancel := kit.Ctx(20 * time.Second)
	defer scancel()
	w.Phase = "setup"
	if strings.Contains(w.p.Streams, "up") {
		if _, err := w.OpenUp(sctx, "u0", iscp.WithUpstreamFlushPolicyNone(), iscp.WithUpstreamQoS(message.QoSReliable), iscp.WithUpstreamCloseTimeout(2*time.Second)); err != nil {
			w.Phase = "setup-failed"
			return
		}
	}
	if strings.Contains(w.p.Streams, "down") {
		if _, err := w.OpenDown(sctx, "d0", kit.Filter("src")); err != nil {
			w.Phase = "setup-failed"
			return
		}
	}
	// pending operation
	pctx, pcancel := kit.Ctx(100 * time.Second)
	defer pcancel()
	switch w.p.Pending {
	case "read":
		w.pendKind = "ReadDataPoints"
		vsched.Go("h:pending", func() { _, w.pendErr = w.Downs[0].D.ReadDataPoints(pctx); w.pendDone = true })
	case "call":
		w.pendKind = "SendCallAndWaitReplayCall"
		vsched.Go("h:pending", func() {
			_, w.pendErr = w.Conn.SendCallAndWaitReplayCall(pctx, &iscp.UpstreamCall{DestinationNodeID: "d", Name: "n", Type: "t"})
			w.pendDone = true
		})
	case "recvcall":
		w.pendKind = "ReceiveCall"
		vsched.Go("h:pending", func() { _, w.pendErr = w.Conn.ReceiveCall(pctx); w.pendDone = true })
	case "write":
		w.Ups[0].Write(sctx, kit.IDA, "unflushed")
	case "queuedcalls":
		c := w.B.Live()
		for i := 0; i < 2; i++ {
			w.B.Send(c, &message.DownstreamCall{CallID: fmt.Sprintf("q-%d", i), SourceNodeID: "peer", Name: "n", Type: "t"})
			w.B.Send(c, &message.DownstreamCall{CallID: fmt.Sprintf("qr-%d", i), RequestCallID: fmt.Sprintf("nobody-%d", i), SourceNodeID: "peer", Name: "n", Type: "t"})
		}
	case "heldack":
		// one chunk consumed, its acknowledgement still waiting for the next flush
		c := w.B.Live()
		w.B.Send(c, &message.DownstreamChunk{
			StreamIDAlias:   w.B.Downs[0].Alias,
			UpstreamOrAlias: &message.UpstreamInfo{SessionID: "s", SourceNodeID: "src", StreamID: sim.StreamUUID('x', 1)},
			StreamChunk: &message.StreamChunk{SequenceNumber: 1, DataPointGroups: []*message.DataPointGroup{
				{DataIDOrAlias: &message.DataID{Name: "a", Type: "t"}, DataPoints: []*message.DataPoint{{ElapsedTime: 1, Payload: []byte("consumed")}}},
			}},
		})
		if _, err := w.Downs[0].D.ReadDataPoints(sctx); err != nil {
			w.Phase = "setup-failed"
			return
		}
	case "queued":
		c := w.B.Live()
		for i := 0; i < 2; i++ {
			w.B.Send(c, &message.DownstreamChunk{
				StreamIDAlias:   w.B.Downs[0].Alias,
				UpstreamOrAlias: &message.UpstreamInfo{SessionID: "s", SourceNodeID: "src", StreamID: sim.StreamUUID('x', 1)},
				StreamChunk: &message.StreamChunk{SequenceNumber: uint32(i + 1), DataPointGroups: []*message.DataPointGroup{
					{DataIDOrAlias: &message.DataID{Name: "a", Type: "t"}, DataPoints: []*message.DataPoint{{ElapsedTime: 1, Payload: []byte("queued")}}},
				}},
			})
			w.B.Send(c, &message.DownstreamMetadata{RequestID: message.RequestID(7001 + 2*i), StreamIDAlias: w.B.Downs[0].Alias, SourceNodeID: "src", Metadata: &message.BaseTime{Name: "queued"}})
		}
	}
	vsched.Quiesce()
	w.Phase = "failure"
	if w.p.Failure != "none" && w.p.Failure != "closefail" && w.p.Failure != "closesilent" {
		w.B.Cut(w.B.Live())
		if w.p.Failure == "cutclose" {
			w.Phase = "closing"
			vsched.WaitUntil("closer-at-redial-done", func() bool { return w.closerDone })
		} else {
			vsched.Sleep(4*time.Second, "h:outage") // detected by keep-alive, reconnect (and resume) under way
		}
	}
	w.Phase = "closing"
	bg := vcontext.Background()
	if strings.HasPrefix(w.p.Pending, "held") {
		w.pendKind = ""
		link := w.B.Live().Link
		link.HoldClientWrites = true
		if w.p.Pending != "heldack" {
			vsched.Go("h:racer", func() {
				rctx, rcancel := kit.Ctx(5 * time.Second)
				defer rcancel()
				if w.p.Pending == "heldcall" {
					w.Conn.SendCall(rctx, &iscp.UpstreamCall{DestinationNodeID: "d", Name: "racer", Type: "t"})
				} else {
					w.Conn.SendMetadata(rctx, &message.BaseTime{SessionID: "s", Name: "racer"})
				}
			})
			vsched.Quiesce() // its write is parked on the slow peer
		}
		vsched.Go("h:releaser", func() {
			vsched.Quiesce() // the Disconnect is parked as well: the peer reads again
			link.HoldClientWrites = false
		})
	}
	if strings.HasPrefix(w.p.Pending, "race") {
		w.pendKind = ""
		vsched.Go("h:racer", func() {
			rctx, rcancel := kit.Ctx(5 * time.Second)
			defer rcancel()
			if w.p.Pending == "racecall" {
				w.Conn.SendCall(rctx, &iscp.UpstreamCall{DestinationNodeID: "d", Name: "racer", Type: "t"})
			} else {
				w.Conn.SendMetadata(rctx, &message.BaseTime{SessionID: "s", Name: "racer"})
			}
		})
	}
	order := w.p.Order
	if w.p.Failure == "cutclose" {
		order = "done-already"
	}
	switch order {
	case "streams-first":
		w.closeStreams("first")
		w.closeOne("conn", func(ctx context.Context) error { return w.Conn.Close(ctx) })
	case "conn-first":
		w.closeOne("conn", func(ctx context.Context) error { return w.Conn.Close(ctx) })
		w.closeStreams("after-conn")
	case "conn-only":
		w.closeOne("conn", func(ctx context.Context) error { return w.Conn.Close(ctx) })
	case "streams-only":
		w.closeStreams("only")
		w.Phase = "post-streams"
		w.postStreams()
		w.Phase = "closing"
		w.closeOne("conn", func(ctx context.Context) error { return w.Conn.Close(ctx) })
	}
	w.dialsAtClose = w.B.Dials
	if w.p.Failure == "cutclose" {
		// (only here: letting the client settle before the calls on the closed objects would hide a stream that is
		// closed some time after Conn.Close returned)
		vsched.Quiesce()
		if l := w.B.Live(); l != nil && l.Connect != nil && l.Disconnect == nil {
			w.liveAfterClose = l.Idx + 1
		}
	}
	w.Phase = "post"
	// every API once more on the closed objects
	w.postStreams()
	w.try("Conn.OpenUpstream", false, func(ctx context.Context) error { _, err := w.Conn.OpenUpstream(ctx, "late"); return err })
	w.try("Conn.OpenDownstream", false, func(ctx context.Context) error { _, err := w.Conn.OpenDownstream(ctx, kit.Filter("x")); return err })
	w.try("Conn.SendMetadata", false, func(ctx context.Context) error { return w.Conn.SendMetadata(ctx, &message.BaseTime{Name: "late"}) })
	w.try("Conn.SendCall", false, func(ctx context.Context) error {
		_, err := w.Conn.SendCall(ctx, &iscp.UpstreamCall{DestinationNodeID: "d", Name: "late"})
		return err
	})
	w.try("Conn.SendReplyCall", false, func(ctx context.Context) error {
		_, err := w.Conn.SendReplyCall(ctx, &iscp.UpstreamReplyCall{RequestCallID: "r", DestinationNodeID: "d", Name: "late"})
		return err
	})
	w.try("Conn.SendCallAndWaitReplayCall", false, func(ctx context.Context) error {
		_, err := w.Conn.SendCallAndWaitReplayCall(ctx, &iscp.UpstreamCall{DestinationNodeID: "d", Name: "late"})
		return err
	})
	w.try("Conn.ReceiveCall", false, func(ctx context.Context) error { _, err := w.Conn.ReceiveCall(ctx); return err })
	w.try("Conn.ReceiveReplyCall", false, func(ctx context.Context) error { _, err := w.Conn.ReceiveReplyCall(ctx); return err })
	w.try("Conn.Close", true, func(ctx context.Context) error { return w.Conn.Close(ctx) })
	_ = bg
	w.Phase = "drain"
	// the peer side goes away too; then nothing of the library may survive
	for _, c := range w.B.Conns {
		w.B.CloseConn(c)
	}
	w.B.Stop()
	vsched.Sleep(60*time.Second, "h:census")
	vsched.Quiesce()
	w.Phase = "done"
}

func run(sc vlib.Scenario, cfg vsched.Config) (*vsched.Result, vlib.Verdict) {
	w := &world{p: sc.P.(params)}
	res := vsched.Run(cfg, w.main)
	var v vlib.Verdict
	dev := res.Used[vsched.BudP] > 0
	if res.Outcome == vsched.Panicked {
		v.Fail("C10.panic", res.Panic.Site, "library panic: %s", res.Panic.Value)
		return res, v
	}
	if w.ConnErr != nil || w.Phase == "setup" || w.Phase == "setup-failed" {
		v.Inconclusive = "setup failed"
		return res, v
	}
	if res.Outcome != vsched.Completed {
		where, op := "", ""
		for _, t := range res.Alive {
			if t.ID == 0 || (w.Phase == "closing" && t.Name == "h:closer") {
				where, op = kit.SiteFunc(t.Site), t.Op
			}
		}
		switch w.Phase {
		case "closing":
			v.Fail("C10.close-blocks", fmt.Sprintf("%s/%s/%s@%s/%s/dev=%v", w.p.Failure, w.p.Order, lastClose(w), where, op, dev), "a Close call never returned (phase closing, done so far %v); parked at %s (%s)", w.closeErrs, where, op)
		case "post":
			name := "?"
			for _, p := range w.posts {
				if !p.done {
					name = p.name
				}
			}
			v.Fail("C10.post-blocks", fmt.Sprintf("%s/%s@%s/%s", name, w.p.Failure, where, op), "%s on the closed object never returned; parked at %s (%s)", name, where, op)
		default:
			v.Inconclusive = "not-completed:" + w.Phase
		}
		return res, v
	}
	connClosed := true
	for _, p := range w.posts {
		if !p.done {
			continue
		}
		streamLevel := strings.HasPrefix(p.name, "Upstream.") || strings.HasPrefix(p.name, "Downstream.")
		if p.err == nil {
			if !p.nilOK {
				v.Fail("C10.post-nil", fmt.Sprintf("%s/%s/dev=%v", p.name, w.p.Order, dev), "%s on a closed object returned nil (order %s)", p.name, w.p.Order)
			}
			continue
		}
		if !errors.Is(p.err, iscperrors.ErrISCP) {
			v.Fail("C10.post-error", fmt.Sprintf("%s/%s/%s", p.name, kit.ErrKind(p.err), w.p.Order), "%s on a closed object returned %q, which is not a library error (took %v)", p.name, p.err, p.dt)
			continue
		}
		if p.dt >= 3*time.Second {
			v.Fail("C10.post-slow", p.name, "%s on a closed object took %v", p.name, p.dt)
		}
		if !streamLevel && connClosed && !p.nilOK && !errors.Is(p.err, iscperrors.ErrConnectionClosed) {
			v.Fail("C10.post-sentinel", p.name+"/"+kit.ErrKind(p.err), "%s on a closed connection returned %q instead of the connection-closed error", p.name, p.err)
		}
	}
	// the pending operation must have been released by the close
	if w.pendKind != "" {
		if !w.pendDone {
			v.Fail("C10.pending", w.pendKind+"/still-blocked/"+w.p.Order, "%s pending at the time of the close was never released", w.pendKind)
		} else if w.pendErr == nil {
			v.Fail("C10.pending", w.pendKind+"/nil", "%s pending at the time of the close returned nil", w.pendKind)
		} else if !errors.Is(w.pendErr, iscperrors.ErrISCP) {
			v.Fail("C10.pending", w.pendKind+"/"+kit.ErrKind(w.pendErr)+"/"+w.p.Order, "%s pending at the time of the close returned %q, not a library error", w.pendKind, w.pendErr)
		}
	}
	// silence after Disconnect, no redial
	for _, c := range w.B.Conns {
		seen := false
		for _, e := range w.B.Events {
			if e.Conn != c.Idx || e.Dir != "rx" {
				continue
			}
			if _, ok := e.Msg.(*message.Disconnect); ok {
				seen = true
				continue
			}
			if !seen {
				continue
			}
			switch e.Msg.(type) {
			case *message.Ping, *message.Pong:
			default:
				v.Fail("C10.after-disconnect", kit.MsgName(e.Msg)+fmt.Sprintf("/dev=%v", dev), "%s reached the broker after the Disconnect on incarnation %d", kit.MsgName(e.Msg), c.Idx)
			}
		}
	}
	// what the client still wrote after the broker had read the Disconnect and stopped reading
	for _, c := range w.B.Conns {
		if c.Disconnect == nil {
			continue
		}
		for _, m := range c.UnreadFromClient() {
			switch m.(type) {
			case *message.Ping, *message.Pong:
			default:
				v.Fail("C10.after-disconnect", kit.MsgName(m)+fmt.Sprintf("/unread/dev=%v", dev), "%s was written on incarnation %d after the Disconnect the broker had already read", kit.MsgName(m), c.Idx)
			}
		}
	}
	if w.liveAfterClose > 0 {
		v.Fail("C10.left-open", fmt.Sprintf("%s/dev=%v", w.p.Failure, dev), "Conn.Close returned (%v) but incarnation %d is still connected: no Disconnect was sent and the link was not closed", w.closeErrs, w.liveAfterClose-1)
	}
	if w.B.Dials > w.dialsAtClose {
		v.Fail("C10.redial", w.p.Failure, "the client dialled again (%d -> %d attempts) after Conn.Close returned", w.dialsAtClose, w.B.Dials)
	}
	// handlers at most once
	for _, u := range w.Ups {
		if len(u.Closed) > 1 {
			v.Fail("C10.handler", "upstream-closed-twice", "upstream closed handler fired %d times", len(u.Closed))
		}
	}
	for _, d := range w.Downs {
		if len(d.Closed) > 1 {
			v.Fail("C10.handler", "downstream-closed-twice", "downstream closed handler fired %d times", len(d.Closed))
		}
	}
	// census
	leaks := map[string]int{}
	for _, t := range res.Alive {
		if t.Lib {
			leaks[shortName(t.Name)+" parked in "+t.Op+"@"+kit.SiteFunc(t.Site)]++
		}
	}
	keys := make([]string, 0, len(leaks))
	for k := range leaks {
		keys = append(keys, k)
	}
	sort.Strings(keys)
	for _, k := range keys {
		v.Fail("C10.leak", fmt.Sprintf("%s/dev=%v", k, dev), "library goroutine left behind after both sides closed: %s (x%d); history %s", k, leaks[k], w.p.name())
	}
	sort.Strings(w.closeErrs)
	v.Outcome = fmt.Sprintf("closes=%v pend=%s", w.closeErrs, kit.ErrKind(w.pendErr))
	return res, v
}

func lastClose(w *world) string {
	if len(w.closeErrs) == 0 {
		return "first-close"
	}
	return "after:" + strings.SplitN(w.closeErrs[len(w.closeErrs)-1], "#", 2)[0]
}

func shortName(n string) string {
	if i := strings.Index(n, "@"); i > 0 {
		return n[:i]
	}
	return n
}

func main() {
	vlib.Main(&vlib.Harness{
		Property:  "C10",
		Scenarios: scenarios,
		Config:    config,
		Run:       run,
		Rule:      "mode E: histories {no stream, up, down, up+down} x pending operation {none, ReadDataPoints, SendCallAndWaitReplayCall, ReceiveCall, unflushed write} x failure {none, link cut with redials refused (reconnect in progress), cut with unanswered resume} x close order {streams first, connection first, connection only} x repeated / concurrent Close; afterwards every API method once more on each closed object; exact goroutine census after the broker side closed and 60 s of virtual time; schedule deviations <= P around Close/run/dispatcher code",
		Assumptions: []string{
			"'promptly' = before the 3 s context of the post-close call ends, on the virtual clock",
			"the census counts every managed thread spawned by instrumented library code (spawn site and park site are known exactly to the scheduler)",
		},
	})
}
