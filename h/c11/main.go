// c11: every message survives encode/decode in both encodings, field by field (mode I).
//
// Bounded-exhaustive: message types, oneof variants and enumeration constants are discovered from
// the sources of <repo>/message (and checked against the generator's compile-time registry), field
// paths are found by reflection, every field path is varied over its small domain one at a time
// (quick) and in all compatible pairs within a message (thorough). The oracle is identity up to the
// documented canonical form (gen.Canon, written without the converter), equality of the two
// decodings, byte accounting of the codecs and of encoding.Transport, and totality of the
// enumeration mappings judged by enumerator NAME.
package main

import (
	"bytes"
	"encoding/json"
	"flag"
	"fmt"
	"io"
	"os"
	"os/exec"
	"reflect"
	"runtime"
	"sort"
	"strings"
	"sync"
	"sync/atomic"
	"time"

	"github.com/aptpod/iscp-go/encoding"
	"github.com/aptpod/iscp-go/internal/vh/c11/gen"
	"github.com/aptpod/iscp-go/internal/vh/lib"
	"github.com/aptpod/iscp-go/message"
)

type varRef struct {
	Path  string `json:"path"`
	Label string `json:"label"`
}

type replayCase struct {
	Family string   `json:"family"` // vars | wire-enum | grammar
	Msg    string   `json:"msg,omitempty"`
	Vars   []varRef `json:"vars,omitempty"`
	// wire-enum
	Shape   []varRef `json:"shape,omitempty"`
	Enum    string   `json:"enum,omitempty"`
	Leaf    int      `json:"leaf,omitempty"`
	Wire    int32    `json:"wire,omitempty"`
	Form    string   `json:"form,omitempty"` // protobuf | json-number | json-name:<NAME>
	Problem string   `json:"problem,omitempty"`
}

// sigParts is a structured signature: clause[:where][=label]. The driver folds records before it
// reports them (see fold): a field that fails whatever the varied value drops the label, a constant
// that fails in every field of its enumeration type names the type instead of the field, a clause
// violated for every message type drops the type.
type sigParts struct {
	clause  string
	where   string
	label   string
	msgFold bool   // where is a message type
	enum    string // the varied field is of this enumeration type and label is one of its constants
}

func (p sigParts) sig() string {
	s := p.clause
	if p.where != "" {
		s += ":" + p.where
	}
	if p.label != "" {
		s += "=" + p.label
	}
	return s
}

type viol struct {
	parts  sigParts
	detail string
}

// worker state: one encoding.Transport per codec with the expected counters.
// inFlight is the case a worker is evaluating (hang watchdog).
type inFlight struct {
	msg   string
	label string
	rc    replayCase
	since time.Time
}

var (
	workersMu  sync.Mutex
	allWorkers []*worker
)

// caseLimit: a single case (a handful of codec calls on one message) that runs longer is a hang.
const caseLimit = 60 * time.Second

type worker struct {
	cur    atomic.Pointer[inFlight]
	g      *gen.Gen
	schema *gen.Schema
	codecs []gen.Codec
	pipes  []*gen.Pipe
	trs    []*encoding.Transport
	txB    []map[reflect.Type]uint64
	txN    []map[reflect.Type]uint64
	rxB    []map[reflect.Type]uint64
	rxN    []map[reflect.Type]uint64
	txTot  []uint64
	rxTot  []uint64
}

func newWorker(g *gen.Gen, schema *gen.Schema) *worker {
	w := &worker{g: g, schema: schema, codecs: gen.Codecs()}
	workersMu.Lock()
	allWorkers = append(allWorkers, w)
	workersMu.Unlock()
	for _, c := range w.codecs {
		p := &gen.Pipe{}
		w.pipes = append(w.pipes, p)
		w.trs = append(w.trs, encoding.NewTransport(&encoding.TransportConfig{Transport: p, Encoding: c.E}))
		w.txB = append(w.txB, map[reflect.Type]uint64{})
		w.txN = append(w.txN, map[reflect.Type]uint64{})
		w.rxB = append(w.rxB, map[reflect.Type]uint64{})
		w.rxN = append(w.rxN, map[reflect.Type]uint64{})
		w.txTot = append(w.txTot, 0)
		w.rxTot = append(w.rxTot, 0)
	}
	return w
}

func varsString(vars []*gen.Var) string {
	var s []string
	for _, v := range vars {
		s = append(s, v.String())
	}
	return strings.Join(s, " + ")
}

func varsSig(vars []*gen.Var) string {
	var s []string
	for _, v := range vars {
		s = append(s, v.Field+"="+v.Label)
	}
	return strings.Join(s, "+")
}

func relaxed(vars []*gen.Var) bool {
	for _, v := range vars {
		if v.Kind == "niloneof" || v.Kind == "badenum" {
			return true
		}
	}
	return false
}

type caseResult struct {
	viols      []viol
	encodeErr  bool // some codec refused to encode
	enumFailed []*gen.Var
}

// checkVars evaluates one message built from the base value with the given variations.
func (w *worker) checkVars(spec *gen.MsgSpec, vars []*gen.Var) (res caseResult, built bool) {
	g := w.g
	m, ok := g.Build(spec, vars...)
	if !ok {
		return res, false
	}
	w.cur.Store(&inFlight{spec.Name, varsString(vars), replayCase{Family: "vars", Msg: spec.Name, Vars: refs(vars)}, time.Now()})
	defer w.cur.Store(nil)
	wantM, _ := g.Build(spec, vars...)
	want := g.Canon(wantM)
	typ := reflect.TypeOf(m)
	curEnc := ""
	type rawViol struct {
		p      sigParts
		enc    string
		detail string
		done   bool
	}
	var raw []rawViol
	addS := func(p sigParts, f string, a ...any) {
		raw = append(raw, rawViol{p, curEnc, fmt.Sprintf("%s{%s}: ", spec.Name, varsString(vars)) + fmt.Sprintf(f, a...), false})
	}
	add := func(sig, f string, a ...any) { addS(sigParts{clause: sig}, f, a...) }
	perMsg := func(clause string) sigParts { return sigParts{clause: clause, where: spec.Name, msgFold: true} }
	varied := func(clause string) sigParts {
		var fs, ls []string
		for _, v := range vars {
			fs = append(fs, v.Field)
			ls = append(ls, v.Label)
		}
		if len(vars) == 0 {
			return sigParts{clause: clause, where: spec.Name}
		}
		p := sigParts{clause: clause, where: strings.Join(fs, "+"), label: strings.Join(ls, "+")}
		if len(vars) == 1 && strings.HasPrefix(vars[0].Kind, "enum:") {
			p.enum = strings.TrimPrefix(vars[0].Kind, "enum:")
		}
		return p
	}
	defer func() {
		// a clause violated identically under both encodings is one violation
		for i, r := range raw {
			if r.done {
				continue
			}
			encs := r.enc
			for j := i + 1; j < len(raw); j++ {
				if !raw[j].done && raw[j].p == r.p && raw[j].enc != r.enc {
					encs += "+" + raw[j].enc
					raw[j].done = true
				}
			}
			d := r.detail
			if encs != r.enc {
				d = "[" + encs + "; " + r.enc + " shown] " + d
			} else if r.enc != "" {
				d = "[" + r.enc + "] " + d
			}
			p := r.p
			p.clause = strings.ReplaceAll(p.clause, "%E%", encs)
			res.viols = append(res.viols, viol{p, d})
		}
	}()
	rel := relaxed(vars)
	relKind := ""
	if rel {
		for _, v := range vars {
			if v.Kind == "niloneof" || v.Kind == "badenum" {
				relKind = v.Kind + ":" + v.Field
				if v.Kind == "badenum" {
					relKind += "=" + v.Label
				}
			}
		}
	}
	decoded := make([]message.Message, len(w.codecs))
	for ci, c := range w.codecs {
		curEnc = c.Name
		out, n, err, pan := gen.SafeEncode(c.E, m)
		if pan != "" {
			addS(perMsg("C11.panic:EncodeTo:%E%:"+gen.PanicFunc(pan)), "EncodeTo panicked: %s", pan)
			continue
		}
		// the transport must agree with the codec and account the same bytes
		terr := w.trs[ci].Write(m)
		if (terr != nil) != (err != nil) {
			addS(perMsg("C11.transport:write-disagrees:%E%"), "EncodeTo error=%v but Transport.Write error=%v", err, terr)
		}
		if terr == nil {
			q := w.pipes[ci].Q
			sent := q[len(q)-1]
			w.txB[ci][typ] += uint64(len(sent))
			w.txN[ci][typ]++
			w.txTot[ci]++
			if err == nil && len(sent) != len(out) {
				addS(perMsg("C11.transport:write-length:%E%"), "EncodeTo wrote %d bytes, Transport.Write sent %d", len(out), len(sent))
			}
		}
		tc := w.trs[ci].TxCount()
		if tc.ByteCount[typ] != w.txB[ci][typ] || tc.MessageCount[typ] != w.txN[ci][typ] || w.trs[ci].TxMessageCounterValue() != w.txTot[ci] {
			addS(perMsg("C11.transport:tx-counter:%E%"), "TxCount bytes=%d msgs=%d total=%d, sums of what was sent: bytes=%d msgs=%d total=%d",
				tc.ByteCount[typ], tc.MessageCount[typ], w.trs[ci].TxMessageCounterValue(), w.txB[ci][typ], w.txN[ci][typ], w.txTot[ci])
			w.txB[ci][typ], w.txN[ci][typ], w.txTot[ci] = tc.ByteCount[typ], tc.MessageCount[typ], w.trs[ci].TxMessageCounterValue()
		}
		if err != nil {
			res.encodeErr = true
			if n != 0 || len(out) != 0 {
				addS(perMsg("C11.count:encode-error-wrote:%E%"), "EncodeTo failed (%v) but reported %d bytes and wrote %d", err, n, len(out))
			}
			if rel {
				continue // refusing a nil oneof / a value that is no declared constant is fine
			}
			attributed := false
			for _, v := range vars {
				if strings.HasPrefix(v.Kind, "enum:") {
					res.enumFailed = append(res.enumFailed, v)
					attributed = true
				}
			}
			if !attributed {
				addS(varied("C11.encode-error:%E%"), "EncodeTo failed: %v", err)
			}
			continue
		}
		if n != len(out) {
			addS(perMsg("C11.count:encode:%E%"), "EncodeTo returned %d but wrote %d bytes", n, len(out))
		}
		got, dn, consumed, derr, dpan := gen.SafeDecode(c.E, out)
		// read the same message back through the transport
		var tgot message.Message
		var trerr error
		if terr == nil {
			sentLen := len(w.pipes[ci].Q[0])
			tgot, trerr = w.trs[ci].Read()
			if trerr == nil {
				w.rxB[ci][typ] += uint64(sentLen)
				w.rxN[ci][typ]++
				w.rxTot[ci]++
			}
			rc := w.trs[ci].RxCount()
			if rc.ByteCount[typ] != w.rxB[ci][typ] || rc.MessageCount[typ] != w.rxN[ci][typ] || w.trs[ci].RxMessageCounterValue() != w.rxTot[ci] {
				addS(perMsg("C11.transport:rx-counter:%E%"), "RxCount bytes=%d msgs=%d total=%d, sums of what was received: bytes=%d msgs=%d total=%d",
					rc.ByteCount[typ], rc.MessageCount[typ], w.trs[ci].RxMessageCounterValue(), w.rxB[ci][typ], w.rxN[ci][typ], w.rxTot[ci])
				w.rxB[ci][typ], w.rxN[ci][typ], w.rxTot[ci] = rc.ByteCount[typ], rc.MessageCount[typ], w.trs[ci].RxMessageCounterValue()
			}
		}
		if dpan != "" {
			addS(perMsg("C11.panic:DecodeFrom:%E%:"+gen.PanicFunc(dpan)), "DecodeFrom panicked on the library's own encoding: %s", dpan)
			continue
		}
		if (trerr != nil) != (derr != nil) {
			addS(perMsg("C11.transport:read-disagrees:%E%"), "DecodeFrom error=%v but Transport.Read error=%v", derr, trerr)
		}
		if derr != nil {
			switch {
			case rel:
				add("C11.encodes-but-undecodable:%E%:"+relKind, "EncodeTo accepted the message (%d bytes) but DecodeFrom rejects that encoding: %v", len(out), derr)
			default:
				p := varied("C11.decode-error:%E%")
				if p.enum != "" {
					p.clause = "C11.enum-total:own-encoding-rejected:%E%"
				}
				addS(p, "DecodeFrom rejects the library's own encoding (%d bytes): %v", len(out), derr)
			}
			continue
		}
		if dn != len(out) || consumed != len(out) {
			addS(perMsg("C11.count:decode:%E%"), "encoding has %d bytes, DecodeFrom returned %d and consumed %d", len(out), dn, consumed)
		}
		if reflect.TypeOf(got) != typ {
			addS(sigParts{clause: "C11.roundtrip:%E%", where: spec.Name + ":type"}, "decoded %T", got)
			continue
		}
		if d := gen.Equal(want, got); d != nil {
			p := sigParts{clause: "C11.roundtrip:%E%", where: d.Field}
			if rel {
				p.where = relKind
			} else {
				for _, v := range vars {
					if vp := strings.ReplaceAll(v.Path, "[0]", "[i]"); vp == d.Path || strings.HasPrefix(d.Path, vp+"<") {
						p.label = v.Label
						if strings.HasPrefix(v.Kind, "enum:") {
							p.enum = strings.TrimPrefix(v.Kind, "enum:")
						}
					}
				}
			}
			addS(p, "decode(encode(m)) != canon(m) at %s: %s", d.Path, d.Detail)
		}
		if trerr == nil && tgot != nil {
			if d := gen.Equal(got, tgot); d != nil {
				addS(perMsg("C11.transport:read-differs:%E%"), "Transport.Read and DecodeFrom disagree at %s: %s", d.Path, d.Detail)
			}
		}
		decoded[ci] = got
		// wire number of library constants (by name), protobuf only
		if c.Name == "protobuf" && len(vars) == 1 && strings.HasPrefix(vars[0].Kind, "enum:") {
			w.checkWireNumbers(spec, m, out, strings.TrimPrefix(vars[0].Kind, "enum:"), vars[0].Label, add)
		}
	}
	curEnc = ""
	if decoded[0] != nil && decoded[1] != nil {
		if d := gen.Equal(decoded[0], decoded[1]); d != nil {
			addS(sigParts{clause: "C11.cross", where: d.Field}, "protobuf and JSON decodings differ at %s: %s", d.Path, d.Detail)
		}
	}
	return res, true
}

func (w *worker) enumInfo(enum string) *gen.EnumInfo {
	if enum == "QoS" {
		return w.g.QoS
	}
	return w.g.RC
}

// checkWireNumbers compares the enum numbers found in the protobuf encoding with the numbers the
// enumerator NAMES demand (zero values are not on the wire in proto3).
func (w *worker) checkWireNumbers(spec *gen.MsgSpec, m message.Message, enc []byte, enum, constLabel string, add func(sig, f string, a ...any)) {
	ei := w.enumInfo(enum)
	var want []uint64
	for _, leaf := range gen.EnumLeaves(m, enum) {
		var v int64
		if leaf.CanInt() {
			v = leaf.Int()
		} else {
			v = int64(leaf.Uint())
		}
		name := ei.ConstName(v)
		num, ok := ei.LibToWire[name]
		if !ok {
			return // reported as a grammar problem
		}
		if num != 0 {
			want = append(want, uint64(num))
		}
	}
	tree, err := gen.ParsePB(w.schema.Root, enc)
	if err != nil {
		add("C11.harness:unparsable-encoding:"+spec.Name, "independent protobuf parser fails on the library's encoding: %v", err)
		return
	}
	var got []uint64
	gen.WalkPB(tree, func(_ []int, _ []*gen.Node, n *gen.Node) {
		if n.Desc != nil && n.Desc.Enum != nil && n.Desc.Enum.Name == ".iscp2.v1."+enum && n.Varint != 0 {
			got = append(got, n.Varint)
		}
	})
	if fmt.Sprint(want) != fmt.Sprint(got) {
		add("C11.enum-total:lib->wire-number:"+constLabel, "enum numbers on the wire %v, the enumerator names demand %v", got, want)
	}
}

// ---------- wire -> library sweep ----------

type wireCase struct {
	spec  *gen.MsgSpec
	shape []*gen.Var
	enum  string
	leaf  int
	wire  int32
	form  string
}

func refs(vars []*gen.Var) []varRef {
	var out []varRef
	for _, v := range vars {
		out = append(out, varRef{v.Path, v.Label})
	}
	return out
}

func (c wireCase) replay() replayCase {
	return replayCase{Family: "wire-enum", Msg: c.spec.Name, Shape: refs(c.shape), Enum: c.enum, Leaf: c.leaf, Wire: c.wire, Form: c.form}
}

// checkWire injects wire number c.wire into the c.leaf-th field of the enumeration in a valid
// encoding and demands that it decodes to the library constant of the same name.
// ok=false: the case does not exist (fewer leaves).
func (w *worker) checkWire(c wireCase) (fail string, exists bool) {
	g := w.g
	ei := w.enumInfo(c.enum)
	m, ok := g.Build(c.spec, c.shape...)
	if !ok {
		return "", false
	}
	w.cur.Store(&inFlight{c.spec.Name, fmt.Sprintf("%s wire %d %s", c.enum, c.wire, c.form), c.replay(), time.Now()})
	defer w.cur.Store(nil)
	wantM, _ := g.Build(c.spec, c.shape...)
	leaves := gen.EnumLeaves(wantM, c.enum)
	if c.leaf >= len(leaves) {
		return "", false
	}
	lib, ok := ei.WireToLib[c.wire]
	if !ok {
		return "", false // no library constant of that name: a grammar problem, reported once
	}
	if leaves[c.leaf].CanInt() {
		leaves[c.leaf].SetInt(lib.Value)
	} else {
		leaves[c.leaf].SetUint(uint64(lib.Value))
	}
	want := g.Canon(wantM)
	var input []byte
	var codec gen.Codec
	if c.form == "protobuf" {
		codec = gen.CodecByName("protobuf")
		enc, _, err, pan := gen.SafeEncode(codec.E, m)
		if err != nil || pan != "" {
			return fmt.Sprintf("base message does not encode: %v %s", err, pan), true
		}
		tree, err := gen.ParsePB(w.schema.Root, enc)
		if err != nil {
			return "independent parser: " + err.Error(), true
		}
		k := 0
		done := false
		gen.WalkPB(tree, func(_ []int, _ []*gen.Node, n *gen.Node) {
			if n.Desc != nil && n.Desc.Enum != nil && n.Desc.Enum.Name == ".iscp2.v1."+c.enum {
				if k == c.leaf {
					n.Varint = uint64(int64(c.wire))
					done = true
				}
				k++
			}
		})
		if !done || k != len(leaves) {
			return fmt.Sprintf("the protobuf encoding of the base message carries %d %s fields, the message has %d", k, c.enum, len(leaves)), true
		}
		input = gen.SerializePB(tree)
	} else {
		codec = gen.CodecByName("json")
		enc, _, err, pan := gen.SafeEncode(codec.E, m)
		if err != nil || pan != "" {
			return fmt.Sprintf("base message does not encode: %v %s", err, pan), true
		}
		root, err := gen.ParseJSON(enc)
		if err != nil {
			return "independent parser: " + err.Error(), true
		}
		k := 0
		done := false
		gen.WalkJSON(root, w.schema.Root, func(r gen.JRef, _ *gen.JNode, n *gen.JNode) {
			if r.Field != nil && r.Field.Enum != nil && r.Field.Enum.Name == ".iscp2.v1."+c.enum && (n.Kind == 's' || n.Kind == 'n') {
				if k == c.leaf {
					if c.form == "json-number" {
						n.Kind, n.Str = 'n', fmt.Sprint(c.wire)
					} else {
						n.Kind, n.Str = 's', strings.TrimPrefix(c.form, "json-name:")
					}
					done = true
				}
				k++
			}
		})
		if !done || k != len(leaves) {
			return fmt.Sprintf("the JSON encoding of the base message carries %d %s fields, the message has %d", k, c.enum, len(leaves)), true
		}
		input = root.Serialize()
	}
	got, _, _, derr, dpan := gen.SafeDecode(codec.E, input)
	if dpan != "" {
		return "DecodeFrom panicked: " + dpan, true
	}
	if derr != nil {
		return fmt.Sprintf("DecodeFrom rejects wire number %d (%s): %v", c.wire, ei.WireName[c.wire], derr), true
	}
	// only the enumeration fields are judged here (the rest of the message is the business of the
	// round trip families)
	_ = want
	if reflect.TypeOf(got) != reflect.TypeOf(wantM) {
		return fmt.Sprintf("wire number %d (%s): decoded a %T", c.wire, ei.WireName[c.wire], got), true
	}
	gl := gen.EnumLeaves(got, c.enum)
	if len(gl) != len(leaves) {
		return fmt.Sprintf("wire number %d (%s): the decoded message has %d %s fields, expected %d", c.wire, ei.WireName[c.wire], len(gl), c.enum, len(leaves)), true
	}
	num := func(v reflect.Value) int64 {
		if v.CanInt() {
			return v.Int()
		}
		return int64(v.Uint())
	}
	for i := range gl {
		if num(gl[i]) != num(leaves[i]) {
			return fmt.Sprintf("wire number %d (%s) should decode to %s (%d); %s field #%d of the decoded message is %d (%s), expected %d", c.wire, ei.WireName[c.wire], lib.Name, lib.Value, c.enum, i, num(gl[i]), ei.ConstName(num(gl[i])), num(leaves[i])), true
		}
	}
	return "", true
}

// ---------- driver ----------

func findVars(spec *gen.MsgSpec, rs []varRef) ([]*gen.Var, error) {
	var out []*gen.Var
	for _, r := range rs {
		v := spec.FindVar(r.Path, r.Label)
		if v == nil {
			return nil, fmt.Errorf("variation %s=%s of %s does not exist on this tree", r.Path, r.Label, spec.Name)
		}
		out = append(out, v)
	}
	return out, nil
}

var flagInner = flag.Bool("c11inner", false, "internal: do the work (the outer process supervises)")

// supervise runs the check in a child process, so that a death of the process inside library code
// (fatal runtime error, stack exhaustion, out of memory) is reported as a violation with evidence
// instead of a crash of the harness.
func supervise() int {
	cmd := exec.Command(os.Args[0], append([]string{"-c11inner"}, os.Args[1:]...)...)
	cmd.Stdout = os.Stdout
	var tail bytes.Buffer
	cmd.Stderr = io.MultiWriter(os.Stderr, &tail)
	err := cmd.Run()
	code := 0
	if err != nil {
		code = -1
		if ee, ok := err.(*exec.ExitError); ok {
			code = ee.ExitCode()
		}
	}
	if code == 0 || code == 1 || (code == 2 && bytes.Contains(tail.Bytes(), []byte("ENGINE-ERROR"))) {
		return code
	}
	e := vlib.StartExplore("C11")
	if e.Replay != nil {
		e.FinishReplay(true, fmt.Sprintf("the process died (exit code %d) while replaying", code))
	}
	t := tail.Bytes()
	if len(t) > 6000 {
		t = t[len(t)-6000:]
	}
	e.Case("supervisor", "child-process")
	e.Violation("C11.process-death", fmt.Sprintf("the process running the codecs on valid messages died (exit code %d); last output:\n%s", code, t), replayCase{Family: "process-death"})
	e.Finish("aborted: the checking process died", false, nil, nil)
	return 1
}

func main() {
	flag.Parse()
	if !*flagInner {
		os.Exit(supervise())
	}
	e := vlib.StartExplore("C11")
	// hang watchdog: a case that does not finish within caseLimit ends the run with a violation
	go func() {
		for {
			time.Sleep(time.Second)
			workersMu.Lock()
			ws := append([]*worker(nil), allWorkers...)
			workersMu.Unlock()
			for _, w := range ws {
				if c := w.cur.Load(); c != nil && time.Since(c.since) > caseLimit {
					e.Violation("C11.hang:"+c.msg, fmt.Sprintf("%s{%s}: the codecs did not finish the case within %v", c.msg, c.label, caseLimit), c.rc)
					e.Finish("aborted: a case hung", false, nil, nil)
				}
			}
		}
	}()
	g, err := gen.New()
	if err != nil {
		fmt.Fprintln(os.Stderr, "ENGINE-ERROR: cannot discover the message grammar:", err)
		os.Exit(2)
	}
	schema, err := gen.LoadSchema()
	if err != nil {
		fmt.Fprintln(os.Stderr, "ENGINE-ERROR: cannot load the wire schema:", err)
		os.Exit(2)
	}

	if e.Replay != nil {
		var rc replayCase
		if err := json.Unmarshal(e.Replay, &rc); err != nil {
			fmt.Fprintln(os.Stderr, err)
			os.Exit(2)
		}
		w := newWorker(g, schema)
		switch rc.Family {
		case "grammar":
			for _, p := range grammarProblems(g) {
				if p == rc.Problem {
					e.FinishReplay(true, p)
				}
			}
			e.FinishReplay(false, "")
		case "wire-enum":
			spec := g.Spec(rc.Msg)
			if spec == nil {
				e.FinishReplay(false, "")
			}
			shape, err := findVars(spec, rc.Shape)
			if err != nil {
				fmt.Println(err)
				e.FinishReplay(false, "")
			}
			fail, _ := w.checkWire(wireCase{spec, shape, rc.Enum, rc.Leaf, rc.Wire, rc.Form})
			e.FinishReplay(fail != "", fail)
		default:
			spec := g.Spec(rc.Msg)
			if spec == nil {
				e.FinishReplay(false, "")
			}
			vars, err := findVars(spec, rc.Vars)
			if err != nil {
				fmt.Println(err)
				e.FinishReplay(false, "")
			}
			res, _ := w.checkVars(spec, vars)
			var lines []string
			for _, v := range res.viols {
				lines = append(lines, v.parts.sig()+": "+v.detail)
			}
			for _, v := range res.enumFailed {
				lines = append(lines, "library constant "+v.Label+" does not encode")
			}
			e.FinishReplay(len(lines) > 0, strings.Join(lines, "\n  "))
		}
		return
	}

	// 0. grammar
	for _, p := range grammarProblems(g) {
		e.Case("grammar", p)
		e.Violation("C11.grammar:"+sigWord(p), p, replayCase{Family: "grammar", Problem: p})
	}
	e.Case("grammar", "registry-vs-sources")

	nw := runtime.GOMAXPROCS(0)
	if nw > 16 {
		nw = 16
	}

	// 1. one-at-a-time variations
	type task struct {
		spec *gen.MsgSpec
		i    int // index of the first variation, -1 = base
		pair bool
	}
	var mu sync.Mutex
	failed := map[*gen.Var]bool{} // variations whose single case is violated (excluded from pairs)
	type enumFail struct {
		fields map[string]bool
		first  replayCase
		detail string
	}
	enumFails := map[string]*enumFail{}       // library constant -> fields where it does not encode
	enumTries := map[string]map[string]bool{} // library constant -> fields tried
	var incompatible, excluded int64
	var records []record
	sampleN := int64(0)

	report := func(spec *gen.MsgSpec, vars []*gen.Var, res caseResult) {
		rc := replayCase{Family: "vars", Msg: spec.Name, Vars: refs(vars)}
		if len(res.viols) > 0 || len(res.enumFailed) > 0 {
			mu.Lock()
			for _, v := range res.viols {
				records = append(records, record{v.parts, v.detail, rc, len(vars)})
			}
			for _, v := range vars {
				if len(vars) == 1 {
					failed[v] = true
				}
			}
			for _, v := range res.enumFailed {
				f := enumFails[v.Label]
				if f == nil {
					f = &enumFail{fields: map[string]bool{}, first: rc, detail: fmt.Sprintf("%s{%s}: EncodeTo refuses the declared constant %s", spec.Name, varsString(vars), v.Label)}
					enumFails[v.Label] = f
				}
				f.fields[v.Field] = true
			}
			mu.Unlock()
		}
	}

	run := func(tasks []task, family string) {
		ch := make(chan task, 256)
		var wg sync.WaitGroup
		for k := 0; k < nw; k++ {
			wg.Add(1)
			go func() {
				defer wg.Done()
				w := newWorker(g, schema)
				for t := range ch {
					if !t.pair {
						var vars []*gen.Var
						if t.i >= 0 {
							vars = []*gen.Var{t.spec.Vars[t.i]}
						}
						res, _ := w.checkVars(t.spec, vars)
						e.Case(family, t.spec.Name+"|"+varsString(vars))
						if len(vars) == 1 && strings.HasPrefix(vars[0].Kind, "enum:") {
							mu.Lock()
							if enumTries[vars[0].Label] == nil {
								enumTries[vars[0].Label] = map[string]bool{}
							}
							enumTries[vars[0].Label][vars[0].Field] = true
							mu.Unlock()
						}
						report(t.spec, vars, res)
						if n := atomic.AddInt64(&sampleN, 1); int(n)%397 == e.Seed%397 {
							m, _ := g.Build(t.spec, vars...)
							enc, _, _, _ := gen.SafeEncode(w.codecs[1].E, m)
							s := string(enc)
							if len(s) > 300 {
								s = s[:300] + "..."
							}
							e.Sample(map[string]any{"message": t.spec.Name, "variation": varsString(vars), "json": s})
						}
						continue
					}
					a := t.spec.Vars[t.i]
					for j := t.i + 1; j < len(t.spec.Vars); j++ {
						b := t.spec.Vars[j]
						if failed[b] {
							continue
						}
						if !gen.Compatible(a, b) {
							atomic.AddInt64(&incompatible, 1)
							continue
						}
						vars := []*gen.Var{a, b}
						res, built := w.checkVars(t.spec, vars)
						if !built {
							atomic.AddInt64(&incompatible, 1)
							continue
						}
						e.Case(family, t.spec.Name+"|"+varsString(vars))
						report(t.spec, vars, res)
					}
				}
			}()
		}
		for _, t := range tasks {
			ch <- t
		}
		close(ch)
		wg.Wait()
	}

	var singles []task
	perMsg := map[string]int{}
	for _, spec := range g.Specs {
		singles = append(singles, task{spec, -1, false})
		for i := range spec.Vars {
			singles = append(singles, task{spec, i, false})
		}
		perMsg[spec.Name] = len(spec.Vars)
	}
	run(singles, "one-at-a-time")

	// enumeration totality, library -> wire (aggregated over the fields of that type)
	var consts []string
	for c := range enumFails {
		consts = append(consts, c)
	}
	sort.Strings(consts)
	for _, c := range consts {
		f := enumFails[c]
		if len(f.fields) == len(enumTries[c]) {
			e.Violation("C11.enum-total:lib->wire:"+c, fmt.Sprintf("%s (in all %d fields of that type)", f.detail, len(f.fields)), f.first)
			continue
		}
		var fs []string
		for x := range f.fields {
			fs = append(fs, x)
		}
		sort.Strings(fs)
		for _, x := range fs {
			e.Violation("C11.enum-total:lib->wire:"+c+":"+x, f.detail, f.first)
		}
	}
	// documented aliases
	for _, ei := range []*gen.EnumInfo{g.RC, g.QoS} {
		for a, c := range ei.Aliases {
			e.Case("enum-alias", a)
			if !(a == "ResultCodeNormalClosure" && c == "ResultCodeSucceeded") {
				e.Violation("C11.enum-total:alias:"+a, fmt.Sprintf("library constants %s and %s share a wire number; the only documented alias is NormalClosure = Succeeded", a, c), replayCase{Family: "grammar", Problem: "alias " + a})
			}
		}
	}

	// 2. wire -> library: every wire number in every field of the type, in every oneof shape
	{
		w := newWorker(g, schema)
		type agg struct {
			tried, failed int
			forms         map[string]bool
			first         wireCase
			detail        string
		}
		aggs := map[string]*agg{}
		var keys []string
		for _, spec := range g.Specs {
			shapes := [][]*gen.Var{nil}
			for _, v := range spec.Vars {
				if v.Kind == "variant" {
					shapes = append(shapes, []*gen.Var{v})
				}
			}
			for _, sh := range shapes {
				for _, ei := range []*gen.EnumInfo{g.RC, g.QoS} {
					for leaf := 0; ; leaf++ {
						any := false
						for _, num := range ei.WireNumbers() {
							forms := []string{"protobuf", "json-number"}
							var names []string
							for n, v := range ei.WireValue {
								if v == num {
									names = append(names, n)
								}
							}
							sort.Strings(names)
							for _, n := range names {
								forms = append(forms, "json-name:"+n)
							}
							for _, form := range forms {
								c := wireCase{spec, sh, ei.LibType, leaf, num, form}
								fail, exists := w.checkWire(c)
								if !exists {
									continue
								}
								any = true
								e.Case("wire-enum", fmt.Sprintf("%s|%s|%s|%d|%d|%s", spec.Name, varsString(sh), ei.LibType, leaf, num, form))
								k := fmt.Sprintf("%s:%s(%d)", ei.LibType, ei.WireName[num], num)
								a := aggs[k]
								if a == nil {
									a = &agg{forms: map[string]bool{}}
									aggs[k] = a
									keys = append(keys, k)
								}
								a.tried++
								if fail != "" {
									if a.failed == 0 {
										a.first, a.detail = c, fmt.Sprintf("%s{%s} %s field #%d, %s: %s", spec.Name, varsString(sh), ei.LibType, leaf, form, fail)
									}
									a.failed++
									f := form
									if strings.HasPrefix(f, "json-name:") && strings.TrimPrefix(f, "json-name:") == ei.WireName[num] {
										f = "json-name"
									}
									a.forms[f] = true
								}
							}
						}
						if !any {
							break
						}
					}
				}
			}
		}
		sort.Strings(keys)
		for _, k := range keys {
			a := aggs[k]
			if a.failed == 0 {
				continue
			}
			sig := "C11.enum-total:wire->lib:" + k
			if a.failed != a.tried {
				var fs []string
				for f := range a.forms {
					fs = append(fs, f)
				}
				sort.Strings(fs)
				sig += ":" + strings.Join(fs, ",")
			}
			e.Violation(sig, fmt.Sprintf("%s (%d of %d injections of this number fail)", a.detail, a.failed, a.tried), a.first.replay())
		}
	}

	// 3. all pairs within a message
	if e.Thorough() {
		var pairs []task
		for _, spec := range g.Specs {
			for i, v := range spec.Vars {
				if failed[v] {
					excluded++
					continue
				}
				pairs = append(pairs, task{spec, i, true})
			}
		}
		run(pairs, "pairs")
	}

	enumFields := map[string]map[string]bool{}
	for _, sp := range g.Specs {
		for _, v := range sp.Vars {
			if strings.HasPrefix(v.Kind, "enum:") {
				t := strings.TrimPrefix(v.Kind, "enum:")
				if enumFields[t] == nil {
					enumFields[t] = map[string]bool{}
				}
				enumFields[t][v.Field] = true
			}
		}
	}
	for _, f := range fold(records, len(g.Specs), enumFields) {
		for k := 0; k < f.count; k++ {
			e.Violation(f.parts.sig(), f.detail, f.rc)
		}
	}

	var nvars int
	for _, s := range g.Specs {
		nvars += len(s.Vars)
	}
	rule := "message types = every type of <repo>/message with an isMessage method (parsed from the sources, checked against the generator registry); " +
		"field paths by reflection incl. nested extension fields, every oneof variant parsed from the sources, nil/empty/1/3-element collections; " +
		"domains: uint {0,1,max}, durations {0, 1 unit, 1.5 unit, unit-1ns, 86400 units, max wire units (, -1 unit, min for signed)}, strings {\"\",a,non-ASCII,300 bytes}, " +
		"payloads {nil,empty,1 byte,70000 bytes}, uuid {nil,fixed}, time {zero,UTC,non-UTC}, bool, every ResultCode/QoS constant of the sources, values that are no constant, nil oneofs; " +
		"one-at-a-time over the base value" + map[bool]string{true: " plus all compatible pairs within a message", false: ""}[e.Thorough()] +
		"; wire->library: every number of the generated ResultCode_name/QoS_name maps injected (protobuf varint, JSON number, every JSON name incl. aliases) into every field of that type in every oneof shape. " +
		"Oracle: decode(encode(m)) = canon(m) in both encodings, both decodings equal, EncodeTo/DecodeFrom counts = bytes written/consumed, encoding.Transport Tx/Rx counters = sums, enum mappings total by enumerator name"
	extra := map[string]any{
		"message_types":            len(g.Specs),
		"variations_total":         nvars,
		"variations_per_message":   perMsg,
		"result_code_constants":    len(g.RC.Consts),
		"qos_constants":            len(g.QoS.Consts),
		"result_code_wire_numbers": len(g.RC.WireName),
		"qos_wire_numbers":         len(g.QoS.WireName),
		"pairs_not_composable":     incompatible,
		"singles_excluded_from_pairs_because_already_violated": excluded,
	}
	e.Finish(rule, true, extra, []string{
		"the wire resolution of each duration field and the ...OrUnixZero time fields are tables in the harness (gen/values.go) taken from the iSCP v2 message definitions; a duration field missing from the table fails the check",
		"the generated protobuf package (descriptors, *_name/*_value maps) is the reference for wire numbers and names",
		"nil elements inside collections are outside the grid",
	})
}

func grammarProblems(g *gen.Gen) []string {
	out := append([]string(nil), g.Problems...)
	for _, ei := range []*gen.EnumInfo{g.RC, g.QoS} {
		out = append(out, ei.Problems...)
	}
	return out
}

func sigWord(p string) string {
	p = strings.ReplaceAll(p, " ", "-")
	if len(p) > 90 {
		p = p[:90]
	}
	return p
}

type record struct {
	parts  sigParts
	detail string
	rc     replayCase
	nvars  int
}

type folded struct {
	parts  sigParts
	detail string
	rc     replayCase
	count  int
	nvars  int
	wheres map[string]bool
}

// fold merges the violation records of all cases into one record per defect-shaped signature.
func fold(records []record, nMsgTypes int, enumFields map[string]map[string]bool) []*folded {
	// deterministic input order: by signature, fewer variations first
	sort.SliceStable(records, func(i, j int) bool {
		if records[i].nvars != records[j].nvars {
			return records[i].nvars < records[j].nvars
		}
		return records[i].parts.sig() < records[j].parts.sig()
	})
	type key struct{ clause, where, label string }
	m := map[key]*folded{}
	var order []key
	put := func(k key, p sigParts, r record, n int) {
		f := m[k]
		if f == nil {
			f = &folded{parts: p, detail: r.detail, rc: r.rc, nvars: r.nvars, wheres: map[string]bool{}}
			m[k] = f
			order = append(order, k)
		}
		f.count += n
		f.wheres[r.parts.where] = true
	}
	for _, r := range records {
		put(key{r.parts.clause, r.parts.where, r.parts.label}, r.parts, r, 1)
	}
	rebuild := func(keep func(k key, f *folded) (key, sigParts, bool)) {
		old, oldOrder := m, order
		m, order = map[key]*folded{}, nil
		for _, k := range oldOrder {
			f := old[k]
			nk, np, _ := keep(k, f)
			g := m[nk]
			if g == nil {
				c := *f
				c.parts = np
				c.wheres = map[string]bool{}
				for w := range f.wheres {
					c.wheres[w] = true
				}
				m[nk] = &c
				order = append(order, nk)
				continue
			}
			g.count += f.count
			for w := range f.wheres {
				g.wheres[w] = true
			}
		}
	}
	// 1. a field that fails with the label-less signature too fails whatever the varied value is
	rebuild(func(k key, f *folded) (key, sigParts, bool) {
		if k.label != "" {
			if _, ok := m[key{k.clause, k.where, ""}]; ok {
				p := f.parts
				p.label, p.enum = "", ""
				return key{k.clause, k.where, ""}, p, true
			}
		}
		return k, f.parts, false
	})
	// 2. a constant that fails in every field of its enumeration type
	byConst := map[key]map[string]bool{}
	for k, f := range m {
		if f.parts.enum != "" && k.label != "" {
			kk := key{k.clause, f.parts.enum, k.label}
			if byConst[kk] == nil {
				byConst[kk] = map[string]bool{}
			}
			byConst[kk][k.where] = true
		}
	}
	rebuild(func(k key, f *folded) (key, sigParts, bool) {
		if f.parts.enum != "" && k.label != "" {
			if len(byConst[key{k.clause, f.parts.enum, k.label}]) == len(enumFields[f.parts.enum]) {
				p := f.parts
				p.where = "enum:" + f.parts.enum
				return key{k.clause, p.where, k.label}, p, true
			}
		}
		return k, f.parts, false
	})
	// 3. a clause violated for every message type
	byClause := map[string]map[string]bool{}
	for k, f := range m {
		if f.parts.msgFold {
			if byClause[k.clause] == nil {
				byClause[k.clause] = map[string]bool{}
			}
			byClause[k.clause][k.where] = true
		}
	}
	rebuild(func(k key, f *folded) (key, sigParts, bool) {
		if f.parts.msgFold && len(byClause[k.clause]) == nMsgTypes {
			p := f.parts
			p.where = ""
			return key{k.clause, "", k.label}, p, true
		}
		return k, f.parts, false
	})
	var out []*folded
	for _, k := range order {
		out = append(out, m[k])
	}
	return out
}
