package gen

import (
	"bytes"
	"encoding/json"
	"fmt"
	"io"
	"strings"
)

// JNode is an ORDERED JSON value (duplicate keys are representable).
type JNode struct {
	Kind byte // 'o' object, 'a' array, 's' string, 'n' number (literal text), 't', 'f', 'z' null, 'r' raw text
	Keys []string
	Vals []*JNode // members of an object / elements of an array
	Str  string   // decoded string, number literal or raw text
	// Repeat >1: (array element / object member) is written that many times
	Repeat int
}

// ParseJSON parses one JSON value into an ordered tree.
func ParseJSON(b []byte) (*JNode, error) {
	d := json.NewDecoder(bytes.NewReader(b))
	d.UseNumber()
	n, err := parseJ(d)
	if err != nil {
		return nil, err
	}
	if _, err := d.Token(); err != io.EOF {
		return nil, fmt.Errorf("trailing data")
	}
	return n, nil
}

func parseJ(d *json.Decoder) (*JNode, error) {
	tok, err := d.Token()
	if err != nil {
		return nil, err
	}
	switch t := tok.(type) {
	case json.Delim:
		switch t {
		case '{':
			n := &JNode{Kind: 'o'}
			for d.More() {
				kt, err := d.Token()
				if err != nil {
					return nil, err
				}
				k, ok := kt.(string)
				if !ok {
					return nil, fmt.Errorf("non-string key")
				}
				v, err := parseJ(d)
				if err != nil {
					return nil, err
				}
				n.Keys = append(n.Keys, k)
				n.Vals = append(n.Vals, v)
			}
			if _, err := d.Token(); err != nil {
				return nil, err
			}
			return n, nil
		case '[':
			n := &JNode{Kind: 'a'}
			for d.More() {
				v, err := parseJ(d)
				if err != nil {
					return nil, err
				}
				n.Vals = append(n.Vals, v)
			}
			if _, err := d.Token(); err != nil {
				return nil, err
			}
			return n, nil
		}
		return nil, fmt.Errorf("unexpected delimiter %v", t)
	case string:
		return &JNode{Kind: 's', Str: t}, nil
	case json.Number:
		return &JNode{Kind: 'n', Str: string(t)}, nil
	case bool:
		if t {
			return &JNode{Kind: 't'}, nil
		}
		return &JNode{Kind: 'f'}, nil
	case nil:
		return &JNode{Kind: 'z'}, nil
	}
	return nil, fmt.Errorf("unexpected token %v", tok)
}

func jstr(s string) string {
	var buf bytes.Buffer
	e := json.NewEncoder(&buf)
	e.SetEscapeHTML(false)
	e.Encode(s)
	return strings.TrimSuffix(buf.String(), "\n")
}

// Serialize writes the tree as compact JSON.
func (n *JNode) Serialize() []byte {
	var b bytes.Buffer
	n.write(&b)
	return b.Bytes()
}

func (n *JNode) write(b *bytes.Buffer) {
	switch n.Kind {
	case 'o':
		b.WriteByte('{')
		first := true
		for i, k := range n.Keys {
			rep := n.Vals[i].Repeat
			if rep < 1 {
				rep = 1
			}
			for r := 0; r < rep; r++ {
				if !first {
					b.WriteByte(',')
				}
				first = false
				b.WriteString(jstr(k))
				b.WriteByte(':')
				n.Vals[i].write(b)
			}
		}
		b.WriteByte('}')
	case 'a':
		b.WriteByte('[')
		first := true
		for _, v := range n.Vals {
			rep := v.Repeat
			if rep < 1 {
				rep = 1
			}
			for r := 0; r < rep; r++ {
				if !first {
					b.WriteByte(',')
				}
				first = false
				v.write(b)
			}
		}
		b.WriteByte(']')
	case 's':
		b.WriteString(jstr(n.Str))
	case 'n', 'r':
		b.WriteString(n.Str)
	case 't':
		b.WriteString("true")
	case 'f':
		b.WriteString("false")
	case 'z':
		b.WriteString("null")
	}
}

// Clone deep-copies the tree.
func (n *JNode) Clone() *JNode {
	c := *n
	c.Keys = append([]string(nil), n.Keys...)
	c.Vals = make([]*JNode, len(n.Vals))
	for i, v := range n.Vals {
		c.Vals[i] = v.Clone()
	}
	return &c
}

// JRef addresses one value of the tree together with its schema information.
type JRef struct {
	Path   []int      // child indices from the root
	Name   string     // schema path (field names)
	Field  *FieldDesc // the field this value belongs to (nil for the root)
	InList bool       // the value is an element of a repeated field / an entry value of a map
	Msg    *MsgDesc   // when the value is an object of this message type
}

// WalkJSON enumerates the values of a JSON encoded message of type md in document order.
func WalkJSON(root *JNode, md *MsgDesc, f func(r JRef, parent *JNode, n *JNode)) {
	var rec func(n, parent *JNode, path []int, name string, fd *FieldDesc, inList bool, md *MsgDesc)
	rec = func(n, parent *JNode, path []int, name string, fd *FieldDesc, inList bool, md *MsgDesc) {
		f(JRef{Path: append([]int(nil), path...), Name: name, Field: fd, InList: inList, Msg: md}, parent, n)
		child := func(i int) []int { return append(append([]int(nil), path...), i) }
		switch {
		case n.Kind == 'o' && md != nil:
			for i, k := range n.Keys {
				cn := k
				if name != "" {
					cn = name + "." + k
				}
				cf := md.ByName(k)
				var cm *MsgDesc
				if cf != nil && cf.Msg != nil && !cf.IsMap && !cf.Repeated {
					cm = cf.Msg
				}
				rec(n.Vals[i], n, child(i), cn, cf, false, cm)
			}
		case n.Kind == 'o' && fd != nil && fd.IsMap && !inList:
			vf := fd.Msg.ByNum(2)
			for i := range n.Keys {
				var cm *MsgDesc
				if vf != nil {
					cm = vf.Msg
				}
				rec(n.Vals[i], n, child(i), name+"{}", vf, true, cm)
			}
		case n.Kind == 'a' && fd != nil && fd.Repeated && !inList:
			for i := range n.Vals {
				rec(n.Vals[i], n, child(i), name+"[]", fd, true, fd.Msg)
			}
		case n.Kind == 'o' || n.Kind == 'a':
			for i := range n.Vals {
				rec(n.Vals[i], n, child(i), name+"?", nil, true, nil)
			}
		}
	}
	rec(root, nil, nil, "", nil, false, md)
}

// AtJSON returns the node addressed by a path and its parent.
func AtJSON(root *JNode, path []int) (parent, n *JNode) {
	n = root
	for _, i := range path {
		parent = n
		n = n.Vals[i]
	}
	return parent, n
}
