package gen

import (
	"bytes"
	"compress/gzip"
	"fmt"
	"io"
	"sort"

	_ "github.com/aptpod/iscp-proto/gen/gogofast/iscp2/v1" // registers the file descriptors
	"github.com/gogo/protobuf/proto"
	"github.com/gogo/protobuf/protoc-gen-gogo/descriptor"
)

// Field types (subset of descriptor.FieldDescriptorProto_Type that the protocol uses is not
// assumed: every type is handled by wire type).
type FieldDesc struct {
	Num      int32
	Name     string // proto (orig) name, also the JSON key (OrigName: true)
	JSONName string
	Type     descriptor.FieldDescriptorProto_Type
	TypeName string // .iscp2.v1.X for messages and enums
	Repeated bool
	Oneof    int // index into MsgDesc.Oneofs, -1 if none
	IsMap    bool
	Msg      *MsgDesc // resolved message type (also the map entry type)
	Enum     *EnumDesc
}

type MsgDesc struct {
	Name       string // .iscp2.v1.X
	Fields     []*FieldDesc
	Oneofs     []string
	IsMapEntry bool
}

type EnumDesc struct {
	Name   string
	Values map[int32]string
	Names  map[string]int32
}

func (m *MsgDesc) ByNum(n int32) *FieldDesc {
	for _, f := range m.Fields {
		if f.Num == n {
			return f
		}
	}
	return nil
}

func (m *MsgDesc) ByName(n string) *FieldDesc {
	for _, f := range m.Fields {
		if f.Name == n || f.JSONName == n {
			return f
		}
	}
	return nil
}

// FirstUnused is the smallest non-negative number that is not an enumerator.
func (e *EnumDesc) FirstUnused() int32 {
	for n := int32(0); ; n++ {
		if _, ok := e.Values[n]; !ok {
			return n
		}
	}
}

// Schema is the wire schema taken from the descriptors embedded in the generated package.
type Schema struct {
	Msgs  map[string]*MsgDesc
	Enums map[string]*EnumDesc
	Root  *MsgDesc // .iscp2.v1.Message
}

func LoadSchema() (*Schema, error) {
	s := &Schema{Msgs: map[string]*MsgDesc{}, Enums: map[string]*EnumDesc{}}
	seen := map[string]bool{}
	var load func(name string) error
	var raw []*descriptor.FileDescriptorProto
	load = func(name string) error {
		if seen[name] {
			return nil
		}
		seen[name] = true
		gz := proto.FileDescriptor(name)
		if gz == nil {
			return fmt.Errorf("file descriptor %s is not registered", name)
		}
		r, err := gzip.NewReader(bytes.NewReader(gz))
		if err != nil {
			return err
		}
		b, err := io.ReadAll(r)
		if err != nil {
			return err
		}
		fd := &descriptor.FileDescriptorProto{}
		if err := proto.Unmarshal(b, fd); err != nil {
			return err
		}
		raw = append(raw, fd)
		for _, d := range fd.Dependency {
			if err := load(d); err != nil {
				return err
			}
		}
		return nil
	}
	if err := load("iscp2/v1/message.proto"); err != nil {
		return nil, err
	}
	type pend struct {
		m  *MsgDesc
		dp *descriptor.DescriptorProto
	}
	var pends []pend
	var addMsg func(prefix string, dp *descriptor.DescriptorProto)
	addEnum := func(prefix string, ep *descriptor.EnumDescriptorProto) {
		e := &EnumDesc{Name: prefix + "." + ep.GetName(), Values: map[int32]string{}, Names: map[string]int32{}}
		for _, v := range ep.Value {
			if _, dup := e.Values[v.GetNumber()]; !dup {
				e.Values[v.GetNumber()] = v.GetName()
			}
			e.Names[v.GetName()] = v.GetNumber()
		}
		s.Enums[e.Name] = e
	}
	addMsg = func(prefix string, dp *descriptor.DescriptorProto) {
		m := &MsgDesc{Name: prefix + "." + dp.GetName(), IsMapEntry: dp.GetOptions().GetMapEntry()}
		for _, o := range dp.OneofDecl {
			m.Oneofs = append(m.Oneofs, o.GetName())
		}
		s.Msgs[m.Name] = m
		pends = append(pends, pend{m, dp})
		for _, n := range dp.NestedType {
			addMsg(m.Name, n)
		}
		for _, e := range dp.EnumType {
			addEnum(m.Name, e)
		}
	}
	for _, fd := range raw {
		prefix := "." + fd.GetPackage()
		for _, dp := range fd.MessageType {
			addMsg(prefix, dp)
		}
		for _, ep := range fd.EnumType {
			addEnum(prefix, ep)
		}
	}
	for _, p := range pends {
		for _, f := range p.dp.Field {
			fd := &FieldDesc{Num: f.GetNumber(), Name: f.GetName(), JSONName: f.GetJsonName(), Type: f.GetType(), TypeName: f.GetTypeName(),
				Repeated: f.GetLabel() == descriptor.FieldDescriptorProto_LABEL_REPEATED, Oneof: -1}
			if f.OneofIndex != nil {
				fd.Oneof = int(*f.OneofIndex)
			}
			switch fd.Type {
			case descriptor.FieldDescriptorProto_TYPE_MESSAGE:
				fd.Msg = s.Msgs[fd.TypeName]
				if fd.Msg == nil {
					return nil, fmt.Errorf("unresolved message type %s", fd.TypeName)
				}
				fd.IsMap = fd.Msg.IsMapEntry
			case descriptor.FieldDescriptorProto_TYPE_ENUM:
				fd.Enum = s.Enums[fd.TypeName]
				if fd.Enum == nil {
					return nil, fmt.Errorf("unresolved enum type %s", fd.TypeName)
				}
			}
			p.m.Fields = append(p.m.Fields, fd)
		}
		sort.Slice(p.m.Fields, func(i, j int) bool { return p.m.Fields[i].Num < p.m.Fields[j].Num })
	}
	s.Root = s.Msgs[".iscp2.v1.Message"]
	if s.Root == nil {
		return nil, fmt.Errorf("message .iscp2.v1.Message not found in the descriptors")
	}
	return s, nil
}

// ---------- protobuf wire tree ----------

// Node is one field occurrence of a parsed protobuf message.
type Node struct {
	Num      int32
	Wire     int    // 0 varint, 1 fixed64, 2 length-delimited, 5 fixed32
	Varint   uint64 // wire 0
	Raw      []byte // wire 1 / 5 payload, wire 2 payload of a non-message field
	Desc     *FieldDesc
	Children []*Node // wire 2 payload of a message typed field
	IsMsg    bool
	LenOver  *uint64 // when set: the length prefix that is written instead of the real length
	Repeat   int     // when >1: the node is serialised that many times
}

func appendVarint(b []byte, v uint64) []byte {
	for v >= 0x80 {
		b = append(b, byte(v)|0x80)
		v >>= 7
	}
	return append(b, byte(v))
}

func readVarint(b []byte) (uint64, int) {
	var v uint64
	for i := 0; i < len(b) && i < 10; i++ {
		v |= uint64(b[i]&0x7f) << (7 * uint(i))
		if b[i] < 0x80 {
			return v, i + 1
		}
	}
	return 0, 0
}

// ParsePB parses a VALID encoding of message type md into a tree.
func ParsePB(md *MsgDesc, b []byte) ([]*Node, error) {
	var out []*Node
	for len(b) > 0 {
		tag, n := readVarint(b)
		if n == 0 {
			return nil, fmt.Errorf("bad tag")
		}
		b = b[n:]
		nd := &Node{Num: int32(tag >> 3), Wire: int(tag & 7)}
		if md != nil {
			nd.Desc = md.ByNum(nd.Num)
		}
		switch nd.Wire {
		case 0:
			v, n := readVarint(b)
			if n == 0 {
				return nil, fmt.Errorf("bad varint")
			}
			nd.Varint = v
			b = b[n:]
		case 1:
			if len(b) < 8 {
				return nil, fmt.Errorf("short fixed64")
			}
			nd.Raw = append([]byte(nil), b[:8]...)
			b = b[8:]
		case 5:
			if len(b) < 4 {
				return nil, fmt.Errorf("short fixed32")
			}
			nd.Raw = append([]byte(nil), b[:4]...)
			b = b[4:]
		case 2:
			l, n := readVarint(b)
			if n == 0 || uint64(len(b)-n) < l {
				return nil, fmt.Errorf("bad length")
			}
			payload := b[n : n+int(l)]
			b = b[n+int(l):]
			if nd.Desc != nil && nd.Desc.Msg != nil {
				ch, err := ParsePB(nd.Desc.Msg, payload)
				if err != nil {
					return nil, fmt.Errorf("field %s: %w", nd.Desc.Name, err)
				}
				nd.Children, nd.IsMsg = ch, true
			} else {
				nd.Raw = append([]byte(nil), payload...)
			}
		default:
			return nil, fmt.Errorf("unsupported wire type %d", nd.Wire)
		}
		out = append(out, nd)
	}
	return out, nil
}

// SerializePB writes the tree back.
func SerializePB(nodes []*Node) []byte {
	return appendNodes(nil, nodes)
}

func appendNodes(b []byte, nodes []*Node) []byte {
	for _, n := range nodes {
		rep := n.Repeat
		if rep < 1 {
			rep = 1
		}
		start := len(b)
		b = appendVarint(b, uint64(n.Num)<<3|uint64(n.Wire))
		switch n.Wire {
		case 0:
			b = appendVarint(b, n.Varint)
		case 1, 5:
			b = append(b, n.Raw...)
		case 2:
			var payload []byte
			if n.IsMsg {
				payload = appendNodes(nil, n.Children)
			} else {
				payload = n.Raw
			}
			l := uint64(len(payload))
			if n.LenOver != nil {
				l = *n.LenOver
			}
			b = appendVarint(b, l)
			b = append(b, payload...)
		}
		one := append([]byte(nil), b[start:]...)
		for k := 1; k < rep; k++ {
			b = append(b, one...)
		}
	}
	return b
}

// ClonePB deep-copies a tree.
func ClonePB(nodes []*Node) []*Node {
	out := make([]*Node, len(nodes))
	for i, n := range nodes {
		c := *n
		c.Raw = append([]byte(nil), n.Raw...)
		if n.LenOver != nil {
			l := *n.LenOver
			c.LenOver = &l
		}
		c.Children = ClonePB(n.Children)
		out[i] = &c
	}
	return out
}

// SortMapsPB orders the entries of every map field by key, in place (the generated marshaller
// iterates Go maps, i.e. in random order; the corpus must be the same in every run).
func SortMapsPB(nodes []*Node) {
	byNum := map[int32][]int{}
	for i, n := range nodes {
		if n.IsMsg {
			SortMapsPB(n.Children)
		}
		if n.Desc != nil && n.Desc.IsMap {
			byNum[n.Num] = append(byNum[n.Num], i)
		}
	}
	key := func(n *Node) uint64 {
		for _, c := range n.Children {
			if c.Num == 1 {
				return c.Varint
			}
		}
		return 0
	}
	for _, idx := range byNum {
		ns := make([]*Node, len(idx))
		for k, i := range idx {
			ns[k] = nodes[i]
		}
		sort.SliceStable(ns, func(a, b int) bool { return key(ns[a]) < key(ns[b]) })
		for k, i := range idx {
			nodes[i] = ns[k]
		}
	}
}

// WalkPB calls f for every node in document order with its index path.
func WalkPB(nodes []*Node, f func(path []int, siblings []*Node, n *Node)) {
	var rec func(prefix []int, ns []*Node)
	rec = func(prefix []int, ns []*Node) {
		for i, n := range ns {
			p := append(append([]int(nil), prefix...), i)
			f(p, ns, n)
			if n.IsMsg {
				rec(p, n.Children)
			}
		}
	}
	rec(nil, nodes)
}

// AtPB returns the sibling list and index addressed by an index path.
func AtPB(nodes *[]*Node, path []int) (*[]*Node, int) {
	cur := nodes
	for _, i := range path[:len(path)-1] {
		cur = &(*cur)[i].Children
	}
	return cur, path[len(path)-1]
}

// DescPathPB renders the schema path of a node (field names), used in signatures.
func DescPathPB(nodes []*Node, path []int) string {
	s := ""
	cur := nodes
	for k, i := range path {
		n := cur[i]
		name := fmt.Sprintf("#%d", n.Num)
		if n.Desc != nil {
			name = n.Desc.Name
		}
		if k > 0 {
			s += "."
		}
		s += name
		cur = n.Children
	}
	return s
}
