package gen

import (
	"bytes"
	"fmt"
	"io"
	"runtime"
	"strings"

	"github.com/aptpod/iscp-go/encoding"
	ejson "github.com/aptpod/iscp-go/encoding/json"
	"github.com/aptpod/iscp-go/encoding/protobuf"
	"github.com/aptpod/iscp-go/message"
)

// Codec is one encoding under test.
type Codec struct {
	Name string
	E    encoding.Encoding
}

func Codecs() []Codec {
	return []Codec{{"protobuf", protobuf.NewEncoding()}, {"json", ejson.NewEncoding()}}
}

func CodecByName(n string) Codec {
	for _, c := range Codecs() {
		if c.Name == n {
			return c
		}
	}
	panic("unknown codec " + n)
}

// panicSite names the function that panicked (first non-runtime frame below gopanic).
func panicSite() string {
	pcs := make([]uintptr, 64)
	n := runtime.Callers(3, pcs)
	fr := runtime.CallersFrames(pcs[:n])
	seenPanic := false
	for {
		f, more := fr.Next()
		if strings.HasPrefix(f.Function, "runtime.") {
			if f.Function == "runtime.gopanic" || strings.HasPrefix(f.Function, "runtime.panic") || f.Function == "runtime.sigpanic" || f.Function == "runtime.goPanicIndex" {
				seenPanic = true
			}
		} else if seenPanic && f.Function != "" {
			fn := f.Function
			if i := strings.LastIndex(fn, "/"); i >= 0 {
				fn = fn[i+1:]
			}
			return fn
		}
		if !more {
			return "unknown"
		}
	}
}

type countingWriter struct {
	buf   bytes.Buffer
	calls int
}

func (w *countingWriter) Write(p []byte) (int, error) { w.calls++; return w.buf.Write(p) }

// SafeEncode calls EncodeTo. written is the number of bytes that reached the writer.
func SafeEncode(e encoding.Encoding, m message.Message) (out []byte, n int, err error, panicked string) {
	var w countingWriter
	defer func() {
		if r := recover(); r != nil {
			panicked = fmt.Sprintf("%s: %v", panicSite(), r)
		}
	}()
	n, err = e.EncodeTo(&w, m)
	return w.buf.Bytes(), n, err, ""
}

// SafeDecode calls DecodeFrom on a reader over b. consumed is the number of bytes taken from it.
func SafeDecode(e encoding.Encoding, b []byte) (m message.Message, n, consumed int, err error, panicked string) {
	r := bytes.NewReader(b)
	defer func() {
		if rec := recover(); rec != nil {
			panicked = fmt.Sprintf("%s: %v", panicSite(), rec)
		}
	}()
	n, m, err = e.DecodeFrom(io.Reader(onlyReader{r}))
	return m, n, len(b) - r.Len(), err, ""
}

// onlyReader hides WriterTo etc. so that the codec sees a plain io.Reader.
type onlyReader struct{ r *bytes.Reader }

func (o onlyReader) Read(p []byte) (int, error) { return o.r.Read(p) }

// PanicFunc extracts the function name of a SafeEncode/SafeDecode panic description.
func PanicFunc(p string) string {
	if i := strings.Index(p, ": "); i >= 0 {
		return p[:i]
	}
	return p
}

// Pipe is an in-memory transport.ReadWriter: Read returns what was written, in order.
type Pipe struct {
	Q      [][]byte
	tx, rx uint64
}

func (p *Pipe) Read() ([]byte, error) {
	if len(p.Q) == 0 {
		return nil, io.EOF
	}
	b := p.Q[0]
	p.Q = p.Q[1:]
	p.rx += uint64(len(b))
	return b, nil
}

func (p *Pipe) Write(b []byte) error {
	p.Q = append(p.Q, append([]byte(nil), b...))
	p.tx += uint64(len(b))
	return nil
}
func (p *Pipe) Close() error                { return nil }
func (p *Pipe) RxBytesCounterValue() uint64 { return p.rx }
func (p *Pipe) TxBytesCounterValue() uint64 { return p.tx }
