package gen

import (
	"fmt"
	"math"
	"reflect"
	"sort"
	"strings"
	"time"

	"github.com/aptpod/iscp-go/message"
	autogen "github.com/aptpod/iscp-proto/gen/gogofast/iscp2/v1"
	uuid "github.com/google/uuid"
)

// registry is the compile-time list of the types of package message the generator knows. It is
// CHECKED against the list parsed from the sources (CheckRegistry): a message type, a oneof
// variant or a struct declared in /repo/message without an entry here fails the check.
var registry = []any{
	message.ConnectRequest{}, message.ConnectRequestExtensionFields{}, message.IntdashExtensionFields{},
	message.ConnectResponse{}, message.ConnectResponseExtensionFields{},
	message.Disconnect{}, message.DisconnectExtensionFields{},
	message.UpstreamChunk{}, message.UpstreamChunkExtensionFields{},
	message.UpstreamChunkAck{}, message.UpstreamChunkAckExtensionFields{},
	message.DownstreamChunk{}, message.DownstreamChunkExtensionFields{},
	message.DownstreamChunkAck{}, message.DownstreamChunkAckExtensionFields{},
	message.DownstreamChunkAckComplete{}, message.DownstreamChunkAckCompleteExtensionFields{},
	message.DataPoint{}, message.UpstreamChunkResult{}, message.UpstreamChunkResultExtensionFields{},
	message.DownstreamChunkResult{}, message.DownstreamChunkResultExtensionFields{},
	message.UpstreamAlias(0), message.UpstreamInfo{}, message.DataIDAlias(0), message.DataID{},
	message.StreamChunk{}, message.DataPointGroup{},
	message.DownstreamOpenRequest{}, message.DownstreamOpenRequestExtensionFields{},
	message.DownstreamOpenResponse{}, message.DownstreamOpenResponseExtensionFields{},
	message.DownstreamResumeRequest{}, message.DownstreamResumeRequestExtensionFields{},
	message.DownstreamResumeResponse{}, message.DownstreamResumeResponseExtensionFields{},
	message.DownstreamCloseRequest{}, message.DownstreamCloseRequestExtensionFields{},
	message.DownstreamCloseResponse{}, message.DownstreamCloseResponseExtensionFields{},
	message.DownstreamFilter{}, message.DataFilter{},
	message.DownstreamCall{}, message.DownstreamCallExtensionFields{},
	message.UpstreamCall{}, message.UpstreamCallExtensionFields{},
	message.UpstreamCallAck{}, message.UpstreamCallAckExtensionFields{},
	message.UpstreamMetadata{}, message.UpstreamMetadataExtensionFields{},
	message.UpstreamMetadataAck{}, message.UpstreamMetadataAckExtensionFields{},
	message.DownstreamMetadata{}, message.DownstreamMetadataExtensionFields{},
	message.DownstreamMetadataAck{}, message.DownstreamMetadataAckExtensionFields{},
	message.BaseTime{}, message.DownstreamAbnormalClose{}, message.DownstreamNormalClose{},
	message.DownstreamOpen{}, message.DownstreamResume{}, message.UpstreamAbnormalClose{},
	message.UpstreamNormalClose{}, message.UpstreamOpen{}, message.UpstreamResume{},
	message.Ping{}, message.PingExtensionFields{}, message.Pong{}, message.PongExtensionFields{},
	message.UpstreamOpenRequest{}, message.UpstreamOpenRequestExtensionFields{},
	message.UpstreamOpenResponse{}, message.UpstreamOpenResponseExtensionFields{},
	message.UpstreamResumeRequest{}, message.UpstreamResumeRequestExtensionFields{},
	message.UpstreamResumeResponse{}, message.UpstreamResumeResponseExtensionFields{},
	message.UpstreamCloseRequest{}, message.UpstreamCloseRequestExtensionFields{},
	message.UpstreamCloseResponse{}, message.UpstreamCloseResponseExtensionFields{},
}

// wireUnit is the documented wire resolution of every duration field (iSCP v2: ping interval /
// timeout and expiry interval in seconds, ack interval in milliseconds, elapsed times in
// nanoseconds). A duration field that is not listed fails the check.
var wireUnit = map[string]time.Duration{
	"ConnectRequest.PingInterval":          time.Second,
	"ConnectRequest.PingTimeout":           time.Second,
	"UpstreamOpenRequest.AckInterval":      time.Millisecond,
	"UpstreamOpenRequest.ExpiryInterval":   time.Second,
	"DownstreamOpenRequest.ExpiryInterval": time.Second,
	"DataPoint.ElapsedTime":                time.Nanosecond,
	"BaseTime.ElapsedTime":                 time.Nanosecond,
}

// wireMaxUnits is the largest number of wire units the wire field can carry.
var wireMaxUnits = map[string]int64{
	"ConnectRequest.PingInterval":          math.MaxUint32,
	"ConnectRequest.PingTimeout":           math.MaxUint32,
	"UpstreamOpenRequest.AckInterval":      math.MaxUint32,
	"UpstreamOpenRequest.ExpiryInterval":   math.MaxUint32,
	"DownstreamOpenRequest.ExpiryInterval": math.MaxUint32,
	"DataPoint.ElapsedTime":                math.MaxInt64,
	"BaseTime.ElapsedTime":                 math.MaxInt64,
}

// signedDuration lists the duration fields whose wire type is signed.
var signedDuration = map[string]bool{"DataPoint.ElapsedTime": true}

// unixZeroTime lists the time fields documented (ServerTimeOrUnixZero) to travel as Unix time 0
// when they are the zero time.Time.
var unixZeroTime = map[string]bool{
	"UpstreamOpenResponse.ServerTime":   true,
	"DownstreamOpenResponse.ServerTime": true,
	// the zero time.Time has no representation in the int64-nanosecond wire field; since the
	// "fix: encode a zero BaseTime as 0" commit BaseTime follows the ServerTime rule (zero => Unix 0)
	"BaseTime.BaseTime": true,
}

var (
	tDuration = reflect.TypeOf(time.Duration(0))
	tTime     = reflect.TypeOf(time.Time{})
	tUUID     = reflect.TypeOf(uuid.UUID{})
	tRC       = reflect.TypeOf(message.ResultCode(0))
	tQoS      = reflect.TypeOf(message.QoS(0))
	tBytes    = reflect.TypeOf([]byte(nil))
	tMessage  = reflect.TypeOf((*message.Message)(nil)).Elem()
)

// EnumInfo relates one enumeration of package message to its wire enumeration by NAME
// (ResultCodeAuthFailed <-> AUTH_FAILED), which is independent of the converter's switch tables.
type EnumInfo struct {
	LibType   string
	Prefix    string
	Consts    []Const
	WireName  map[int32]string // generated <Enum>_name
	WireValue map[string]int32 // generated <Enum>_value (includes alias names)
	LibToWire map[string]int32 // library constant name -> wire number (by name)
	WireToLib map[int32]Const  // wire number -> canonical library constant (by name)
	// Aliases: library constants that share the wire number of a canonical constant.
	Aliases  map[string]string // alias constant name -> canonical constant name
	Problems []string
}

func normName(s string) string { return strings.ToLower(strings.ReplaceAll(s, "_", "")) }

func newEnumInfo(libType, prefix string, consts []Const, wname map[int32]string, wvalue map[string]int32) *EnumInfo {
	ei := &EnumInfo{LibType: libType, Prefix: prefix, Consts: consts, WireName: wname, WireValue: wvalue,
		LibToWire: map[string]int32{}, WireToLib: map[int32]Const{}, Aliases: map[string]string{}}
	byNorm := map[string]string{}
	for n := range wvalue {
		byNorm[normName(n)] = n
	}
	usedWire := map[string]bool{}
	for _, c := range consts {
		wn, ok := byNorm[normName(strings.TrimPrefix(c.Name, prefix))]
		if !ok {
			ei.Problems = append(ei.Problems, fmt.Sprintf("library constant %s has no wire enumerator of the same name", c.Name))
			continue
		}
		usedWire[wn] = true
		num := wvalue[wn]
		ei.LibToWire[c.Name] = num
		if wname[num] == wn {
			ei.WireToLib[num] = c
		}
	}
	for _, c := range consts {
		num, ok := ei.LibToWire[c.Name]
		if !ok {
			continue
		}
		if canon, ok := ei.WireToLib[num]; ok && canon.Name != c.Name {
			ei.Aliases[c.Name] = canon.Name
		}
	}
	var wn []string
	for n := range wvalue {
		wn = append(wn, n)
	}
	sort.Strings(wn)
	for _, n := range wn {
		if !usedWire[n] {
			ei.Problems = append(ei.Problems, fmt.Sprintf("wire enumerator %s=%d has no library constant of the same name", n, wvalue[n]))
		}
	}
	return ei
}

// WireNumbers returns the wire numbers in ascending order.
func (ei *EnumInfo) WireNumbers() []int32 {
	var out []int32
	for n := range ei.WireName {
		out = append(out, n)
	}
	sort.Slice(out, func(i, j int) bool { return out[i] < out[j] })
	return out
}

// FirstUnusedWire is the smallest non-negative number that is not a wire enumerator.
func (ei *EnumInfo) FirstUnusedWire() int32 {
	for n := int32(0); ; n++ {
		if _, ok := ei.WireName[n]; !ok {
			return n
		}
	}
}

// ConstName returns the constant name of a value ("" if none).
func (ei *EnumInfo) ConstName(v int64) string {
	for _, c := range ei.Consts {
		if c.Value == v {
			return c.Name
		}
	}
	return ""
}

// Var is one variation of one field path of a message type.
type Var struct {
	Path  string // StreamChunk.DataPointGroups[0].DataIDOrAlias<DataID>.Name
	Field string // innermost "Struct.Field"
	Label string // value label ("empty", "max", "ResultCodeAuthFailed", ...)
	Kind  string // string|bytes|uint|bool|duration|time|uuid|enum:ResultCode|enum:QoS|ptr|ext|slice|map|variant|niloneof|badenum
	// Big marks values whose encoding is large (70000 byte payloads).
	Big   bool
	req   map[string]string
	apply func(root reflect.Value) bool
}

func (v *Var) String() string { return v.Path + "=" + v.Label }

// MsgSpec is one message type with its variations.
type MsgSpec struct {
	Name string
	Type reflect.Type
	Vars []*Var
}

// Gen is the generator.
type Gen struct {
	Src      *Source
	Types    map[string]reflect.Type
	RC, QoS  *EnumInfo
	Specs    []*MsgSpec
	Problems []string // grammar / registry problems: each one fails the check
	implsOf  map[reflect.Type][]reflect.Type
}

// New discovers the grammar and builds the variation lists.
func New() (*Gen, error) {
	src, err := Discover()
	if err != nil {
		return nil, err
	}
	g := &Gen{Src: src, Types: map[string]reflect.Type{}, implsOf: map[reflect.Type][]reflect.Type{}}
	for _, x := range registry {
		t := reflect.TypeOf(x)
		g.Types[t.Name()] = t
	}
	g.RC = newEnumInfo("ResultCode", "ResultCode", src.Consts["ResultCode"], autogen.ResultCode_name, autogen.ResultCode_value)
	g.QoS = newEnumInfo("QoS", "QoS", src.Consts["QoS"], autogen.QoS_name, autogen.QoS_value)
	if len(g.RC.Consts) == 0 || len(g.QoS.Consts) == 0 {
		return nil, fmt.Errorf("no ResultCode / QoS constants found in the sources")
	}
	for name := range src.Consts {
		if name != "ResultCode" && name != "QoS" {
			g.problem("enumeration type %s declared in package message has no generator entry", name)
		}
	}
	for _, s := range src.Structs {
		if _, ok := g.Types[s]; !ok {
			g.problem("struct type %s declared in package message has no generator entry", s)
		}
	}
	for _, m := range src.MessageTypes {
		t, ok := g.Types[m.Name]
		if !ok {
			g.problem("message type %s (isMessage) has no generator entry", m.Name)
			continue
		}
		if t.Kind() != reflect.Struct || !reflect.PointerTo(t).Implements(tMessage) {
			g.problem("message type %s: generator entry is not a struct whose pointer implements message.Message", m.Name)
			continue
		}
		spec := &MsgSpec{Name: m.Name, Type: t}
		g.walkStruct(&spec.Vars, t, "", func(root reflect.Value) (reflect.Value, bool) { return root, true }, nil)
		g.Specs = append(g.Specs, spec)
	}
	sort.Slice(g.Specs, func(i, j int) bool { return g.Specs[i].Name < g.Specs[j].Name })
	// every registered type implementing message.Message must have been discovered
	for n, t := range g.Types {
		if t.Kind() == reflect.Struct && reflect.PointerTo(t).Implements(tMessage) {
			found := false
			for _, m := range src.MessageTypes {
				if m.Name == n {
					found = true
				}
			}
			if !found {
				g.problem("registered type %s implements message.Message but was not discovered in the sources", n)
			}
		}
	}
	return g, nil
}

func (g *Gen) problem(f string, a ...any) {
	s := fmt.Sprintf(f, a...)
	for _, p := range g.Problems {
		if p == s {
			return
		}
	}
	g.Problems = append(g.Problems, s)
}

// Spec returns the spec of a message type.
func (g *Gen) Spec(name string) *MsgSpec {
	for _, s := range g.Specs {
		if s.Name == name {
			return s
		}
	}
	return nil
}

// impls returns the dynamic types (T or *T) implementing interface type it, checked against the
// implementers parsed from the sources.
func (g *Gen) impls(it reflect.Type) []reflect.Type {
	if r, ok := g.implsOf[it]; ok {
		return r
	}
	var out []reflect.Type
	parsed := g.Src.Impls[it.Name()]
	if len(parsed) == 0 {
		g.problem("interface %s has no implementer in the sources", it.Name())
	}
	sort.Slice(parsed, func(i, j int) bool { return parsed[i].Name < parsed[j].Name })
	for _, p := range parsed {
		t, ok := g.Types[p.Name]
		if !ok {
			g.problem("type %s implements %s in the sources but has no generator entry", p.Name, it.Name())
			continue
		}
		dt := t
		if p.Pointer {
			dt = reflect.PointerTo(t)
		}
		if !dt.Implements(it) {
			g.problem("generator entry %s does not implement %s", dt, it.Name())
			continue
		}
		out = append(out, dt)
	}
	g.implsOf[it] = out
	return out
}

type ctx struct {
	owner string
	fname string
	idx   int
	salt  int
}

func (c ctx) key() string { return c.owner + "." + c.fname }

func isExt(t reflect.Type) bool {
	return t.Kind() == reflect.Pointer && strings.HasSuffix(t.Elem().Name(), "ExtensionFields")
}

var fixedUUID = uuid.UUID{0x10, 0x11, 0x12, 0x13, 0x14, 0x15, 0x46, 0x17, 0x98, 0x19, 0x1a, 0x1b, 0x1c, 0x1d, 0x1e, 0x1f}

// base builds the base value of a type: every pointer present, one element per collection,
// first variant of every oneof, non-default and pairwise distinct leaves.
func (g *Gen) base(t reflect.Type, c ctx) reflect.Value {
	v := reflect.New(t).Elem()
	switch {
	case t == tDuration:
		v.SetInt(int64(wireUnit[c.key()]) * int64(c.idx+2+10*c.salt))
	case t == tTime:
		v.Set(reflect.ValueOf(time.Date(2023, 8, 9, 1, 2, 3+c.idx, 456789000+c.salt, time.UTC)))
	case t == tUUID:
		u := fixedUUID
		u[15] = byte(c.idx)
		u[0] = byte(0x10 + c.salt)
		v.Set(reflect.ValueOf(u))
	case t == tRC:
		v.SetInt(int64(message.ResultCodeAuthFailed))
	case t == tQoS:
		v.SetUint(uint64(message.QoSReliable))
	case t == tBytes:
		v.SetBytes([]byte{byte(c.idx + 1), 0xfe, byte(c.salt)})
	default:
		switch t.Kind() {
		case reflect.String:
			v.SetString(shortName(c.owner, c.fname, c.salt))
		case reflect.Bool:
			v.SetBool(true)
		case reflect.Uint8:
			v.SetUint(uint64(c.idx + 3 + c.salt))
		case reflect.Uint32:
			v.SetUint(uint64(1000 + 10*c.idx + c.salt))
		case reflect.Uint64:
			v.SetUint(uint64(1<<33 + 10*c.idx + c.salt))
		case reflect.Struct:
			for i := 0; i < t.NumField(); i++ {
				f := t.Field(i)
				v.Field(i).Set(g.base(f.Type, ctx{owner: t.Name(), fname: f.Name, idx: i, salt: c.salt}))
			}
		case reflect.Pointer:
			p := reflect.New(t.Elem())
			p.Elem().Set(g.base(t.Elem(), c))
			v.Set(p)
		case reflect.Slice:
			v.Set(g.slice(t, c, 1))
		case reflect.Map:
			v.Set(g.mapOf(t, c, 1))
		case reflect.Interface:
			im := g.impls(t)
			if len(im) > 0 {
				v.Set(g.base(im[0], c))
			}
		default:
			g.problem("field %s: type %s is not supported by the generator", c.key(), t)
		}
	}
	return v
}

// shortName is the base value of a string field: short (the byte level families of C12 are
// proportional to the corpus size) but distinct for every field of a struct and every element.
func shortName(owner, fname string, salt int) string {
	ini := ""
	for _, r := range owner {
		if r >= 'A' && r <= 'Z' {
			ini += string(r)
		}
	}
	if len(fname) > 4 {
		fname = fname[:4]
	}
	return fmt.Sprintf("%s.%s%d", ini, fname, salt)
}

func (g *Gen) slice(t reflect.Type, c ctx, n int) reflect.Value {
	s := reflect.MakeSlice(t, 0, n)
	for k := 0; k < n; k++ {
		cc := c
		cc.salt = c.salt + k
		s = reflect.Append(s, g.base(t.Elem(), cc))
	}
	return s
}

// BaseMapKey is the key of the single element of a base map.
const BaseMapKey = 7

func (g *Gen) mapOf(t reflect.Type, c ctx, n int) reflect.Value {
	m := reflect.MakeMap(t)
	keys := []uint64{BaseMapKey}
	if n == 3 {
		keys = []uint64{0, 1, math.MaxUint32}
	}
	if n == 0 {
		keys = nil
	}
	for k, key := range keys {
		cc := c
		cc.salt = c.salt + k
		kv := reflect.New(t.Key()).Elem()
		kv.SetUint(key)
		m.SetMapIndex(kv, g.base(t.Elem(), cc))
	}
	return m
}

type labeled struct {
	label string
	v     reflect.Value
	big   bool
}

var (
	nonASCII = "日本語ñ€𝄞"
	str300   = strings.Repeat("0123456789abcdefghijklmnopqrst", 10)
	fixedUTC = time.Date(2023, 8, 9, 12, 34, 56, 123456789, time.UTC)
	fixedJST = time.Date(2031, 1, 2, 3, 4, 5, 6007, time.FixedZone("JST", 9*3600))
)

// Payload70000 is the large payload of the grid.
var Payload70000 = func() []byte {
	b := make([]byte, 70000)
	for i := range b {
		b[i] = byte(i*7 + i>>8)
	}
	return b
}()

// leafDomain returns the small domain of a leaf type (ok=false: not a leaf).
func (g *Gen) leafDomain(t reflect.Type, c ctx) (vals []labeled, kind string, ok bool) {
	conv := func(x any) reflect.Value { return reflect.ValueOf(x).Convert(t) }
	switch {
	case t == tDuration:
		u, have := wireUnit[c.key()]
		if !have {
			g.problem("duration field %s has no documented wire unit in the generator", c.key())
			return nil, "duration", true
		}
		vals = []labeled{{"0", conv(time.Duration(0)), false}, {"1unit", conv(u), false}}
		if u > 1 {
			vals = append(vals, labeled{"1.5unit", conv(u + u/2), false}, labeled{"unit-1ns", conv(u - 1), false})
		}
		max := wireMaxUnits[c.key()]
		if max > math.MaxInt64/int64(u) {
			max = math.MaxInt64 / int64(u)
		}
		vals = append(vals, labeled{"86400units", conv(time.Duration(86400) * u), false}, labeled{"maxunits", conv(time.Duration(max) * u), false})
		// values the wire field cannot carry: refused, or (if the unit arithmetic allows) carried exactly - never wrapped
		if wireMaxUnits[c.key()] <= math.MaxUint32 {
			vals = append(vals, labeled{"out-of-range:maxunits+1", conv(time.Duration(wireMaxUnits[c.key()]+1) * u), false})
		}
		if !signedDuration[c.key()] {
			vals = append(vals, labeled{"out-of-range:-1unit", conv(-u), false})
		}
		if signedDuration[c.key()] {
			vals = append(vals, labeled{"-1unit", conv(-u), false}, labeled{"minunits", conv(time.Duration(math.MinInt64)), false})
		}
		return vals, "duration", true
	case t == tTime:
		return []labeled{{"zero", conv(time.Time{}), false}, {"utc", conv(fixedUTC), false}, {"non-utc", conv(fixedJST), false},
			// instants the wire's 64-bit nanosecond count cannot carry (it spans 1677-2262): refused, or carried exactly - never wrapped
			{"out-of-range:year2300", conv(time.Date(2300, 1, 1, 0, 0, 0, 0, time.UTC)), false},
			{"out-of-range:year1600", conv(time.Date(1600, 1, 1, 0, 0, 0, 0, time.UTC)), false},
			{"out-of-range:zero+1ns", conv(time.Time{}.Add(1)), false}}, "time", true
	case t == tUUID:
		return []labeled{{"nil", conv(uuid.UUID{}), false}, {"fixed", conv(fixedUUID), false}}, "uuid", true
	case t == tRC:
		for _, k := range g.RC.Consts {
			vals = append(vals, labeled{k.Name, conv(message.ResultCode(k.Value)), false})
		}
		return vals, "enum:ResultCode", true
	case t == tQoS:
		for _, k := range g.QoS.Consts {
			vals = append(vals, labeled{k.Name, conv(message.QoS(k.Value)), false})
		}
		return vals, "enum:QoS", true
	case t == tBytes:
		return []labeled{{"nil", reflect.Zero(t), false}, {"empty", conv([]byte{}), false}, {"1byte", conv([]byte{0x80}), false}, {"70000bytes", conv(Payload70000), true}}, "bytes", true
	}
	switch t.Kind() {
	case reflect.String:
		return []labeled{{"empty", conv(""), false}, {"a", conv("a"), false}, {"non-ascii", conv(nonASCII), false}, {"300bytes", conv(str300), false},
			// not valid UTF-8 (a protobuf string must be): refused, or carried exactly by both encodings - never rewritten
			{"out-of-range:invalid-utf8", conv("a\xffb"), false}}, "string", true
	case reflect.Bool:
		return []labeled{{"false", conv(false), false}, {"true", conv(true), false}}, "bool", true
	case reflect.Uint8:
		return []labeled{{"0", conv(uint8(0)), false}, {"1", conv(uint8(1)), false}, {"max", conv(uint8(math.MaxUint8)), false}}, "uint", true
	case reflect.Uint32:
		return []labeled{{"0", conv(uint32(0)), false}, {"1", conv(uint32(1)), false}, {"max", conv(uint32(math.MaxUint32)), false}}, "uint", true
	case reflect.Uint64:
		return []labeled{{"0", conv(uint64(0)), false}, {"1", conv(uint64(1)), false}, {"max", conv(uint64(math.MaxUint64)), false}}, "uint", true
	}
	return nil, "", false
}

// badEnumValues are values of the library enumeration types that are NOT declared constants.
func (g *Gen) badEnumValues(t reflect.Type) []labeled {
	ei := g.RC
	if t == tQoS {
		ei = g.QoS
	}
	cands := []int64{0, -1, 255, math.MaxInt32}
	first := int64(0)
	for ei.ConstName(first) != "" {
		first++
	}
	cands = append(cands, first)
	var out []labeled
	seen := map[int64]bool{}
	for _, x := range cands {
		if ei.ConstName(x) != "" || seen[x] {
			continue
		}
		if t == tQoS && (x < 0 || x > 255) {
			continue
		}
		seen[x] = true
		out = append(out, labeled{fmt.Sprint(x), reflect.ValueOf(x).Convert(t), false})
	}
	return out
}

type getter func(root reflect.Value) (reflect.Value, bool)

func copyReq(req map[string]string, k, v string) map[string]string {
	out := map[string]string{}
	for a, b := range req {
		out[a] = b
	}
	if k != "" {
		out[k] = v
	}
	return out
}

func (g *Gen) walkStruct(out *[]*Var, t reflect.Type, path string, get getter, req map[string]string) {
	for i := 0; i < t.NumField(); i++ {
		i := i
		f := t.Field(i)
		p := f.Name
		if path != "" {
			p = path + "." + f.Name
		}
		fget := func(root reflect.Value) (reflect.Value, bool) {
			v, ok := get(root)
			if !ok {
				return v, false
			}
			return v.Field(i), true
		}
		g.walk(out, f.Type, ctx{owner: t.Name(), fname: f.Name, idx: i}, p, fget, req)
	}
}

func (g *Gen) walk(out *[]*Var, t reflect.Type, c ctx, path string, get getter, req map[string]string) {
	add := func(label, kind string, big bool, apply func(root reflect.Value) bool) {
		*out = append(*out, &Var{Path: path, Field: c.key(), Label: label, Kind: kind, Big: big, req: req, apply: apply})
	}
	setter := func(x reflect.Value) func(root reflect.Value) bool {
		return func(root reflect.Value) bool {
			v, ok := get(root)
			if !ok {
				return false
			}
			v.Set(x)
			return true
		}
	}
	if dom, kind, ok := g.leafDomain(t, c); ok {
		for _, d := range dom {
			k := kind
			if strings.HasPrefix(d.label, "out-of-range:") {
				k = "niloneof" // relaxed: the encoder may refuse it, but what it encodes must decode to the same value
			}
			add(d.label, k, d.big, setter(d.v))
		}
		if t == tRC || t == tQoS {
			for _, d := range g.badEnumValues(t) {
				add(d.label, "badenum", false, setter(d.v))
			}
		}
		return
	}
	switch t.Kind() {
	case reflect.Pointer:
		if t.Elem().Kind() != reflect.Struct {
			g.problem("field %s: pointer to %s is not supported by the generator", c.key(), t.Elem())
			return
		}
		kind := "ptr"
		if isExt(t) {
			kind = "ext"
		}
		add("nil", kind, false, setter(reflect.Zero(t)))
		add("present-empty", kind, false, func(root reflect.Value) bool {
			v, ok := get(root)
			if !ok {
				return false
			}
			v.Set(reflect.New(t.Elem()))
			return true
		})
		eget := func(root reflect.Value) (reflect.Value, bool) {
			v, ok := get(root)
			if !ok || v.IsNil() {
				return v, false
			}
			return v.Elem(), true
		}
		g.walkStruct(out, t.Elem(), path, eget, req)
	case reflect.Slice:
		if t.Elem().Kind() != reflect.Pointer || t.Elem().Elem().Kind() != reflect.Struct {
			g.problem("field %s: slice of %s is not supported by the generator", c.key(), t.Elem())
			return
		}
		add("nil", "slice", false, setter(reflect.Zero(t)))
		add("empty", "slice", false, setter(reflect.MakeSlice(t, 0, 0)))
		add("n=3", "slice", false, func(root reflect.Value) bool {
			v, ok := get(root)
			if !ok {
				return false
			}
			v.Set(g.slice(t, c, 3))
			return true
		})
		// a nil element: the encoder may refuse it, but what it encodes the decoder must accept (kind niloneof: relaxed)
		add("nil-element", "niloneof", false, func(root reflect.Value) bool {
			v, ok := get(root)
			if !ok {
				return false
			}
			sl := g.slice(t, c, 1)
			ns := reflect.MakeSlice(t, 2, 2) // [element, nil]
			ns.Index(0).Set(sl.Index(0))
			v.Set(ns)
			return true
		})
		eget := func(root reflect.Value) (reflect.Value, bool) {
			v, ok := get(root)
			if !ok || v.Len() == 0 || v.Index(0).IsNil() {
				return v, false
			}
			return v.Index(0).Elem(), true
		}
		g.walkStruct(out, t.Elem().Elem(), path+"[0]", eget, req)
	case reflect.Map:
		if t.Key().Kind() != reflect.Uint32 || t.Elem().Kind() != reflect.Pointer || t.Elem().Elem().Kind() != reflect.Struct {
			g.problem("field %s: map type %s is not supported by the generator", c.key(), t)
			return
		}
		add("nil", "map", false, setter(reflect.Zero(t)))
		add("empty", "map", false, func(root reflect.Value) bool {
			v, ok := get(root)
			if !ok {
				return false
			}
			v.Set(reflect.MakeMap(t))
			return true
		})
		add("n=3", "map", false, func(root reflect.Value) bool {
			v, ok := get(root)
			if !ok {
				return false
			}
			v.Set(g.mapOf(t, c, 3))
			return true
		})
		add("nil-value", "niloneof", false, func(root reflect.Value) bool {
			v, ok := get(root)
			if !ok {
				return false
			}
			mp := g.mapOf(t, c, 1)
			mp.SetMapIndex(reflect.ValueOf(uint32(7)), reflect.Zero(t.Elem()))
			v.Set(mp)
			return true
		})
		eget := func(root reflect.Value) (reflect.Value, bool) {
			v, ok := get(root)
			if !ok || v.Len() == 0 {
				return v, false
			}
			// the element with the smallest key
			keys := v.MapKeys()
			sort.Slice(keys, func(i, j int) bool { return keys[i].Uint() < keys[j].Uint() })
			e := v.MapIndex(keys[0])
			if e.IsNil() {
				return v, false
			}
			return e.Elem(), true
		}
		g.walkStruct(out, t.Elem().Elem(), path+"[k]", eget, req)
	case reflect.Interface:
		add("nil", "niloneof", false, setter(reflect.Zero(t)))
		for _, vt := range g.impls(t) {
			vt := vt
			vname := vt.Name()
			if vt.Kind() == reflect.Pointer {
				vname = vt.Elem().Name()
			}
			vpath := path + "<" + vname + ">"
			vreq := copyReq(req, path, vname)
			if vt.Kind() == reflect.Pointer && vt.Elem().Kind() == reflect.Struct {
				*out = append(*out, &Var{Path: vpath, Field: c.key(), Label: "base", Kind: "variant", req: vreq, apply: func(root reflect.Value) bool {
					v, ok := get(root)
					if !ok {
						return false
					}
					v.Set(g.base(vt, c))
					return true
				}})
				eget := func(root reflect.Value) (reflect.Value, bool) {
					v, ok := get(root)
					if !ok {
						return v, false
					}
					if v.IsNil() || v.Elem().Type() != vt {
						v.Set(g.base(vt, c))
					}
					return v.Elem().Elem(), true
				}
				g.walkStruct(out, vt.Elem(), vpath, eget, vreq)
				continue
			}
			dom, kind, ok := g.leafDomain(vt, c)
			if !ok {
				g.problem("oneof variant %s of field %s is not supported by the generator", vt, c.key())
				continue
			}
			for _, d := range dom {
				*out = append(*out, &Var{Path: vpath, Field: c.key(), Label: d.label, Kind: kind, req: vreq, apply: setter(d.v)})
			}
		}
	default:
		g.problem("field %s: type %s is not supported by the generator", c.key(), t)
	}
}

// Compatible reports whether two variations can be combined into one message.
func Compatible(a, b *Var) bool {
	if a.Path == b.Path {
		return false
	}
	for k, v := range a.req {
		if w, ok := b.req[k]; ok && w != v {
			return false
		}
	}
	return true
}

// Build constructs the base value of the message type with the given variations applied
// (shorter paths first). ok=false: the variations do not compose (e.g. a field of an element of a
// collection that another variation emptied).
func (g *Gen) Build(spec *MsgSpec, vars ...*Var) (m message.Message, ok bool) {
	root := reflect.New(spec.Type)
	root.Elem().Set(g.base(spec.Type, ctx{owner: spec.Name}))
	vs := append([]*Var(nil), vars...)
	sort.SliceStable(vs, func(i, j int) bool { return len(vs[i].Path) < len(vs[j].Path) })
	for _, v := range vs {
		if !v.apply(root.Elem()) {
			return nil, false
		}
	}
	return root.Interface().(message.Message), true
}

// FindVar looks a variation up by path and label (replay).
func (s *MsgSpec) FindVar(path, label string) *Var {
	for _, v := range s.Vars {
		if v.Path == path && v.Label == label {
			return v
		}
	}
	return nil
}

// Canon rewrites m IN PLACE into the documented canonical form:
//   - durations truncated (toward zero) to the wire unit of the field,
//   - times in UTC; the zero time of a ...OrUnixZero field is Unix time 0,
//   - a library enumeration constant that is a documented alias of another one on the wire
//     (NORMAL_CLOSURE = SUCCEEDED = 0, option allow_alias) becomes the constant named like the
//     primary wire enumerator,
//   - absent (nil) collections and absent non-extension sub-structures are empty ones.
//
// It never calls the converter.
func (g *Gen) Canon(m message.Message) message.Message {
	v := reflect.ValueOf(m)
	g.canon(v.Elem(), ctx{owner: v.Elem().Type().Name()})
	return m
}

func (g *Gen) canon(v reflect.Value, c ctx) {
	t := v.Type()
	switch {
	case t == tDuration:
		if u := wireUnit[c.key()]; u > 1 {
			v.SetInt(v.Int() - v.Int()%int64(u))
		}
		return
	case t == tTime:
		tm := v.Interface().(time.Time)
		if tm.IsZero() && unixZeroTime[c.key()] {
			tm = time.Unix(0, 0)
		}
		v.Set(reflect.ValueOf(tm.UTC()))
		return
	case t == tUUID:
		return
	case t == tRC:
		if canon, ok := g.RC.Aliases[g.RC.ConstName(v.Int())]; ok {
			for _, k := range g.RC.Consts {
				if k.Name == canon {
					v.SetInt(k.Value)
				}
			}
		}
		return
	case t == tBytes:
		if v.IsNil() {
			v.SetBytes([]byte{})
		}
		return
	}
	switch t.Kind() {
	case reflect.Struct:
		for i := 0; i < t.NumField(); i++ {
			g.canon(v.Field(i), ctx{owner: t.Name(), fname: t.Field(i).Name, idx: i})
		}
	case reflect.Pointer:
		if v.IsNil() {
			if isExt(t) {
				return
			}
			v.Set(reflect.New(t.Elem()))
		}
		g.canon(v.Elem(), c)
	case reflect.Slice:
		if v.IsNil() {
			v.Set(reflect.MakeSlice(t, 0, 0))
		}
		for i := 0; i < v.Len(); i++ {
			g.canon(v.Index(i), c)
		}
	case reflect.Map:
		if v.IsNil() {
			v.Set(reflect.MakeMap(t))
		}
		for _, k := range v.MapKeys() {
			if e := v.MapIndex(k); e.Kind() == reflect.Pointer && e.IsNil() {
				v.SetMapIndex(k, reflect.New(t.Elem().Elem())) // canonical form of a nil value: the zero struct
			}
			g.canon(v.MapIndex(k), c) // elements are pointers
		}
	case reflect.Interface:
		if v.IsNil() {
			return
		}
		e := v.Elem()
		if e.Kind() == reflect.Pointer {
			g.canon(e, c)
		}
	}
}

// Diff describes the first difference between two values.
type Diff struct {
	Path   string // generic path with [i] / [k] placeholders
	Field  string // innermost Struct.Field
	Detail string
}

// Equal compares want and got structurally. nil and empty collections are the same value (the
// documented canonical form does not distinguish them); everything else is strict, including
// dynamic types of oneofs, presence of extension fields, order of lists and the time zone.
func Equal(want, got any) *Diff {
	return equal(reflect.ValueOf(want), reflect.ValueOf(got), "", "")
}

func short(v reflect.Value) string {
	s := fmt.Sprintf("%+v", v)
	if len(s) > 80 {
		s = s[:80] + "..."
	}
	return s
}

func equal(a, b reflect.Value, path, field string) *Diff {
	if a.IsValid() != b.IsValid() {
		return &Diff{path, field, "one side is absent"}
	}
	if !a.IsValid() {
		return nil
	}
	if a.Type() != b.Type() {
		return &Diff{path, field, fmt.Sprintf("type %s, got %s", a.Type(), b.Type())}
	}
	t := a.Type()
	switch {
	case t == tTime:
		x, y := a.Interface().(time.Time), b.Interface().(time.Time)
		_, xo := x.Zone()
		_, yo := y.Zone()
		if !x.Equal(y) || xo != yo {
			return &Diff{path, field, fmt.Sprintf("want %s, got %s", x.Format(time.RFC3339Nano), y.Format(time.RFC3339Nano))}
		}
		return nil
	case t == tBytes:
		x, y := a.Bytes(), b.Bytes()
		if string(x) != string(y) {
			return &Diff{path, field, fmt.Sprintf("want %d bytes, got %d bytes (or different content)", len(x), len(y))}
		}
		return nil
	}
	switch t.Kind() {
	case reflect.Struct:
		for i := 0; i < t.NumField(); i++ {
			p := t.Field(i).Name
			if path != "" {
				p = path + "." + p
			}
			if d := equal(a.Field(i), b.Field(i), p, t.Name()+"."+t.Field(i).Name); d != nil {
				return d
			}
		}
		return nil
	case reflect.Pointer:
		if a.IsNil() != b.IsNil() {
			return &Diff{path, field, fmt.Sprintf("want nil=%v, got nil=%v", a.IsNil(), b.IsNil())}
		}
		if a.IsNil() {
			return nil
		}
		return equal(a.Elem(), b.Elem(), path, field)
	case reflect.Interface:
		if a.IsNil() != b.IsNil() {
			return &Diff{path, field, fmt.Sprintf("want nil=%v, got nil=%v", a.IsNil(), b.IsNil())}
		}
		if a.IsNil() {
			return nil
		}
		if a.Elem().Type() != b.Elem().Type() {
			return &Diff{path, field, fmt.Sprintf("want variant %s, got %s", a.Elem().Type(), b.Elem().Type())}
		}
		n := a.Elem().Type()
		name := n.Name()
		if n.Kind() == reflect.Pointer {
			name = n.Elem().Name()
		}
		return equal(a.Elem(), b.Elem(), path+"<"+name+">", field)
	case reflect.Slice:
		if a.Len() != b.Len() {
			return &Diff{path, field, fmt.Sprintf("want %d elements, got %d", a.Len(), b.Len())}
		}
		for i := 0; i < a.Len(); i++ {
			if d := equal(a.Index(i), b.Index(i), path+"[i]", field); d != nil {
				d.Detail = fmt.Sprintf("element %d: %s", i, d.Detail)
				return d
			}
		}
		return nil
	case reflect.Map:
		if a.Len() != b.Len() {
			return &Diff{path, field, fmt.Sprintf("want %d entries, got %d", a.Len(), b.Len())}
		}
		keys := a.MapKeys()
		sort.Slice(keys, func(i, j int) bool { return keys[i].Uint() < keys[j].Uint() })
		for _, k := range keys {
			bv := b.MapIndex(k)
			if !bv.IsValid() {
				return &Diff{path, field, fmt.Sprintf("key %d missing", k.Uint())}
			}
			if d := equal(a.MapIndex(k), bv, path+"[k]", field); d != nil {
				d.Detail = fmt.Sprintf("key %d: %s", k.Uint(), d.Detail)
				return d
			}
		}
		return nil
	case reflect.Array:
		for i := 0; i < a.Len(); i++ {
			if a.Index(i).Uint() != b.Index(i).Uint() {
				return &Diff{path, field, fmt.Sprintf("want %x, got %x", a.Interface(), b.Interface())}
			}
		}
		return nil
	case reflect.String:
		if a.String() != b.String() {
			return &Diff{path, field, fmt.Sprintf("want %q, got %q", trunc(a.String()), trunc(b.String()))}
		}
	case reflect.Bool:
		if a.Bool() != b.Bool() {
			return &Diff{path, field, fmt.Sprintf("want %v, got %v", a.Bool(), b.Bool())}
		}
	case reflect.Int, reflect.Int8, reflect.Int16, reflect.Int32, reflect.Int64:
		if a.Int() != b.Int() {
			return &Diff{path, field, fmt.Sprintf("want %d, got %d", a.Int(), b.Int())}
		}
	case reflect.Uint, reflect.Uint8, reflect.Uint16, reflect.Uint32, reflect.Uint64:
		if a.Uint() != b.Uint() {
			return &Diff{path, field, fmt.Sprintf("want %d, got %d", a.Uint(), b.Uint())}
		}
	default:
		if !reflect.DeepEqual(a.Interface(), b.Interface()) {
			return &Diff{path, field, "want " + short(a) + ", got " + short(b)}
		}
	}
	return nil
}

func trunc(s string) string {
	if len(s) > 40 {
		return s[:40] + "..."
	}
	return s
}

// EnumLeaves returns, in traversal order (struct field order, list order, ascending map keys),
// the addressable leaves of the given enumeration type inside m.
func EnumLeaves(m any, enum string) []reflect.Value {
	want := tRC
	if enum == "QoS" {
		want = tQoS
	}
	var out []reflect.Value
	var rec func(v reflect.Value)
	rec = func(v reflect.Value) {
		if v.Type() == want {
			out = append(out, v)
			return
		}
		switch v.Kind() {
		case reflect.Struct:
			if v.Type() == tTime {
				return
			}
			for i := 0; i < v.NumField(); i++ {
				rec(v.Field(i))
			}
		case reflect.Pointer, reflect.Interface:
			if !v.IsNil() {
				rec(v.Elem())
			}
		case reflect.Slice:
			if v.Type() == tBytes {
				return
			}
			for i := 0; i < v.Len(); i++ {
				rec(v.Index(i))
			}
		case reflect.Map:
			keys := v.MapKeys()
			sort.Slice(keys, func(i, j int) bool { return keys[i].Uint() < keys[j].Uint() })
			for _, k := range keys {
				rec(v.MapIndex(k))
			}
		}
	}
	rec(reflect.ValueOf(m))
	return out
}
