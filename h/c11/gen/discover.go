// Package gen is the message-grammar generator shared by the C11 (round trip) and C12
// (hostile bytes) harnesses: discovery of the message grammar from the sources of
// /repo/message, reflection driven enumeration of field variations, the documented canonical
// form, a structural comparator, and schema aware protobuf / JSON trees.
package gen

import (
	"fmt"
	"go/ast"
	"go/constant"
	"go/parser"
	"go/token"
	"go/types"
	"os"
	"path/filepath"
	"sort"
	"strings"
)

// RepoDir is the tree under test (vcheck exports VERIF_REPO for scratch copies).
func RepoDir() string {
	if r := os.Getenv("VERIF_REPO"); r != "" {
		return r
	}
	return "/repo"
}

// Const is one constant of an enumeration type of package message.
type Const struct {
	Name  string
	Value int64
}

// Impl is one type implementing a marker interface.
type Impl struct {
	Name    string
	Pointer bool // only *T implements the interface
}

// Source is what the sources of /repo/message declare.
type Source struct {
	// MessageTypes are the named types with an isMessage method.
	MessageTypes []Impl
	// Impls maps the name of every interface declared in the package to its implementers.
	Impls map[string][]Impl
	// Consts maps a named type to the constants declared with that type.
	Consts map[string][]Const
	// Structs lists every struct type declared in the package.
	Structs []string
}

type fakeImporter struct{}

func (fakeImporter) Import(path string) (*types.Package, error) {
	name := path
	if i := strings.LastIndex(path, "/"); i >= 0 {
		name = path[i+1:]
	}
	p := types.NewPackage(path, name)
	p.MarkComplete()
	return p, nil
}

// Discover parses and (tolerantly) type-checks <repo>/message. Imports are stubbed, so fields of
// foreign types are invalid – irrelevant here: only method sets of the local types and the local
// constant values are used.
func Discover() (*Source, error) {
	dir := filepath.Join(RepoDir(), "message")
	fset := token.NewFileSet()
	pkgs, err := parser.ParseDir(fset, dir, func(fi os.FileInfo) bool { return !strings.HasSuffix(fi.Name(), "_test.go") }, 0)
	if err != nil {
		return nil, err
	}
	p, ok := pkgs["message"]
	if !ok {
		return nil, fmt.Errorf("package message not found in %s", dir)
	}
	var files []*ast.File
	var names []string
	for n := range p.Files {
		names = append(names, n)
	}
	sort.Strings(names)
	for _, n := range names {
		files = append(files, p.Files[n])
	}
	conf := types.Config{Importer: fakeImporter{}, Error: func(error) {}}
	pkg, _ := conf.Check("github.com/aptpod/iscp-go/message", fset, files, nil)
	if pkg == nil {
		return nil, fmt.Errorf("type check of %s produced no package", dir)
	}
	src := &Source{Impls: map[string][]Impl{}, Consts: map[string][]Const{}}
	scope := pkg.Scope()
	var ifaces []*types.TypeName
	var named []*types.TypeName
	for _, n := range scope.Names() {
		switch o := scope.Lookup(n).(type) {
		case *types.TypeName:
			if o.IsAlias() {
				continue
			}
			if _, isI := o.Type().Underlying().(*types.Interface); isI {
				ifaces = append(ifaces, o)
				continue
			}
			named = append(named, o)
			if _, isS := o.Type().Underlying().(*types.Struct); isS {
				src.Structs = append(src.Structs, n)
			}
		case *types.Const:
			if nt, ok := o.Type().(*types.Named); ok && nt.Obj().Pkg() == pkg {
				if v, exact := constant.Int64Val(constant.ToInt(o.Val())); exact {
					src.Consts[nt.Obj().Name()] = append(src.Consts[nt.Obj().Name()], Const{Name: n, Value: v})
				}
			}
		}
	}
	for k := range src.Consts {
		c := src.Consts[k]
		sort.Slice(c, func(i, j int) bool {
			if c[i].Value != c[j].Value {
				return c[i].Value < c[j].Value
			}
			return c[i].Name < c[j].Name
		})
	}
	for _, i := range ifaces {
		it := i.Type().Underlying().(*types.Interface)
		for _, t := range named {
			switch {
			case types.Implements(t.Type(), it):
				src.Impls[i.Name()] = append(src.Impls[i.Name()], Impl{Name: t.Name()})
			case types.Implements(types.NewPointer(t.Type()), it):
				src.Impls[i.Name()] = append(src.Impls[i.Name()], Impl{Name: t.Name(), Pointer: true})
			}
		}
	}
	// message types: "every type with an isMessage method" (independent of the interface lookup)
	for _, t := range named {
		nt := t.Type().(*types.Named)
		for i := 0; i < nt.NumMethods(); i++ {
			m := nt.Method(i)
			if m.Name() == "isMessage" {
				_, ptr := m.Type().(*types.Signature).Recv().Type().(*types.Pointer)
				src.MessageTypes = append(src.MessageTypes, Impl{Name: t.Name(), Pointer: ptr})
			}
		}
	}
	if len(src.MessageTypes) == 0 {
		return nil, fmt.Errorf("no type with an isMessage method found in %s", dir)
	}
	return src, nil
}
