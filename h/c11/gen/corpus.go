package gen

import "fmt"

// Entry is one valid encoding of the C11 corpus.
type Entry struct {
	Msg   string // message type
	Var   string // variation ("" = base value)
	Kind  string // kind of the variation ("base" for the base value)
	Shape bool   // base value or another oneof variant of it (used for structure aware mutation)
	Big   bool
	PB    []byte // protobuf encoding, map entries ordered by key (deterministic)
	JSON  []byte
}

// Corpus returns the valid encodings of the C11 one-at-a-time grid (messages the library refuses
// to encode, or whose encoding it cannot decode, are left out; C11 reports those), without duplicates.
func (g *Gen) Corpus(s *Schema) ([]Entry, error) {
	cs := Codecs()
	var out []Entry
	seenPB, seenJS := map[string]bool{}, map[string]bool{}
	for _, spec := range g.Specs {
		cases := [][]*Var{nil}
		for _, v := range spec.Vars {
			cases = append(cases, []*Var{v})
		}
		for _, vars := range cases {
			m, ok := g.Build(spec, vars...)
			if !ok {
				continue
			}
			e := Entry{Msg: spec.Name, Shape: len(vars) == 0, Kind: "base"}
			if len(vars) == 1 {
				e.Var = vars[0].String()
				e.Big = vars[0].Big
				e.Kind = vars[0].Kind
				e.Shape = vars[0].Kind == "variant"
			}
			pb, _, err, pan := SafeEncode(cs[0].E, m)
			js, _, err2, pan2 := SafeEncode(cs[1].E, m)
			if err != nil || err2 != nil || pan != "" || pan2 != "" {
				continue
			}
			if dm, _, _, derr, dpan := SafeDecode(cs[0].E, pb); derr != nil || dpan != "" || dm == nil {
				continue
			}
			tree, perr := ParsePB(s.Root, pb)
			if perr != nil {
				return nil, fmt.Errorf("%s{%s}: independent parser rejects the library's encoding: %v", spec.Name, e.Var, perr)
			}
			SortMapsPB(tree)
			e.PB = SerializePB(tree)
			if len(e.PB) != len(pb) {
				return nil, fmt.Errorf("%s{%s}: re-serialised tree has %d bytes, encoding %d", spec.Name, e.Var, len(e.PB), len(pb))
			}
			e.JSON = append([]byte(nil), js...)
			if seenPB[string(e.PB)] && seenJS[string(e.JSON)] {
				continue
			}
			seenPB[string(e.PB)], seenJS[string(e.JSON)] = true, true
			out = append(out, e)
		}
	}
	return out, nil
}
