// c12: decoders never crash on hostile bytes and accept only self-consistent messages (mode I).
//
// Bounded-exhaustive, not fuzzing: (a) every byte string up to a length, (b) every single byte
// level mutation of every valid encoding of the C11 corpus, (c) every structure aware single
// mutation (thorough: every pair) of the parsed protobuf field tree / JSON tree of every message
// shape. Every input is decoded in a child process (address space limit, 10 s watchdog per input;
// a hang or the death of the child is a violation with the input as artefact).
//
// NOT covered here: the frame level part of C12 (arbitrary frames through the wire connection's
// read path) needs the scheduler and lives in another harness.
package main

import (
	"bufio"
	"encoding/hex"
	"encoding/json"
	"flag"
	"fmt"
	"io"
	"os"
	"os/exec"
	"runtime"
	"sort"
	"strings"
	"sync"
	"time"

	"github.com/aptpod/iscp-go/internal/vh/c11/gen"
	"github.com/aptpod/iscp-go/internal/vh/lib"
)

var (
	flagChild   = flag.Bool("c12child", false, "internal: run as decoding child")
	flagCareful = flag.Bool("c12careful", false, "internal: child reports every case index before running it")
)

type replayCase struct {
	Shard shard  `json:"shard"`
	Idx   int    `json:"idx"`
	Input string `json:"input_hex,omitempty"`
	What  string `json:"what"` // violation | hang | process-death
}

// child is one decoding process.
// tailBuf keeps the last bytes a child wrote to stderr (the Go runtime prints the reason of a fatal
// error there).
type tailBuf struct {
	mu sync.Mutex
	b  []byte
}

func (t *tailBuf) Write(p []byte) (int, error) {
	t.mu.Lock()
	t.b = append(t.b, p...)
	if len(t.b) > 3000 {
		t.b = t.b[len(t.b)-3000:]
	}
	t.mu.Unlock()
	return len(p), nil
}

func (t *tailBuf) String() string {
	t.mu.Lock()
	defer t.mu.Unlock()
	s := string(t.b)
	if i := strings.Index(s, "\n\ngoroutine "); i > 0 {
		s = s[:i] // the reason, not the goroutine dump
	}
	if len(s) > 600 {
		s = s[:600]
	}
	return s
}

type child struct {
	errTail *tailBuf
	cmd     *exec.Cmd
	in      io.WriteCloser
	out     *bufio.Reader
	careful bool
}

// confirmTimeout is the watchdog of the confirmation run of a case that exceeded caseTimeout.
const confirmTimeout = 60

func startChild(careful bool) *child { return startChildT(careful, 0) }

func startChildT(careful bool, timeoutSec int) *child {
	args := []string{"-c12child"}
	if careful {
		args = append(args, "-c12careful")
	}
	cmd := exec.Command(os.Args[0], args...)
	cmd.Env = append(os.Environ(), "GOMAXPROCS=2")
	if timeoutSec > 0 {
		cmd.Env = append(cmd.Env, fmt.Sprintf("VERIF_C12_TIMEOUT=%d", timeoutSec))
	}
	tail := &tailBuf{}
	cmd.Stderr = tail
	in, _ := cmd.StdinPipe()
	out, _ := cmd.StdoutPipe()
	if err := cmd.Start(); err != nil {
		fmt.Fprintln(os.Stderr, "ENGINE-ERROR: cannot start decoding child:", err)
		os.Exit(2)
	}
	return &child{errTail: tail, cmd: cmd, in: in, out: bufio.NewReaderSize(out, 1<<20), careful: careful}
}

func (c *child) stop() {
	c.in.Close()
	c.cmd.Process.Kill()
	c.cmd.Wait()
}

type outcome struct {
	rep  *reply
	hang *struct {
		Idx       int
		Op, Input string
	}
	died    bool
	lastIdx int // careful mode: last case index announced
}

func (c *child) run(sh shard) outcome {
	b, _ := json.Marshal(sh)
	if _, err := c.in.Write(append(b, '\n')); err != nil {
		return outcome{died: true, lastIdx: -1}
	}
	last := -1
	for {
		line, err := c.out.ReadBytes('\n')
		if err != nil {
			return outcome{died: true, lastIdx: last}
		}
		switch {
		case len(line) > 1 && line[0] == '@':
			fmt.Sscan(string(line[1:]), &last)
		case len(line) > 2 && line[0] == 'H':
			h := &struct {
				Idx       int
				Op, Input string
			}{}
			json.Unmarshal(line[2:], h)
			return outcome{hang: &struct {
				Idx       int
				Op, Input string
			}{h.Idx, h.Op, h.Input}}
		case len(line) > 2 && line[0] == 'R':
			rep := &reply{}
			if err := json.Unmarshal(line[2:], rep); err != nil {
				return outcome{died: true, lastIdx: last}
			}
			return outcome{rep: rep, lastIdx: last}
		}
	}
}

// runner executes shards on children and folds the results into the Explore.
type runner struct {
	e        *vlib.Explore
	mu       sync.Mutex
	decoded  int64
	gates    int64
	types    map[string]int64
	deaths   int
	hangs    int
	slow     int
	shards   int
	engErr   string
	perFam   map[string]int64
	seen     []string
	viols    map[string]*vrec
	t0       time.Time
	deadline time.Duration
	skipped  map[string]int
	samples  map[string]map[string]any
}

func (r *runner) fold(sh shard, rep *reply) {
	r.e.CaseN(sh.family(), rep.Evals)
	if rep.Gates > 0 {
		r.e.CaseN("d:size-gate:"+sh.Enc, rep.Gates)
	}
	r.mu.Lock()
	r.decoded += rep.Decoded
	r.gates += rep.Gates
	for k, v := range rep.Types {
		r.types[k] += v
	}
	if rep.Err != "" && r.engErr == "" {
		r.engErr = fmt.Sprintf("shard %+v: %s", sh, rep.Err)
	}
	r.mu.Unlock()
	for _, v := range rep.Viols {
		one := sh
		one.Start, one.Limit = v.Idx, 1
		r.violationN(v.Sig, v.Detail, replayCase{Shard: one, Idx: v.Idx, Input: v.Input, What: "violation"}, v.Len, v.Count)
	}
	if rep.Sample != nil {
		r.mu.Lock()
		if _, ok := r.samples[sh.family()]; !ok {
			r.samples[sh.family()] = rep.Sample
		}
		r.mu.Unlock()
	}
}

// exec runs one shard to completion, surviving hangs and deaths of the child.
func (r *runner) exec(c **child, sh shard) {
	for {
		o := (*c).run(sh)
		switch {
		case o.rep != nil:
			r.fold(sh, o.rep)
			if (*c).careful {
				// the death did not reproduce under observation
				r.violation("C12.process-death:"+sh.Enc+":"+sh.family()+":not-reproducible", fmt.Sprintf("the decoding child died while working on shard %+v but survived the same shard when re-run", sh), replayCase{Shard: sh, What: "process-death"})
				(*c).stop()
				*c = startChild(false)
			}
			return
		case o.hang != nil:
			one := sh
			one.Start, one.Limit = o.hang.Idx, 1
			(*c).stop()
			// confirm in a fresh child with a generous limit: the machine may just be busy
			cc := startChildT(false, confirmTimeout)
			o2 := cc.run(one)
			cc.stop()
			*c = startChild(false)
			if o2.rep != nil {
				r.mu.Lock()
				r.slow++
				r.mu.Unlock()
				r.fold(one, o2.rep)
			} else {
				r.mu.Lock()
				r.hangs++
				r.mu.Unlock()
				r.e.CaseN(sh.family(), 1)
				what := fmt.Sprintf("a call into the codec did not return within %v and, re-run alone, not within %ds", caseTimeout, confirmTimeout)
				if o2.died {
					what = fmt.Sprintf("a call into the codec did not return within %v and, re-run alone, the process died", caseTimeout)
				}
				r.violation("C12.hang:"+sh.Enc+":"+sh.family()+":"+o.hang.Op, fmt.Sprintf("%s [%s; %s; case %d] input=%s", what, sh.family(), sh.Entry, o.hang.Idx, o.hang.Input),
					replayCase{Shard: one, Idx: o.hang.Idx, Input: o.hang.Input, What: "hang"})
			}
			if !r.resume(c, &sh, o.hang.Idx) {
				return
			}
		case o.died:
			wasCareful := (*c).careful
			(*c).stop()
			stderr := (*c).errTail.String()
			if ps := (*c).cmd.ProcessState; ps != nil && ps.ExitCode() == 2 {
				fmt.Fprintf(os.Stderr, "ENGINE-ERROR: decoding child failed on shard %+v: %s\n", sh, stderr)
				os.Exit(2)
			}
			if !wasCareful {
				// find the culprit: same shard again, the child announces every case
				*c = startChild(true)
				continue
			}
			r.mu.Lock()
			r.deaths++
			r.mu.Unlock()
			if o.lastIdx < 0 {
				r.violation("C12.process-death:"+sh.Enc+":"+sh.family()+":before-first-case", fmt.Sprintf("the decoding child dies on shard %+v before its first case", sh), replayCase{Shard: sh, What: "process-death"})
				*c = startChild(false)
				return
			}
			one := sh
			one.Start, one.Limit = o.lastIdx, 1
			r.e.CaseN(sh.family(), 1)
			r.violation("C12.process-death:"+sh.Enc+":"+sh.family(), fmt.Sprintf("the process dies while the codec works on an input [%s; %s; case %d]: %s", sh.family(), sh.Entry, o.lastIdx, stderr),
				replayCase{Shard: one, Idx: o.lastIdx, What: "process-death"})
			*c = startChild(false)
			if !r.resume(c, &sh, o.lastIdx) {
				return
			}
		}
	}
}

// resume is called after case bad of shard sh took the child down: the results of the cases before
// it died with the child, so that prefix is evaluated again (it is known to pass), then sh is
// advanced to the case after the bad one. It reports whether anything is left to do.
func (r *runner) resume(c **child, sh *shard, bad int) bool {
	if n := bad - sh.Start; n > 0 {
		prefix := *sh
		prefix.Limit = n
		r.exec(c, prefix)
	}
	if sh.Limit > 0 {
		sh.Limit -= bad - sh.Start + 1
		if sh.Limit <= 0 {
			return false
		}
	}
	sh.Start = bad + 1
	return true
}

func (r *runner) runAll(shards []shard, nw int) {
	ch := make(chan shard)
	var wg sync.WaitGroup
	for k := 0; k < nw; k++ {
		wg.Add(1)
		go func() {
			defer wg.Done()
			c := startChild(false)
			for sh := range ch {
				r.exec(&c, sh)
			}
			c.stop()
		}()
	}
	for i, sh := range shards {
		if time.Since(r.t0) > r.deadline {
			// out of time (busy machine): the remaining shards are not evaluated; the evidence says so
			for _, rest := range shards[i:] {
				r.skipped[rest.family()]++
			}
			shards = shards[:i]
			break
		}
		ch <- sh
	}
	close(ch)
	wg.Wait()
	r.shards += len(shards)
}

// substCount is the number of substitution mutants of an encoding.
func substCount(b []byte, alpha int) int {
	if alpha == 256 {
		return len(b) * 255
	}
	n := 0
	for _, x := range b {
		n += len(alphabet24)
		for _, a := range alphabet24 {
			if a == x {
				n--
			}
		}
	}
	return n
}

// class orders the shards: when the internal deadline cuts the run short on a busy machine, the
// families that are lost are the bulkiest and most redundant ones.
func class(s shard) int {
	switch {
	case s.Kind == "short" || s.Kind == "single":
		return 0
	case (s.Kind == "pbtree" || s.Kind == "jtree") && !s.Pairs:
		return 0
	case s.Kind == "bytes" && s.Op != "subst":
		return 1
	case s.Kind == "bytes" && s.Enc == "protobuf":
		return 2
	case s.Pairs:
		return 3
	}
	return 4
}

func main() {
	flag.Parse()
	if *flagChild {
		childMain(*flagCareful)
		return
	}
	e := vlib.StartExplore("C12")
	r := &runner{e: e, types: map[string]int64{}, perFam: map[string]int64{}, viols: map[string]*vrec{}, t0: time.Now(), deadline: 50 * time.Second, skipped: map[string]int{}, samples: map[string]map[string]any{}}
	if e.Thorough() {
		r.deadline = 540 * time.Second
	}
	nw := runtime.NumCPU()
	if nw > 16 {
		nw = 16
	}

	if e.Replay != nil {
		var rc replayCase
		if err := json.Unmarshal(e.Replay, &rc); err != nil {
			fmt.Fprintln(os.Stderr, err)
			os.Exit(2)
		}
		sh := rc.Shard
		if sh.Limit == 0 {
			sh.Limit = 1
		}
		c := startChild(false)
		r.exec(&c, sh)
		c.stop()
		// FinishReplay wants a verdict: any violation recorded by the replayed case
		bad, detail := r.anyViolation()
		e.FinishReplay(bad, detail)
		return
	}

	g, err := gen.New()
	if err != nil {
		fmt.Fprintln(os.Stderr, "ENGINE-ERROR: cannot discover the message grammar:", err)
		os.Exit(2)
	}
	schema, err := gen.LoadSchema()
	if err != nil {
		fmt.Fprintln(os.Stderr, "ENGINE-ERROR:", err)
		os.Exit(2)
	}
	corpus, err := g.Corpus(schema)
	if err != nil {
		fmt.Fprintln(os.Stderr, "ENGINE-ERROR: corpus:", err)
		os.Exit(2)
	}

	var shards []shard
	// (a) every byte string up to a length
	maxLen := map[string]int{"protobuf": 2, "json": 2}
	if e.Thorough() {
		maxLen["protobuf"] = 3
	}
	for _, enc := range []string{"protobuf", "json"} {
		for l := 0; l <= maxLen[enc]; l++ {
			step := 256
			if l == 2 {
				step = 16
			}
			if l >= 3 {
				step = 1
			}
			if l == 0 {
				shards = append(shards, shard{Kind: "short", Enc: enc, Len: 0, Gate: true})
				continue
			}
			for lo := 0; lo < 256; lo += step {
				shards = append(shards, shard{Kind: "short", Enc: enc, Len: l, Lo: lo, Hi: lo + step, Gate: l <= 2})
			}
		}
	}
	// (b) byte level mutations of every valid encoding (entries above the cap are left out)
	capLen := map[string]int{"protobuf": 1024, "json": 2048}
	alpha := 24
	if e.Thorough() {
		alpha = 256
	}
	excludedLarge := map[string]int{}
	entriesB := map[string]int{}
	bytesB := map[string]int{}
	seen := map[string]bool{}
	for _, en := range corpus {
		for _, enc := range []string{"protobuf", "json"} {
			b := en.PB
			if enc == "json" {
				b = en.JSON
			}
			k := enc + string(b)
			if seen[k] {
				continue
			}
			seen[k] = true
			if len(b) > capLen[enc] {
				excludedLarge[enc]++
				continue
			}
			entriesB[enc]++
			bytesB[enc] += len(b)
			label := en.Msg + "{" + en.Var + "}"
			for _, op := range byteOps() {
				sh := shard{Kind: "bytes", Enc: enc, Entry: label, Base: hex.EncodeToString(b), Op: op, Alpha: alpha}
				if op != "subst" {
					shards = append(shards, sh)
					continue
				}
				// windows of at most chunk cases (a shard is the unit the deadline can skip)
				const chunk = 10000
				for n, lo := substCount(b, alpha), 0; lo < n; lo += chunk {
					w := sh
					w.Start, w.Limit = lo, chunk
					shards = append(shards, w)
				}
			}
			// the valid encoding itself (self-consistency and size gate of the unmutated input)
			shards = append(shards, shard{Kind: "single", Enc: enc, Entry: label, Base: hex.EncodeToString(b), Gate: true})
		}
	}
	// (c) structure aware mutations of every message shape
	huge := map[string]int{"protobuf": 65536, "json": 4096}
	if e.Thorough() {
		huge["json"] = 32768
	}
	shapes := 0
	for _, en := range corpus {
		if !en.Shape {
			continue
		}
		shapes++
		label := en.Msg + "{" + en.Var + "}"
		for _, x := range []struct {
			kind, enc string
			b         []byte
		}{{"pbtree", "protobuf", en.PB}, {"jtree", "json", en.JSON}} {
			sh := shard{Kind: x.kind, Enc: x.enc, Entry: label, Base: hex.EncodeToString(x.b), Gate: true, Huge: huge[x.enc]}
			shards = append(shards, sh)
			if e.Thorough() {
				n, err := mutationCount(sh, schema)
				if err != nil {
					fmt.Fprintf(os.Stderr, "ENGINE-ERROR: %s: independent parser rejects the library's %s encoding: %v\n", label, x.enc, err)
					os.Exit(2)
				}
				step := 8
				for lo := 0; lo < n; lo += step {
					p := sh
					p.Pairs, p.ILo, p.IHi, p.Gate = true, lo, lo+step, false
					shards = append(shards, p)
				}
			}
		}
	}
	// cheap and structurally rich families first, the bulky substitution family of the slow JSON
	// decoder last; within a class big shards first (better packing)
	sort.SliceStable(shards, func(i, j int) bool {
		if ci, cj := class(shards[i]), class(shards[j]); ci != cj {
			return ci < cj
		}
		return weight(shards[i]) > weight(shards[j])
	})
	r.runAll(shards, nw)
	if r.engErr != "" {
		fmt.Fprintln(os.Stderr, "ENGINE-ERROR:", r.engErr)
		os.Exit(2)
	}
	r.flush()

	rule := "byte level, bounded-exhaustive: (a) every byte string of length <= " + fmt.Sprint(maxLen["protobuf"]) + " (protobuf) / <= " + fmt.Sprint(maxLen["json"]) + " (JSON); " +
		"(b) for every distinct valid encoding of the C11 one-at-a-time corpus (at most " + fmt.Sprint(capLen["protobuf"]) + " / " + fmt.Sprint(capLen["json"]) + " bytes): every truncation, every single byte substitution (" + fmt.Sprint(alpha) +
		" value alphabet) at every offset, every single bit flip, every single byte deletion and duplication; " +
		"(c) for every message shape (base value of every message type and of every oneof variant): every structure aware single mutation of the parsed protobuf field tree and of the JSON tree " +
		"(drop/duplicate a field, varint 0/max, length -1/+1/2^31/2^64-1, wire type swap, uuid of 0/15/17 bytes, malformed uuid strings, enum -1/first unused/255/max int32 and unknown names, absent/doubled oneof, " + fmt.Sprint(huge["protobuf"]) + " / " + fmt.Sprint(huge["json"]) + " copies of a repeated element or map entry, " +
		"unknown fields, null / wrong JSON type, out of range numbers)" + map[bool]string{true: " and every pair of them (huge counts excepted)", false: ""}[e.Thorough()] +
		". Oracle: no panic escapes DecodeFrom, it returns (child process watchdog: 10 s per call, confirmed with 60 s alone) and the process survives, the result is an error or a message, an accepted message re-encodes and decodes to itself, " +
		"and through encoding.Transport with MaxMessageSize n in {1, len-1, len, len+1} an input longer than n yields ErrMessageTooLarge (families a, c-single and the valid encodings themselves). " +
		"The frame level part of C12 (frames through the wire connection's read path) is NOT decided here (needs the scheduler)."
	extra := map[string]any{
		"corpus_entries":                   len(corpus),
		"corpus_entries_mutated_bytewise":  entriesB,
		"corpus_bytes_mutated_bytewise":    bytesB,
		"corpus_entries_above_length_cap":  excludedLarge,
		"message_shapes":                   shapes,
		"shards":                           r.shards,
		"inputs_accepted_as_message":       r.decoded,
		"accepted_by_message_type":         r.types,
		"size_gate_checks":                 r.gates,
		"child_hangs":                      r.hangs,
		"cases_over_10s_that_passed_alone": r.slow,
		"child_deaths":                     r.deaths,
		"child_processes":                  nw,
	}
	skippedTotal := 0
	for _, n := range r.skipped {
		skippedTotal += n
	}
	if skippedTotal > 0 {
		extra["shards_not_evaluated_internal_deadline"] = r.skipped
		extra["internal_deadline_s"] = r.deadline.Seconds()
		fmt.Fprintf(os.Stderr, "[C12] internal deadline %v reached: %d shards not evaluated (%v)\n", r.deadline, skippedTotal, r.skipped)
	}
	e.Finish(rule, skippedTotal == 0, extra, []string{
		"decides the property for the enumerated neighbourhoods of valid encodings and for all short strings, not for all byte strings",
		"the corpus is the C11 one-at-a-time grid as encoded by the library itself (protobuf map entries ordered by key to make the corpus deterministic)",
		"internal deadline (50 s quick / 540 s thorough, for busy machines): shards not started by then are listed under shards_not_evaluated_internal_deadline and exhaustive is false; the bulky JSON substitution family is scheduled last",
		"a call into the codec that takes more than 10 s, and more than 60 s when the input is re-run alone in a fresh process, is a hang",
	})
}

func weight(s shard) int {
	w := len(s.Base) / 2
	switch s.Kind {
	case "short":
		w = 1 << 30
	case "bytes":
		switch s.Op {
		case "subst":
			w *= s.Alpha
		case "flip":
			w *= 8
		}
		if s.Enc == "json" {
			w *= 4
		}
	case "pbtree", "jtree":
		w *= 64
	}
	return w
}

// violation buffers a violated case; flush reports, per signature, the case with the shortest input
// (single mutations before pairs; ties: family, corpus entry, case index) - independent of the scheduling of the shards.
func (r *runner) violation(sig, detail string, rc replayCase) {
	r.violationN(sig, detail, rc, 1<<30, 1)
}

type vrec struct {
	detail string
	rc     replayCase
	size   int
	count  int
}

func (v *vrec) key() string {
	pair := 0
	if v.rc.Shard.Pairs {
		pair = 1 // a single mutation is the simpler witness
	}
	return fmt.Sprintf("%d|%012d|%s|%s|%012d", pair, v.size, v.rc.Shard.family(), v.rc.Shard.Entry, v.rc.Idx)
}

func (r *runner) violationN(sig, detail string, rc replayCase, size, count int) {
	r.mu.Lock()
	defer r.mu.Unlock()
	r.seen = append(r.seen, sig+": "+detail)
	n := &vrec{detail, rc, size, count}
	if o := r.viols[sig]; o != nil {
		n.count += o.count
		if o.key() < n.key() {
			n.detail, n.rc, n.size = o.detail, o.rc, o.size
		}
	}
	r.viols[sig] = n
}

func (r *runner) flush() {
	// one sample per family, the structure aware and byte level families first
	var fams []string
	for f := range r.samples {
		fams = append(fams, f)
	}
	sort.Slice(fams, func(i, j int) bool {
		ai, aj := strings.HasPrefix(fams[i], "a:"), strings.HasPrefix(fams[j], "a:")
		if ai != aj {
			return aj
		}
		return fams[i] > fams[j]
	})
	for _, f := range fams {
		r.e.Sample(r.samples[f])
	}
	var sigs []string
	for s := range r.viols {
		sigs = append(sigs, s)
	}
	sort.Strings(sigs)
	for _, s := range sigs {
		v := r.viols[s]
		for k := 0; k < v.count; k++ {
			r.e.Violation(s, v.detail, v.rc)
		}
	}
}

// anyViolation reports whether a violation was recorded (replay verdict).
func (r *runner) anyViolation() (bool, string) {
	r.mu.Lock()
	defer r.mu.Unlock()
	if len(r.seen) > 3 {
		return true, strings.Join(r.seen[:3], "\n  ")
	}
	return len(r.seen) > 0, strings.Join(r.seen, "\n  ")
}
