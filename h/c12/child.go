package main

import (
	"bufio"
	"encoding/hex"
	"encoding/json"
	"fmt"
	"os"
	"reflect"
	"strings"
	"sync/atomic"
	"syscall"
	"time"

	"github.com/aptpod/iscp-go/encoding"
	ierrors "github.com/aptpod/iscp-go/errors"
	"github.com/aptpod/iscp-go/internal/vh/c11/gen"
	"github.com/aptpod/iscp-go/message"
)

// shard is one unit of work of a child process: a deterministic, indexable enumeration of inputs.
type shard struct {
	Kind  string `json:"kind"` // short | bytes | pbtree | jtree | single
	Enc   string `json:"enc"`
	Entry string `json:"entry,omitempty"` // corpus entry label (message{variation})
	Base  string `json:"base,omitempty"`  // hex of the valid encoding that is mutated / of the single input
	// short
	Len int `json:"len,omitempty"`
	Lo  int `json:"lo,omitempty"`
	Hi  int `json:"hi,omitempty"`
	// bytes
	Op    string `json:"op,omitempty"`
	Alpha int    `json:"alpha,omitempty"`
	// trees
	Pairs bool `json:"pairs,omitempty"`
	ILo   int  `json:"ilo,omitempty"`
	IHi   int  `json:"ihi,omitempty"`
	// Huge: number of copies of the "huge count" mutations
	Huge int `json:"huge,omitempty"`
	// Gate: also run the MaxMessageSize clause on every input of the shard
	Gate bool `json:"gate,omitempty"`
	// resume / replay window
	Start int `json:"start,omitempty"`
	Limit int `json:"limit,omitempty"`
}

func (s shard) family() string {
	switch s.Kind {
	case "short":
		return fmt.Sprintf("a:all-strings-len%d:%s", s.Len, s.Enc)
	case "bytes":
		return "b:" + s.Op + ":" + s.Enc
	case "pbtree", "jtree":
		if s.Pairs {
			return "c:tree-pairs:" + s.Enc
		}
		return "c:tree-single:" + s.Enc
	}
	return s.Kind + ":" + s.Enc
}

type cviol struct {
	Sig    string `json:"sig"`
	Detail string `json:"detail"`
	Idx    int    `json:"idx"`
	Input  string `json:"input,omitempty"` // hex, when short enough
	Len    int    `json:"len"`
	Count  int    `json:"count"`
}

type reply struct {
	Evals   int64            `json:"evals"`
	Gates   int64            `json:"gates"`
	Decoded int64            `json:"decoded"` // inputs accepted as a message
	Types   map[string]int64 `json:"types"`   // accepted messages by type
	Viols   []*cviol         `json:"viols"`
	Sample  map[string]any   `json:"sample,omitempty"`
	Err     string           `json:"err,omitempty"`
}

// ---------- enumeration ----------

func enumerate(sh shard, schema *gen.Schema, f func(idx int, op string, label func() string, input []byte) bool) error {
	idx := 0
	emitL := func(op string, label func() string, input []byte) bool {
		i := idx
		idx++
		if i < sh.Start {
			return true
		}
		if sh.Limit > 0 && i >= sh.Start+sh.Limit {
			return false
		}
		return f(i, op, label, input)
	}
	emit := func(op, label string, input []byte) bool {
		return emitL(op, func() string { return label }, input)
	}
	base, err := hex.DecodeString(sh.Base)
	if err != nil {
		return err
	}
	switch sh.Kind {
	case "single":
		emit("single", "recorded input", base)
	case "short":
		if sh.Len == 0 {
			emit("short", "empty input", nil)
			return nil
		}
		buf := make([]byte, sh.Len)
		var rec func(pos int) bool
		rec = func(pos int) bool {
			if pos == sh.Len {
				return emitL("short", func() string { return fmt.Sprintf("%x", buf) }, buf)
			}
			lo, hi := 0, 256
			if pos == 0 {
				lo, hi = sh.Lo, sh.Hi
			}
			for v := lo; v < hi; v++ {
				buf[pos] = byte(v)
				if !rec(pos + 1) {
					return false
				}
			}
			return true
		}
		rec(0)
	case "bytes":
		stop := false
		enumBytes(base, sh.Op, sh.Alpha, func(label func() string, input []byte) {
			if stop {
				return
			}
			if !emitL(sh.Op, label, input) {
				stop = true
			}
		})
	case "pbtree":
		tree, err := gen.ParsePB(schema.Root, base)
		if err != nil {
			return err
		}
		muts := pbMutations(tree, schema.Root, sh.Huge)
		if !sh.Pairs {
			for _, m := range muts {
				t := gen.ClonePB(tree)
				applyPB(&t, m)
				if !emit(m.kind, m.label, gen.SerializePB(t)) {
					return nil
				}
			}
			return nil
		}
		hi := sh.IHi
		if hi > len(muts) {
			hi = len(muts)
		}
		for i := sh.ILo; i < hi; i++ {
			a := muts[i]
			if a.huge {
				continue
			}
			for j := i + 1; j < len(muts); j++ {
				b := muts[j]
				if b.huge || samePath(a.path, b.path) {
					continue
				}
				t := gen.ClonePB(tree)
				first, second := a, b
				if lessPath(a.path, b.path) {
					first, second = b, a
				}
				applyPB(&t, first)
				applyPB(&t, second)
				if !emit(a.kind+"+"+b.kind, a.label+" + "+b.label, gen.SerializePB(t)) {
					return nil
				}
			}
		}
	case "jtree":
		root, err := gen.ParseJSON(base)
		if err != nil {
			return err
		}
		muts := jsonMutations(root, schema.Root, sh.Huge)
		if !sh.Pairs {
			for _, m := range muts {
				t := root.Clone()
				applyJSON(&t, m)
				if !emit(m.kind, m.label, t.Serialize()) {
					return nil
				}
			}
			return nil
		}
		hi := sh.IHi
		if hi > len(muts) {
			hi = len(muts)
		}
		for i := sh.ILo; i < hi; i++ {
			a := muts[i]
			if a.huge {
				continue
			}
			for j := i + 1; j < len(muts); j++ {
				b := muts[j]
				if b.huge || samePath(a.path, b.path) {
					continue
				}
				t := root.Clone()
				first, second := a, b
				if lessPath(a.path, b.path) {
					first, second = b, a
				}
				applyJSON(&t, first)
				applyJSON(&t, second)
				if !emit(a.kind+"+"+b.kind, a.label+" + "+b.label, t.Serialize()) {
					return nil
				}
			}
		}
	default:
		return fmt.Errorf("unknown shard kind %q", sh.Kind)
	}
	return nil
}

// mutationCount returns the number of single mutations of a tree shard (used to cut pair shards).
func mutationCount(sh shard, schema *gen.Schema) (int, error) {
	base, err := hex.DecodeString(sh.Base)
	if err != nil {
		return 0, err
	}
	if sh.Kind == "pbtree" {
		tree, err := gen.ParsePB(schema.Root, base)
		if err != nil {
			return 0, err
		}
		return len(pbMutations(tree, schema.Root, sh.Huge)), nil
	}
	root, err := gen.ParseJSON(base)
	if err != nil {
		return 0, err
	}
	return len(jsonMutations(root, schema.Root, sh.Huge)), nil
}

// ---------- the oracle ----------

type oviol struct{ sig, detail string }

func typeName(m message.Message) string {
	t := reflect.TypeOf(m)
	if t == nil {
		return "nil"
	}
	if t.Kind() == reflect.Pointer {
		return t.Elem().Name()
	}
	return t.Name()
}

func nilMessage(m message.Message) bool {
	if m == nil {
		return true
	}
	v := reflect.ValueOf(m)
	return v.Kind() == reflect.Pointer && v.IsNil()
}

// causeSlug turns the cause of a codec error into a few words for a signature (no values).
func causeSlug(err error) string {
	s := err.Error()
	for _, p := range []string{"failed to protobuf ", "failed to wire message "} {
		if strings.HasPrefix(s, p) {
			if i := strings.Index(s, ": "); i >= 0 {
				s = s[i+2:]
			}
		}
	}
	var words []string
	for _, w := range strings.FieldsFunc(s, func(r rune) bool {
		return !(r == '_' || r >= 'a' && r <= 'z' || r >= 'A' && r <= 'Z')
	}) {
		if w == "nil" || len(w) < 2 {
			continue
		}
		words = append(words, w)
		if len(words) == 3 {
			break
		}
	}
	if len(words) == 0 {
		return "error"
	}
	return strings.Join(words, "-")
}

// checkDecode: no panic escapes DecodeFrom; the result is an error or a message; a message
// re-encodes and decodes to itself.
func checkDecode(c gen.Codec, input []byte) (viols []oviol, accepted message.Message) {
	tick()
	m, n, _, err, pan := gen.SafeDecode(c.E, input)
	if pan != "" {
		return []oviol{{"C12.panic-escapes:DecodeFrom:" + c.Name + ":" + gen.PanicFunc(pan), "DecodeFrom panicked: " + pan}}, nil
	}
	if err != nil {
		if !nilMessage(m) {
			viols = append(viols, oviol{"C12.result:error-and-message:" + c.Name + ":" + typeName(m), fmt.Sprintf("DecodeFrom returned an error (%v) together with a %T", err, m)})
		}
		return viols, nil
	}
	if nilMessage(m) {
		return []oviol{{"C12.result:neither-error-nor-message:" + c.Name, "DecodeFrom returned a nil message and a nil error"}}, nil
	}
	if n < 0 || n > len(input) {
		viols = append(viols, oviol{"C12.result:count-out-of-range:" + c.Name + ":" + typeName(m), fmt.Sprintf("DecodeFrom reports %d bytes for an input of %d", n, len(input))})
	}
	tick()
	out, _, eerr, epan := gen.SafeEncode(c.E, m)
	if epan != "" {
		return append(viols, oviol{"C12.panic-escapes:EncodeTo:" + c.Name + ":" + gen.PanicFunc(epan), fmt.Sprintf("EncodeTo panicked on the %T that DecodeFrom returned: %s", m, epan)}), m
	}
	if eerr != nil {
		return append(viols, oviol{"C12.self-consistency:" + c.Name + ":not-re-encodable:" + causeSlug(eerr), fmt.Sprintf("DecodeFrom returned a %T that EncodeTo refuses: %v", m, eerr)}), m
	}
	tick()
	m2, _, _, derr, dpan := gen.SafeDecode(c.E, out)
	if dpan != "" {
		return append(viols, oviol{"C12.panic-escapes:DecodeFrom:" + c.Name + ":" + gen.PanicFunc(dpan), "DecodeFrom panicked on a re-encoded message: " + dpan}), m
	}
	if derr != nil {
		return append(viols, oviol{"C12.self-consistency:" + c.Name + ":re-encoding-rejected:" + causeSlug(derr), fmt.Sprintf("the re-encoding of the accepted %T is rejected: %v", m, derr)}), m
	}
	if reflect.TypeOf(m) != reflect.TypeOf(m2) {
		return append(viols, oviol{"C12.self-consistency:" + c.Name + ":" + typeName(m) + ":type-changes", fmt.Sprintf("accepted %T re-decodes as %T", m, m2)}), m
	}
	if d := gen.Equal(m, m2); d != nil {
		viols = append(viols, oviol{"C12.self-consistency:" + c.Name + ":" + d.Field, fmt.Sprintf("accepted %T re-encodes and decodes to a different message at %s: %s", m, d.Path, d.Detail)})
	}
	return viols, m
}

// checkGate: through encoding.Transport with MaxMessageSize = n every input longer than n yields
// ErrMessageTooLarge; an input that fits is not rejected for its size and decodes as it does directly.
func checkGate(c gen.Codec, input []byte, n int) (viols []oviol) {
	tick()
	p := &gen.Pipe{Q: [][]byte{append([]byte(nil), input...)}}
	tr := encoding.NewTransport(&encoding.TransportConfig{Transport: p, Encoding: c.E, MaxMessageSize: encoding.Size(n)})
	var m message.Message
	var err error
	pan := func() (pan string) {
		defer func() {
			if r := recover(); r != nil {
				pan = fmt.Sprint(r)
			}
		}()
		m, err = tr.Read()
		return ""
	}()
	if pan != "" {
		return []oviol{{"C12.panic-escapes:Transport.Read:" + c.Name, "Transport.Read panicked: " + pan}}
	}
	tooLarge := err != nil && ierrors.Is(err, ierrors.ErrMessageTooLarge)
	if len(input) > n {
		switch {
		case err == nil:
			viols = append(viols, oviol{"C12.size-gate:accepted:" + c.Name, fmt.Sprintf("input of %d bytes passes MaxMessageSize=%d and decodes to %T", len(input), n, m)})
		case !tooLarge:
			viols = append(viols, oviol{"C12.size-gate:wrong-error:" + c.Name, fmt.Sprintf("input of %d bytes with MaxMessageSize=%d: error %q is not ErrMessageTooLarge", len(input), n, err)})
		}
		if tr.RxMessageCounterValue() != 0 {
			viols = append(viols, oviol{"C12.size-gate:counted:" + c.Name, "a rejected message was counted as received"})
		}
		return viols
	}
	if tooLarge {
		viols = append(viols, oviol{"C12.size-gate:rejects-fitting:" + c.Name, fmt.Sprintf("input of %d bytes is rejected as too large with MaxMessageSize=%d", len(input), n)})
	}
	return viols
}

func gateSizes(l int) []int {
	var out []int
	seen := map[int]bool{}
	for _, n := range []int{1, l - 1, l, l + 1} {
		if n >= 1 && !seen[n] {
			seen[n] = true
			out = append(out, n)
		}
	}
	return out
}

// ---------- child process ----------

type curCase struct {
	seq   int64
	idx   int
	op    string
	input []byte
	since time.Time
}

var current atomic.Pointer[curCase]

// tick restarts the watchdog clock: the limit applies to each single call into the library.
func tick() {
	if c := current.Load(); c != nil {
		n := *c
		n.since = time.Now()
		current.Store(&n)
	}
}

// caseTimeout is the per-input watchdog (VERIF_C12_TIMEOUT=<seconds> overrides it for debugging).
var caseTimeout = func() time.Duration {
	var s int
	if fmt.Sscan(os.Getenv("VERIF_C12_TIMEOUT"), &s); s > 0 {
		return time.Duration(s) * time.Second
	}
	return 10 * time.Second
}()

func selfTest(input []byte) {
	// machinery self test (never set by registered commands): VERIF_C12_SELFTEST=hang|crash makes
	// the input de ad be "decoded" by an endless loop / a process exit.
	if len(input) == 2 && input[0] == 0xde && input[1] == 0xad {
		switch os.Getenv("VERIF_C12_SELFTEST") {
		case "hang":
			for {
			}
		case "crash":
			os.Exit(137)
		}
	}
}

func childMain(careful bool) {
	var lim syscall.Rlimit
	lim.Cur, lim.Max = 6<<30, 6<<30
	syscall.Setrlimit(syscall.RLIMIT_AS, &lim)
	schema, err := gen.LoadSchema()
	if err != nil {
		fmt.Fprintln(os.Stderr, "c12 child:", err)
		os.Exit(2)
	}
	out := bufio.NewWriterSize(os.Stdout, 1<<16)
	// watchdog: a case that does not return within caseTimeout is reported and the process exits
	go func() {
		for {
			time.Sleep(500 * time.Millisecond)
			c := current.Load()
			if c != nil && time.Since(c.since) > caseTimeout {
				b, _ := json.Marshal(map[string]any{"idx": c.idx, "op": c.op, "input": hexIfShort(c.input)})
				os.Stdout.Write([]byte("H " + string(b) + "\n"))
				os.Exit(3)
			}
		}
	}()
	in := bufio.NewReaderSize(os.Stdin, 1<<20)
	for {
		line, err := in.ReadBytes('\n')
		if err != nil {
			return
		}
		var sh shard
		if err := json.Unmarshal(line, &sh); err != nil {
			fmt.Fprintln(os.Stderr, "c12 child: bad shard:", err)
			os.Exit(2)
		}
		rep := runShard(sh, schema, careful, out)
		b, _ := json.Marshal(rep)
		out.WriteString("R ")
		out.Write(b)
		out.WriteByte('\n')
		out.Flush()
	}
}

func hexIfShort(b []byte) string {
	if len(b) > 4096 {
		return ""
	}
	return hex.EncodeToString(b)
}

func runShard(sh shard, schema *gen.Schema, careful bool, out *bufio.Writer) *reply {
	rep := &reply{Types: map[string]int64{}}
	codec := gen.CodecByName(sh.Enc)
	bySig := map[string]*cviol{}
	seed := 0
	fmt.Sscan(os.Getenv("VERIF_SEED"), &seed)
	var seq int64
	err := enumerate(sh, schema, func(idx int, op string, label func() string, input []byte) bool {
		if careful {
			fmt.Fprintf(out, "@%d\n", idx)
			out.Flush()
		}
		seq++
		current.Store(&curCase{seq: seq, idx: idx, op: op, input: input, since: time.Now()})
		selfTest(input)
		viols, m := checkDecode(codec, input)
		rep.Evals++
		if m != nil {
			rep.Decoded++
			rep.Types[typeName(m)]++
		}
		if sh.Gate {
			for _, n := range gateSizes(len(input)) {
				viols = append(viols, checkGate(codec, input, n)...)
				rep.Gates++
			}
		}
		current.Store(nil)
		for _, v := range viols {
			cv := bySig[v.sig]
			if cv == nil {
				cv = &cviol{Sig: v.sig, Detail: fmt.Sprintf("[%s; %s; %s] %s", sh.family(), sh.Entry, label(), v.detail), Idx: idx, Input: hexIfShort(input), Len: len(input)}
				bySig[v.sig] = cv
				rep.Viols = append(rep.Viols, cv)
			}
			cv.Count++
		}
		if rep.Sample == nil && (idx+seed)%211 == 17 {
			s := map[string]any{"family": sh.family(), "entry": sh.Entry, "mutation": label(), "input_hex": hexIfShort(trim(input, 96)), "accepted_as": ""}
			if m != nil {
				s["accepted_as"] = typeName(m)
			}
			rep.Sample = s
		}
		return true
	})
	if err != nil {
		rep.Err = err.Error()
	}
	return rep
}

func trim(b []byte, n int) []byte {
	if len(b) > n {
		return b[:n]
	}
	return b
}
