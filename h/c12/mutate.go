package main

import (
	"encoding/base64"
	"fmt"
	"math"
	"strings"

	"github.com/aptpod/iscp-go/internal/vh/c11/gen"
	"github.com/gogo/protobuf/protoc-gen-gogo/descriptor"
)

// ---------- byte level ----------

// alphabet24 is the substitution alphabet of the quick tier: protobuf tag/length/continuation
// bytes and the JSON structural characters.
var alphabet24 = []byte{0x00, 0x01, 0x02, 0x07, 0x08, 0x0a, 0x10, 0x12, 0x1a, 0x20, '"', ',', '-', '0', ':', '[', '\\', ']', '{', '}', 0x7f, 0x80, 0xc0, 0xff}

func byteOps() []string { return []string{"trunc", "subst", "flip", "del", "dup"} }

// enumBytes enumerates the byte level mutants of base for one operator.
func enumBytes(base []byte, op string, alpha int, f func(label func() string, input []byte)) {
	n := len(base)
	buf := make([]byte, 0, n+1)
	switch op {
	case "trunc":
		for i := 0; i < n; i++ {
			f(func() string { return fmt.Sprintf("trunc@%d", i) }, base[:i])
		}
	case "subst":
		for i := 0; i < n; i++ {
			if alpha == 256 {
				for v := 0; v < 256; v++ {
					if byte(v) == base[i] {
						continue
					}
					buf = append(buf[:0], base...)
					buf[i] = byte(v)
					f(func() string { return fmt.Sprintf("subst@%d=%02x", i, v) }, buf)
				}
				continue
			}
			for _, v := range alphabet24 {
				if v == base[i] {
					continue
				}
				buf = append(buf[:0], base...)
				buf[i] = v
				f(func() string { return fmt.Sprintf("subst@%d=%02x", i, v) }, buf)
			}
		}
	case "flip":
		for i := 0; i < n; i++ {
			for b := 0; b < 8; b++ {
				buf = append(buf[:0], base...)
				buf[i] ^= 1 << uint(b)
				f(func() string { return fmt.Sprintf("flip@%d.%d", i, b) }, buf)
			}
		}
	case "del":
		for i := 0; i < n; i++ {
			buf = append(buf[:0], base[:i]...)
			buf = append(buf, base[i+1:]...)
			f(func() string { return fmt.Sprintf("del@%d", i) }, buf)
		}
	case "dup":
		for i := 0; i < n; i++ {
			buf = append(buf[:0], base[:i+1]...)
			buf = append(buf, base[i:]...)
			f(func() string { return fmt.Sprintf("dup@%d", i) }, buf)
		}
	}
}

// ---------- protobuf tree ----------

type pbMut struct {
	path  []int
	op    string // drop dup varint len raw wire oneof-before oneof-after repeat unknown
	arg   uint64
	raw   []byte
	alt   *gen.FieldDesc
	kind  string // operator name used in signatures
	label string
	huge  bool
}

func wireOf(t descriptor.FieldDescriptorProto_Type) int {
	switch t {
	case descriptor.FieldDescriptorProto_TYPE_DOUBLE, descriptor.FieldDescriptorProto_TYPE_FIXED64, descriptor.FieldDescriptorProto_TYPE_SFIXED64:
		return 1
	case descriptor.FieldDescriptorProto_TYPE_FLOAT, descriptor.FieldDescriptorProto_TYPE_FIXED32, descriptor.FieldDescriptorProto_TYPE_SFIXED32:
		return 5
	case descriptor.FieldDescriptorProto_TYPE_STRING, descriptor.FieldDescriptorProto_TYPE_BYTES, descriptor.FieldDescriptorProto_TYPE_MESSAGE:
		return 2
	}
	return 0
}

func altNode(fd *gen.FieldDesc) *gen.Node {
	n := &gen.Node{Num: fd.Num, Wire: wireOf(fd.Type), Desc: fd}
	switch n.Wire {
	case 0:
		n.Varint = 1
	case 1:
		n.Raw = make([]byte, 8)
	case 5:
		n.Raw = make([]byte, 4)
	case 2:
		n.IsMsg = fd.Msg != nil
	}
	return n
}

func isUUIDString(fd *gen.FieldDesc) bool {
	return fd != nil && fd.Type == descriptor.FieldDescriptorProto_TYPE_STRING && strings.Contains(fd.Name, "uuid")
}

// pbMutations lists the structure aware single mutations of a parsed valid encoding.
func pbMutations(tree []*gen.Node, root *gen.MsgDesc, hugeCount int) []pbMut {
	var out []pbMut
	add := func(path []int, name, op, kind, what string, m pbMut) {
		m.path, m.op, m.kind = append([]int(nil), path...), op, kind
		m.label = fmt.Sprintf("%s %s", what, name)
		out = append(out, m)
	}
	unknown := func(path []int, name string) {
		add(path, name, "unknown", "unknown-field", "append unknown fields to", pbMut{})
	}
	unknown(nil, "(message)")
	gen.WalkPB(tree, func(path []int, sib []*gen.Node, n *gen.Node) {
		name := gen.DescPathPB(tree, path)
		add(path, name, "drop", "drop", "drop", pbMut{})
		add(path, name, "dup", "dup", "duplicate", pbMut{})
		switch n.Wire {
		case 0:
			for _, v := range []uint64{0, math.MaxUint64} {
				if v != n.Varint {
					add(path, name, "varint", fmt.Sprintf("varint=%d", v), fmt.Sprintf("varint:=%d in", v), pbMut{arg: v})
				}
			}
			add(path, name, "wire", "wire-type", "wire type varint->bytes of", pbMut{})
			if n.Desc != nil && n.Desc.Enum != nil {
				for _, v := range []int64{int64(n.Desc.Enum.FirstUnused()), 255, math.MaxInt32} {
					add(path, name, "varint", fmt.Sprintf("enum=%d", v), fmt.Sprintf("enum:=%d in", v), pbMut{arg: uint64(v)})
				}
				// -1 is the 10 byte varint 2^64-1 (listed above as varint=max)
			}
		case 2:
			var l uint64
			if n.IsMsg {
				l = uint64(len(gen.SerializePB(n.Children)))
			} else {
				l = uint64(len(n.Raw))
			}
			if l > 0 {
				add(path, name, "len", "len-1", "length-1 of", pbMut{arg: l - 1})
			}
			add(path, name, "len", "len+1", "length+1 of", pbMut{arg: l + 1})
			add(path, name, "len", "len=2^31", "length:=2^31 of", pbMut{arg: 1 << 31})
			add(path, name, "len", "len=2^64-1", "length:=2^64-1 of", pbMut{arg: math.MaxUint64})
			add(path, name, "wire", "wire-type", "wire type bytes->varint of", pbMut{})
			if !n.IsMsg && n.Desc != nil && n.Desc.Type == descriptor.FieldDescriptorProto_TYPE_BYTES && len(n.Raw) == 16 {
				for _, k := range []int{0, 15, 17} {
					add(path, name, "raw", fmt.Sprintf("uuid-len=%d", k), fmt.Sprintf("uuid of %d bytes in", k), pbMut{raw: make([]byte, k)})
				}
			}
			if !n.IsMsg && isUUIDString(n.Desc) {
				for _, s := range uuidStrings(string(n.Raw)) {
					add(path, name, "raw", "uuid-string", fmt.Sprintf("uuid string %q in", s), pbMut{raw: []byte(s)})
				}
			}
			if n.IsMsg {
				unknown(path, name)
			}
		}
		if n.Desc != nil && n.Desc.Oneof >= 0 {
			md := root
			if len(path) > 1 {
				md = parentDesc(tree, path)
			}
			for _, alt := range md.Fields {
				if alt.Oneof == n.Desc.Oneof && alt.Num != n.Num {
					add(path, name, "oneof-before", "oneof-doubled", "second oneof member "+alt.Name+" before", pbMut{alt: alt})
					add(path, name, "oneof-after", "oneof-doubled", "second oneof member "+alt.Name+" after", pbMut{alt: alt})
				}
			}
		}
		if n.Desc != nil && n.Desc.Repeated {
			add(path, name, "repeat", "huge-count", fmt.Sprintf("%d copies of", hugeCount), pbMut{arg: uint64(hugeCount), huge: true})
		}
	})
	return out
}

func parentDesc(tree []*gen.Node, path []int) *gen.MsgDesc {
	cur := tree
	var md *gen.MsgDesc
	for _, i := range path[:len(path)-1] {
		md = cur[i].Desc.Msg
		cur = cur[i].Children
	}
	return md
}

func uuidStrings(cur string) []string {
	out := []string{"", "zzzzzzzz-zzzz-zzzz-zzzz-zzzzzzzzzzzz"}
	if len(cur) == 36 {
		out = append(out, cur[:35], cur+"0")
	}
	return out
}

func applyPB(root *[]*gen.Node, m pbMut) {
	if m.op == "unknown" {
		target := root
		if len(m.path) > 0 {
			sib, i := gen.AtPB(root, m.path)
			target = &(*sib)[i].Children
		}
		*target = append(*target, &gen.Node{Num: 1000, Wire: 0, Varint: 1}, &gen.Node{Num: 1001, Wire: 2, Raw: []byte("x")})
		return
	}
	sib, i := gen.AtPB(root, m.path)
	n := (*sib)[i]
	insert := func(at int, x *gen.Node) {
		s := append([]*gen.Node(nil), (*sib)[:at]...)
		s = append(s, x)
		s = append(s, (*sib)[at:]...)
		*sib = s
	}
	switch m.op {
	case "drop":
		*sib = append(append([]*gen.Node(nil), (*sib)[:i]...), (*sib)[i+1:]...)
	case "dup":
		insert(i+1, gen.ClonePB([]*gen.Node{n})[0])
	case "varint":
		n.Varint = m.arg
	case "len":
		l := m.arg
		n.LenOver = &l
	case "raw":
		n.Raw = append([]byte(nil), m.raw...)
	case "wire":
		if n.Wire == 0 {
			n.Wire, n.IsMsg, n.Children, n.Raw = 2, false, nil, nil
		} else {
			n.Wire, n.IsMsg, n.Children, n.Raw, n.Varint = 0, false, nil, nil, 1
		}
	case "oneof-before":
		insert(i, altNode(m.alt))
	case "oneof-after":
		insert(i+1, altNode(m.alt))
	case "repeat":
		n.Repeat = int(m.arg)
	}
}

// lessPath orders index paths in document order (a prefix comes first).
func lessPath(a, b []int) bool {
	for i := 0; i < len(a) && i < len(b); i++ {
		if a[i] != b[i] {
			return a[i] < b[i]
		}
	}
	return len(a) < len(b)
}

func samePath(a, b []int) bool { return !lessPath(a, b) && !lessPath(b, a) }

// ---------- JSON tree ----------

type jMut struct {
	path  []int
	op    string // drop dup set oneof-before oneof-after repeat unknown
	val   *gen.JNode
	key   string
	kind  string
	label string
	huge  bool
	count int
}

func is64(t descriptor.FieldDescriptorProto_Type) bool {
	switch t {
	case descriptor.FieldDescriptorProto_TYPE_INT64, descriptor.FieldDescriptorProto_TYPE_UINT64, descriptor.FieldDescriptorProto_TYPE_SINT64,
		descriptor.FieldDescriptorProto_TYPE_FIXED64, descriptor.FieldDescriptorProto_TYPE_SFIXED64:
		return true
	}
	return false
}

func jnum(s string) *gen.JNode { return &gen.JNode{Kind: 'n', Str: s} }
func jstr(s string) *gen.JNode { return &gen.JNode{Kind: 's', Str: s} }

// jsonMutations lists the structure aware single mutations of a valid JSON encoding.
func jsonMutations(root *gen.JNode, md *gen.MsgDesc, hugeCount int) []jMut {
	var out []jMut
	add := func(r gen.JRef, op, kind, what string, m jMut) {
		m.path, m.op, m.kind = append([]int(nil), r.Path...), op, kind
		name := r.Name
		if name == "" {
			name = "(message)"
		}
		m.label = what + " " + name
		out = append(out, m)
	}
	gen.WalkJSON(root, md, func(r gen.JRef, parent *gen.JNode, n *gen.JNode) {
		if parent != nil {
			add(r, "drop", "drop", "drop", jMut{})
			add(r, "dup", "dup", "duplicate", jMut{})
		}
		set := func(kind, what string, v *gen.JNode) { add(r, "set", kind, what, jMut{val: v}) }
		set("null", "null for", &gen.JNode{Kind: 'z'})
		switch n.Kind {
		case 'o':
			set("wrong-type", "array instead of object", &gen.JNode{Kind: 'a'})
			set("wrong-type", "string instead of object", jstr("x"))
			add(r, "unknown", "unknown-field", "unknown member in", jMut{})
		case 'a':
			set("wrong-type", "object instead of array", &gen.JNode{Kind: 'o'})
			set("wrong-type", "number instead of array", jnum("1"))
		case 's':
			set("wrong-type", "number instead of string", jnum("1"))
			set("wrong-type", "object instead of string", &gen.JNode{Kind: 'o'})
		case 'n':
			set("wrong-type", "string instead of number", jstr("x"))
			set("wrong-type", "object instead of number", &gen.JNode{Kind: 'o'})
			for _, v := range []string{"0", "18446744073709551615", "-1", "1e400", "1.5"} {
				if v != n.Str {
					set("number="+v, "number:="+v+" in", jnum(v))
				}
			}
		case 't', 'f':
			set("wrong-type", "number instead of bool", jnum("1"))
			set("wrong-type", "string instead of bool", jstr("true"))
		}
		fd := r.Field
		scalar := n.Kind == 's' || n.Kind == 'n'
		if fd != nil && scalar {
			switch {
			case fd.Enum != nil:
				for _, v := range []int64{-1, int64(fd.Enum.FirstUnused()), 255, math.MaxInt32} {
					set(fmt.Sprintf("enum=%d", v), fmt.Sprintf("enum:=%d in", v), jnum(fmt.Sprint(v)))
				}
				set("enum-name", "unknown enum name in", jstr("NO_SUCH_ENUMERATOR"))
				if n.Kind == 's' {
					set("enum-name", "lower case enum name in", jstr(strings.ToLower(n.Str)))
				}
			case is64(fd.Type) && n.Kind == 's':
				for _, v := range []string{"0", "18446744073709551615", "18446744073709551616", "-1", "-9223372036854775809", "abc", ""} {
					if v != n.Str {
						set("int64-string", fmt.Sprintf("64 bit integer string %q in", v), jstr(v))
					}
				}
			case fd.Type == descriptor.FieldDescriptorProto_TYPE_BYTES && n.Kind == 's':
				if raw, err := base64.StdEncoding.DecodeString(n.Str); err == nil && len(raw) == 16 {
					for _, k := range []int{0, 15, 17} {
						set(fmt.Sprintf("uuid-len=%d", k), fmt.Sprintf("uuid of %d bytes in", k), jstr(base64.StdEncoding.EncodeToString(make([]byte, k))))
					}
				}
				set("base64", "invalid base64 in", jstr("!!!!"))
			case isUUIDString(fd):
				for _, s := range uuidStrings(n.Str) {
					set("uuid-string", fmt.Sprintf("uuid string %q in", s), jstr(s))
				}
			}
		}
		// doubled oneof: the parent object is a message; add another member of the same oneof
		if fd != nil && fd.Oneof >= 0 && !r.InList && parent != nil && parent.Kind == 'o' {
			pmd := jsonParentDesc(root, md, r.Path)
			if pmd != nil {
				for _, alt := range pmd.Fields {
					if alt.Oneof == fd.Oneof && alt.Num != fd.Num {
						v := jnum("1")
						if alt.Msg != nil {
							v = &gen.JNode{Kind: 'o'}
						} else if alt.Type == descriptor.FieldDescriptorProto_TYPE_STRING || alt.Type == descriptor.FieldDescriptorProto_TYPE_BYTES {
							v = jstr("")
						}
						add(r, "oneof-before", "oneof-doubled", "second oneof member "+alt.Name+" before", jMut{key: alt.Name, val: v})
						add(r, "oneof-after", "oneof-doubled", "second oneof member "+alt.Name+" after", jMut{key: alt.Name, val: v})
					}
				}
			}
		}
		if r.InList && parent != nil {
			add(r, "repeat", "huge-count", fmt.Sprintf("%d copies of", hugeCount), jMut{huge: true, count: hugeCount})
		}
	})
	return out
}

// jsonParentDesc finds the message type of the object that holds the value at path.
func jsonParentDesc(root *gen.JNode, md *gen.MsgDesc, path []int) *gen.MsgDesc {
	var res *gen.MsgDesc
	want := path[:len(path)-1]
	gen.WalkJSON(root, md, func(r gen.JRef, _ *gen.JNode, _ *gen.JNode) {
		if samePath(r.Path, want) {
			res = r.Msg
		}
	})
	return res
}

func applyJSON(root **gen.JNode, m jMut) {
	if len(m.path) == 0 {
		switch m.op {
		case "set":
			*root = m.val.Clone()
		case "unknown":
			(*root).Keys = append((*root).Keys, "no_such_field")
			(*root).Vals = append((*root).Vals, jnum("1"))
		}
		return
	}
	parent, n := gen.AtJSON(*root, m.path)
	i := m.path[len(m.path)-1]
	isObj := parent.Kind == 'o'
	insert := func(at int, key string, v *gen.JNode) {
		vals := append([]*gen.JNode(nil), parent.Vals[:at]...)
		vals = append(vals, v)
		parent.Vals = append(vals, parent.Vals[at:]...)
		if isObj {
			keys := append([]string(nil), parent.Keys[:at]...)
			keys = append(keys, key)
			parent.Keys = append(keys, parent.Keys[at:]...)
		}
	}
	key := ""
	if isObj {
		key = parent.Keys[i]
	}
	switch m.op {
	case "drop":
		parent.Vals = append(append([]*gen.JNode(nil), parent.Vals[:i]...), parent.Vals[i+1:]...)
		if isObj {
			parent.Keys = append(append([]string(nil), parent.Keys[:i]...), parent.Keys[i+1:]...)
		}
	case "dup":
		insert(i+1, key, n.Clone())
	case "set":
		parent.Vals[i] = m.val.Clone()
	case "oneof-before":
		insert(i, m.key, m.val.Clone())
	case "oneof-after":
		insert(i+1, m.key, m.val.Clone())
	case "repeat":
		n.Repeat = m.count
	case "unknown":
		n.Keys = append(n.Keys, "no_such_field")
		n.Vals = append(n.Vals, jnum("1"))
	}
}
