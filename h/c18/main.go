// c18: reconnectable transport (mode S). reconnect.Dial over a scripted dialer whose transports
// fail on command (budget F): write errors, read errors, dial errors during redial, handshake-read
// errors during redial; 1-2 writer threads, a reader, server data + control pings, optional Close.
package main

import (
	iscperrors "github.com/aptpod/iscp-go/errors"
	"bytes"
	"fmt"
	"strings"
	"time"

	"github.com/aptpod/iscp-go/internal/vh/lib"
	"github.com/aptpod/iscp-go/internal/vsched"
	"github.com/aptpod/iscp-go/transport"
	"github.com/aptpod/iscp-go/transport/reconnect"
)

type params struct {
	Writers  int
	Attempts int  // MaxReconnectAttempts
	Close    bool // a closer thread calls Close at a chosen point
	F        int
	P        int
	NormalClose bool // a Read on a transport that was closed locally fails with the normal-close error (as the WebSocket back-ends do)
	Later    int // number of further Writes issued once the transport is dead (budget exhausted / closed); the request queue holds 1024
}

func (p params) name() string {
	if p.NormalClose {
		return fmt.Sprintf("w%d/attempts%d/close%v/F%d/P%d/normal-close-reads", p.Writers, p.Attempts, p.Close, p.F, p.P)
	}
	if p.Later > 0 {
		return fmt.Sprintf("w%d/attempts%d/close%v/F%d/P%d/later%d", p.Writers, p.Attempts, p.Close, p.F, p.P, p.Later)
	}
	return fmt.Sprintf("w%d/attempts%d/close%v/F%d/P%d", p.Writers, p.Attempts, p.Close, p.F, p.P)
}

func scenarios(tier string) []vlib.Scenario {
	var out []vlib.Scenario
	add := func(p params) { out = append(out, vlib.Scenario{Name: p.name(), P: p}) }
	for _, w := range []int{1, 2} {
		for _, a := range []int{1, 2} {
			add(params{Writers: w, Attempts: a, F: 2})
			add(params{Writers: w, Attempts: a, F: 1, P: 1})
		}
	}
	add(params{Writers: 1, Attempts: 2, Close: true, F: 1})
	add(params{Writers: 2, Attempts: 1, Close: true, F: 0, P: 1})
	add(params{Writers: 1, Attempts: 1, F: 3})
	// the underlying transport reports a local close to its pending Read as a normal close
	add(params{Writers: 1, Attempts: 2, F: 1, NormalClose: true})
	add(params{Writers: 1, Attempts: 2, F: 2, NormalClose: true})
	add(params{Writers: 2, Attempts: 1, F: 1, P: 1, NormalClose: true})
	// a caller that keeps retrying on a dead transport: more later Writes than the request queue holds
	add(params{Writers: 1, Attempts: 1, F: 0, Later: 1100})
	add(params{Writers: 1, Attempts: 1, F: 2, Later: 1100})
	if tier == "thorough" {
		for _, w := range []int{1, 2} {
			for _, a := range []int{1, 2} {
				add(params{Writers: w, Attempts: a, F: 3})
				add(params{Writers: w, Attempts: a, F: 2, P: 1})
				add(params{Writers: w, Attempts: a, Close: true, F: 1, P: 1})
			}
		}
		add(params{Writers: 2, Attempts: 2, F: 1, P: 2})
	}
	return out
}

func config(sc vlib.Scenario, tier string) vsched.Config {
	p := sc.P.(params)
	cfg := vsched.Config{Preempt: 1, Switch: 1, SelCase: 1, Stall: 1, Timer: -1, Horizon: 60 * time.Second, MaxSteps: 300000, Atomics: false}
	cfg.Budget[vsched.BudP] = p.P
	cfg.Budget[vsched.BudF] = p.F
	cfg.Scope = func(site string) bool { return strings.HasPrefix(site, "transport/reconnect.") }
	return cfg
}

// fake underlying transport
type fakeTr struct {
	w       *world
	idx     int
	inbox   [][]byte
	readErr error
	log     [][]byte
	closed  bool
	writeBroken bool
	cfg     transport.DialConfig
}

func (f *fakeTr) Read() ([]byte, error) {
	vsched.WaitUntil(fmt.Sprintf("fake-read#%d", f.idx), func() bool { return len(f.inbox) > 0 || f.readErr != nil || f.closed })
	if len(f.inbox) > 0 {
		m := f.inbox[0]
		f.inbox = f.inbox[1:]
		return m, nil
	}
	if f.readErr != nil {
		return nil, f.readErr
	}
	if f.w.p.NormalClose {
		// what the WebSocket back-ends return from a Read that was pending when the transport was closed locally
		return nil, fmt.Errorf("fake: closed: %w", iscperrors.ErrConnectionNormalClose)
	}
	return nil, transport.ErrAlreadyClosed
}

func (f *fakeTr) Write(b []byte) error {
	vsched.Yield("h:fake-write")
	if f.closed {
		return transport.ErrAlreadyClosed
	}
	if f.readErr != nil || f.writeBroken {
		return fmt.Errorf("fake: broken pipe")
	}
	if vsched.ChooseBudget(fmt.Sprintf("write-fail#%d:%s", f.idx, string(b)), 2, vsched.BudF) == 1 {
		if f.w.p.NormalClose {
			f.writeBroken = true // only the sending direction fails: the pending Read ends when the transport is closed
		} else {
			f.readErr = fmt.Errorf("fake: connection reset")
		}
		f.w.failures++
		return fmt.Errorf("fake: write failed")
	}
	f.log = append(f.log, append([]byte{}, b...))
	f.w.global = append(f.w.global, fmt.Sprintf("%d:%s", f.idx, string(b)))
	return nil
}

func (f *fakeTr) Close() error                                           { return f.CloseWithStatus(transport.CloseStatusNormal) }
func (f *fakeTr) CloseWithStatus(transport.CloseStatus) error {
	vsched.Yield("h:fake-close")
	if !f.closed && f.readErr == nil && !f.writeBroken && !f.w.closed {
		f.w.healthyClosed = append(f.w.healthyClosed, f.idx)
	}
	f.closed = true
	return nil
}
func (f *fakeTr) RxBytesCounterValue() uint64                            { return 0 }
func (f *fakeTr) TxBytesCounterValue() uint64                            { return 0 }
func (f *fakeTr) AsUnreliable() (transport.UnreliableTransport, bool)    { return nil, false }
func (f *fakeTr) NegotiationParams() transport.NegotiationParams         { return f.cfg.NegotiationParams() }
func (f *fakeTr) Name() transport.Name                                   { return "fake" }

type wres struct {
	issue   int // global issue counter at the moment Write was called
	payload string
	err     error
	done    bool
	start, end int // positions in the global event counter
}

type world struct {
	peerClosedNormally bool
	readerDeadAtFinal, closedAtFinal bool
	redials         []bool // outcome of every redial attempt, in order
	deadBeforeClose bool
	laterN  int
	laterOK []string
	p        params
	trs      []*fakeTr
	dials    []transport.DialConfig
	failures int
	global   []string
	writes   []*wres
	reads    []string
	readErr  error
	readerDone bool
	served   []string // data messages handed to the current transport by the server
	tr       *reconnect.Transport
	dialErr  error
	phase    string
	closed   bool
	finalW, finalR error
	finalDone bool
	clock    int
	exhausted bool
	issued   int
	redialBy []int // the library thread (read loop or write loop) that made each redial attempt
	healthyClosed []int // connections the library closed although no failure was injected on them and Close was not called
}

func (w *world) dial(cfg transport.DialConfig) (transport.Transport, error) {
	n := len(w.dials)
	w.dials = append(w.dials, cfg)
	vsched.Yield("h:dial")
	if n > 0 && vsched.ChooseBudget(fmt.Sprintf("dial-fail#%d", n), 2, vsched.BudF) == 1 {
		w.failures++
		w.redials = append(w.redials, false)
		w.redialBy = append(w.redialBy, vsched.ThreadID())
		return nil, fmt.Errorf("fake: dial refused")
	}
	f := &fakeTr{w: w, idx: len(w.trs), cfg: cfg}
	if n > 0 {
		// the server greets a reconnecting client with one handshake message
		if vsched.ChooseBudget(fmt.Sprintf("handshake-fail#%d", n), 2, vsched.BudF) == 1 {
			w.failures++
			f.readErr = fmt.Errorf("fake: handshake reset")
			w.redials = append(w.redials, false)
		} else {
			f.inbox = append(f.inbox, []byte("hello"))
			w.redials = append(w.redials, true)
		}
		w.redialBy = append(w.redialBy, vsched.ThreadID())
	}
	w.trs = append(w.trs, f)
	return f, nil
}

func (w *world) live() *fakeTr {
	for i := len(w.trs) - 1; i >= 0; i-- {
		if !w.trs[i].closed && w.trs[i].readErr == nil {
			return w.trs[i]
		}
	}
	return nil
}

func (w *world) main() {
	tr, err := reconnect.Dial(reconnect.DialConfig{
		Dialer:               transport.DialerFunc(w.dial),
		DialConfig:           transport.DialConfig{Address: "x", TransportID: "tid-1"},
		MaxReconnectAttempts: w.p.Attempts,
		ReconnectInterval:    time.Second,
	})
	if err != nil {
		w.dialErr = err
		return
	}
	w.tr = tr
	w.phase = "run"
	var wg vsched.WaitGroup
	for t := 0; t < w.p.Writers; t++ {
		t := t
		wg.Add(1)
		vsched.Go("h:writer", func() {
			defer wg.Done()
			for i := 0; i < 2; i++ {
				w.issued++
				r := &wres{payload: fmt.Sprintf("w%d-%d", t, i), start: len(w.global), issue: w.issued}
				w.writes = append(w.writes, r)
				r.err = tr.Write([]byte(r.payload))
				r.end = len(w.global)
				r.done = true
			}
		})
	}
	vsched.Go("h:reader", func() {
		for {
			b, err := tr.Read()
			if err != nil {
				w.readErr = err
				w.readerDone = true
				return
			}
			w.reads = append(w.reads, string(b))
		}
	})
	// the server: at quiescence it delivers data, a control ping, or (budget) breaks the read side
	vsched.Go("h:server", func() {
		msgs := []string{"d1", "ping", "d2"}
		for k := 0; k < len(msgs) && !w.closed; {
			vsched.QuiesceP(1)
			f := w.live()
			if f == nil {
				if w.exhausted || w.closed {
					return
				}
				vsched.Sleep(500*time.Millisecond, "h:server-wait")
				continue
			}
			// a read failure: a reset, or the peer going away (websocket status 1001, e.g. a broker restart): both are redialled
			nkinds := 3
			if w.p.NormalClose {
				nkinds = 4 // also: the peer closes the connection normally (no redial is owed; reads and writes then fail alike)
			}
			if kind := vsched.ChooseBudget(fmt.Sprintf("read-fail#%d@%d", f.idx, k), nkinds, vsched.BudF); kind != 0 {
				w.failures++
				switch kind {
				case 1:
					f.readErr = fmt.Errorf("fake: read reset")
				case 2:
					f.readErr = fmt.Errorf("fake: peer restarts: %w", iscperrors.ErrConnectionGoingAwayClose)
				case 3:
					f.readErr = fmt.Errorf("fake: peer closed: %w", iscperrors.ErrConnectionNormalClose)
					w.peerClosedNormally = true
					return
				}
				continue
			}
			f.inbox = append(f.inbox, []byte(msgs[k]))
			if msgs[k] != "ping" {
				w.served = append(w.served, msgs[k])
			}
			k++
		}
	})
	if w.p.Close {
		vsched.Go("h:closer", func() {
			pos := vsched.Choose("close-at", 3)
			switch pos {
			case 1:
				vsched.WaitUntil("close-after-first-write", func() bool { return len(w.global) >= 1 })
			case 2:
				vsched.WaitUntil("close-after-writers", func() bool {
					n := 0
					for _, r := range w.writes {
						if r.done {
							n++
						}
					}
					return n == 2*w.p.Writers
				})
			}
			w.closed = true
			tr.Close()
		})
	}
	wg.Wait()
	w.phase = "settle"
	vsched.Sleep(20*time.Second, "h:settle")
	w.phase = "final"
	// after exhaustion or Close, later calls must fail instead of blocking; on a healthy transport they work
	w.readerDeadAtFinal, w.closedAtFinal = w.readerDone, w.closed
	w.finalW = tr.Write([]byte("final"))
	if !w.closed && w.finalW == nil {
		// healthy: do not issue a Read that would legitimately wait for data
	} else {
		_, w.finalR = tr.Read()
	}
	w.finalDone = true
	later := func(tag string) {
		for i := 0; i < w.p.Later; i++ {
			w.laterN++
			if err := tr.Write([]byte(fmt.Sprintf("later-%s-%d", tag, i))); err == nil {
				w.laterOK = append(w.laterOK, fmt.Sprintf("%s-%d", tag, i))
			}
		}
	}
	w.deadBeforeClose = !w.closed && w.finalW != nil
	if !w.closed && w.finalW != nil {
		w.phase = "later-exhausted"
		later("exhausted")
	}
	w.phase = "closing"
	if !w.closed {
		w.closed = true
		tr.Close()
	}
	w.phase = "later-closed"
	later("closed")
	vsched.Sleep(5*time.Second, "h:drain")
	w.phase = "done"
}

func run(sc vlib.Scenario, cfg vsched.Config) (*vsched.Result, vlib.Verdict) {
	w := &world{p: sc.P.(params)}
	res := vsched.Run(cfg, w.main)
	var v vlib.Verdict
	dev := res.Used[vsched.BudP] > 0
	if res.Outcome == vsched.Panicked {
		v.Fail("C18.panic", res.Panic.Site, "library panic: %s", res.Panic.Value)
		return res, v
	}
	if w.dialErr != nil {
		v.Inconclusive = "initial dial failed"
		return res, v
	}
	if res.Outcome != vsched.Completed {
		where := []string{}
		for _, t := range res.Alive {
			if t.Name == "h:writer" || t.ID == 0 {
				where = append(where, fmt.Sprintf("%s@%s", t.Name, siteFunc(t.Site)))
			}
		}
		v.Fail("C18.blocked", fmt.Sprintf("%s/%v/failures=%d/attempts=%d/closed=%v/dev=%v", w.phase, where, min(w.failures, 3), w.p.Attempts, w.closed, dev), "a Read/Write call never returned (phase %s, %d injected failures, budget of %d redial attempts, closed=%v): parked %v", w.phase, w.failures, w.p.Attempts, w.closed, where)
		return res, v
	}
	// redials carry the same transport id and the reconnect flag
	for i, d := range w.dials {
		if d.TransportID != "tid-1" {
			v.Fail("C18.redial", "transport-id", "dial %d used transport id %q", i, d.TransportID)
		}
		if (i > 0) != d.Reconnect {
			v.Fail("C18.redial", "reconnect-flag", "dial %d has Reconnect=%v", i, d.Reconnect)
		}
	}
	if len(w.healthyClosed) > 0 {
		v.Fail("C18.redial", fmt.Sprintf("healthy-connection-closed/dev=%v", dev), "the transport closed connection(s) %v although they had not failed and Close had not been called (%d failures injected, %d dials)", w.healthyClosed, w.failures, len(w.dials))
	}
	// the redial budget: one redial (the attempts of one loop, contiguous because the transport's mutex serialises the
	// redials of the read loop and of the write loop) makes at most MaxReconnectAttempts failed attempts, and the transport
	// gives up only when one redial has made exactly that many. (A redial of the other loop may still run, and even
	// succeed, between a loop's decision to give up and its taking effect: the budget was exhausted all the same.)
	longest, cur := 0, 0
	for i, ok := range w.redials {
		if ok || (i > 0 && w.redialBy[i] != w.redialBy[i-1]) {
			cur = 0
		}
		if !ok {
			cur++
		}
		if cur > longest {
			longest = cur
		}
	}
	if longest > w.p.Attempts {
		v.Fail("C18.budget", "over-budget", "one redial made %d consecutive failed attempts, MaxReconnectAttempts is %d (attempt outcomes %v by threads %v)", longest, w.p.Attempts, w.redials, w.redialBy)
	} else if w.deadBeforeClose && longest < w.p.Attempts && !w.peerClosedNormally { // (a connection the peer closed normally is not a broken one: no redial is owed)
		v.Fail("C18.budget", "gave-up-early", "the transport gave up although no redial had made more than %d consecutive failed attempts, MaxReconnectAttempts is %d (attempt outcomes %v by threads %v)", longest, w.p.Attempts, w.redials, w.redialBy)
	}
	if len(w.laterOK) > 0 {
		v.Fail("C18.later", "write-accepted-on-dead-transport", "Write %s returned nil although the transport was already dead", w.laterOK[0])
	}
	// every accepted write exactly once, in exactly one incarnation
	count := map[string]int{}
	pos := map[string]int{}
	for i, e := range w.global {
		p := e[strings.Index(e, ":")+1:]
		count[p]++
		pos[p] = i
	}
	for _, r := range w.writes {
		if !r.done {
			continue
		}
		if r.err == nil && count[r.payload] != 1 {
			kind := "lost"
			if count[r.payload] > 1 {
				kind = "duplicated"
			}
			v.Fail("C18.write", fmt.Sprintf("%s/dev=%v", kind, dev), "Write(%s) returned nil but appears %d times in the underlying connections' logs %v", r.payload, count[r.payload], w.global)
		}
		if r.err != nil && count[r.payload] > 1 {
			v.Fail("C18.write", "failed-write-duplicated", "Write(%s) failed but appears %d times in the logs", r.payload, count[r.payload])
		}
	}
	// order: program order per writer, and real-time order between completed writes
	for i, a := range w.writes {
		for j, b := range w.writes {
			if i == j || !a.done || !b.done || a.err != nil || b.err != nil || count[a.payload] != 1 || count[b.payload] != 1 {
				continue
			}
			sameWriter := a.payload[:2] == b.payload[:2] && a.payload < b.payload
			if (sameWriter || a.end <= b.start) && pos[a.payload] > pos[b.payload] {
				v.Fail("C18.order", fmt.Sprintf("reordered/same-writer=%v/dev=%v", sameWriter, dev), "Write(%s) completed before Write(%s) was issued, but the connections received them in the order %v", a.payload, b.payload, w.global)
			}
		}
	}
	// without schedule deviations the order in which Write was called is the order of the requests in the
	// transport's queue: accepted writes must reach the connections in exactly that order (a retry keeps its place)
	if !dev {
		for i, a := range w.writes {
			for j, b := range w.writes {
				if i == j || !a.done || !b.done || a.err != nil || b.err != nil || count[a.payload] != 1 || count[b.payload] != 1 {
					continue
				}
				if a.issue < b.issue && pos[a.payload] > pos[b.payload] {
					v.Fail("C18.order", "issue-order/dev=false", "Write(%s) was issued before Write(%s) but the connections received them in the order %v", a.payload, b.payload, w.global)
				}
			}
		}
	}
	// reads: data exactly once in order, pings filtered and answered
	var wantReads []string
	wantReads = append(wantReads, w.served...)
	got := strings.Join(w.reads, ",")
	for _, r := range w.reads {
		if r == "ping" || r == "pong" || r == "hello" {
			v.Fail("C18.read", "control-message-returned:"+r, "Read returned the control message %q", r)
		}
	}
	if w.failures == 0 && !w.p.Close && got != strings.Join(wantReads, ",") {
		v.Fail("C18.read", "data", "Read returned %v, the server sent %v", w.reads, wantReads)
	}
	seen := map[string]int{}
	for _, r := range w.reads {
		seen[r]++
		if seen[r] > 1 {
			v.Fail("C18.read", "duplicate", "Read returned %q twice", r)
		}
	}
	pinged := false
	for _, f := range w.trs {
		for _, m := range f.inbox {
			_ = m
		}
	}
	for _, e := range w.global {
		if strings.HasSuffix(e, ":pong") {
			pinged = true
		}
	}
	_ = pinged
	// a failed read is redialled like a failed write: a transport whose Reads have failed for good while its Writes still
	// work (nobody reads the connection it redialled for them) is neither alive nor dead
	if w.readerDeadAtFinal && !w.closedAtFinal && w.finalW == nil {
		v.Fail("C18.read", fmt.Sprintf("reads-dead-writes-alive/dev=%v", dev), "Read had failed for good (%v) although Close had not been called and the redial budget was not exhausted: the next Write still succeeded (%d failures injected, attempt outcomes %v)", w.readErr, w.failures, w.redials)
	}
	// after Close: errors, not nil
	if w.closed && w.finalDone && w.p.Close {
		if w.finalW == nil {
			v.Fail("C18.closed", "write-after-close-nil", "Write after Close returned nil")
		}
		if w.finalR == nil {
			v.Fail("C18.closed", "read-after-close-nil", "Read after Close returned data")
		}
	}
	ok := 0
	for _, r := range w.writes {
		if r.done && r.err == nil {
			ok++
		}
	}
	v.Outcome = fmt.Sprintf("ok=%d/%d conns=%d failures=%d reads=%s finalW=%v", ok, len(w.writes), len(w.trs), w.failures, got, w.finalW == nil)
	return res, v
}

func siteFunc(s string) string {
	if i := strings.Index(s, "@"); i > 0 {
		return s[:i]
	}
	return s
}

var _ = bytes.Equal

func main() {
	vlib.Main(&vlib.Harness{
		Property:  "C18",
		Scenarios: scenarios,
		Config:    config,
		Run:       run,
		Rule:      "mode S: reconnect.Dial over a scripted dialer; failure budget F over {write error on any write, read error at any quiescent point, dial error of any redial, handshake-read error of any redial}; 1-2 writer threads x 2 writes, a reader, server data d1, control ping, d2; MaxReconnectAttempts in {1,2}; optional Close at 3 positions; after 20 s of virtual time one more Write (and Read when closed/exhausted) must return; deviations <= P in transport/reconnect",
		Assumptions: []string{"the scripted transport logs a write only when it accepts it; a failing write is not logged", "ReconnectInterval 1 s on the virtual clock"},
	})
}
