package main

import (
	"bytes"
	"fmt"
	"hash/fnv"
	"runtime"
	"strings"

	"github.com/aptpod/iscp-go/transport"
	"github.com/aptpod/iscp-go/transport/compress"
)

// ---------- messages ----------

// Msg is one letter of the message alphabet: the first N bytes of one of three fixed byte patterns.
type Msg struct {
	N int `json:"n"`
	C int `json:"c"` // 0 zeros, 1 period-7 text, 2 fixed pseudo-random pattern (xorshift32, fixed start value)
}

const (
	mib        = 1 << 20
	maxMsgSize = mib
	nContents  = 3
)

var contentName = [nContents]string{"zeros", "text7", "prand"}

var base [nContents][]byte
var baseSum [nContents]uint64

func initContent() {
	for c := range base {
		base[c] = make([]byte, maxMsgSize+8)
	}
	const text = "iSCP-7\n"
	for i := range base[1] {
		base[1][i] = text[i%7]
	}
	x := uint32(0x13c13c13) // fixed: the pattern is part of the harness, no randomness
	for i := range base[2] {
		x ^= x << 13
		x ^= x >> 17
		x ^= x << 5
		base[2][i] = byte(x >> 11)
	}
	for c := range base {
		baseSum[c] = sum64(base[c])
	}
}

func sum64(b []byte) uint64 { h := fnv.New64a(); h.Write(b); return h.Sum64() }

// bytesOf returns the message bytes (capacity limited so that an append by the library cannot
// touch the shared pattern).
func (m Msg) bytesOf() []byte { return base[m.C][:m.N:m.N] }

func (m Msg) String() string { return fmt.Sprintf("%d%c", m.N, "ztr"[m.C]) }

func seqString(s []Msg) string {
	p := make([]string, len(s))
	for i, m := range s {
		p[i] = m.String()
	}
	return strings.Join(p, ",")
}

// ---------- configurations ----------

// Cfg is one negotiated compression configuration.
type Cfg struct {
	Mode  string `json:"mode"` // "off" | "pm" (per-message) | "ct" (context takeover)
	Level int    `json:"level"`
	Bits  int    `json:"bits"`
	// Neg selects how the configuration reaches the transport:
	//  ""          everything in the negotiated parameters (comp, clevel, cwinbits)
	//  "level0"    comp=Mode, clevel=0 -> compression off (0 = off)
	//  "basebits"  cwinbits not negotiated, window bits taken from Config.CompressConfig
	//  "validated" clevel not given, NegotiationParams.Validate() fills in the default level (6)
	Neg string `json:"neg,omitempty"`
}

func (c Cfg) String() string {
	s := fmt.Sprintf("%s/L%d/b%d", c.Mode, c.Level, c.Bits)
	if c.Neg != "" {
		s += "/" + c.Neg
	}
	return s
}

// refMode is what the documentation lets a peer expect on the wire.
type refMode struct {
	Compressed bool
	Takeover   bool
	Window     int
}

func (c Cfg) window() int { return 1 << uint(c.Bits) }

// build returns the library-side parameters and the reference expectation.
func (c Cfg) build() (transport.NegotiationParams, compress.Config, refMode) {
	var np transport.NegotiationParams
	var bc compress.Config
	ref := refMode{Window: c.window()}
	lvl, bits := c.Level, c.Bits
	switch c.Mode {
	case "pm":
		np.Compress = compress.TypePerMessage
		ref.Compressed = true
	case "ct":
		np.Compress = compress.TypeContextTakeOver
		ref.Compressed, ref.Takeover = true, true
	default:
		// off: nothing negotiated; a base config that asks for compression must be ignored
		bc = compress.Config{Enable: true, Level: 6, WindowBits: bits}
		return np, bc, ref
	}
	np.CompressLevel, np.CompressWindowBits = &lvl, &bits
	switch c.Neg {
	case "level0":
		zero := 0
		np.CompressLevel = &zero
		ref.Compressed, ref.Takeover = false, false
	case "basebits":
		np.CompressWindowBits = nil
		bc.WindowBits = bits
	case "validated":
		np.CompressLevel = nil
		if err := np.Validate(); err != nil {
			panic("harness: Validate rejected a valid configuration: " + err.Error())
		}
	}
	return np, bc, ref
}

// sizesFor is the size alphabet of a window: {0, 1, W-1, W, W+1, 2W+3, 65535, 65536}; sizes above
// 1 MiB (windows of 2^32) are not representable here and are dropped. 1 MiB itself is a separate
// letter used only in the *-mib families.
func sizesFor(bits int) []int {
	w := 1 << uint(bits)
	cand := []int{0, 1, w - 1, w, w + 1, 2*w + 3, 65535, 65536}
	var out []int
	for _, n := range cand {
		if n < 0 || n >= mib {
			continue
		}
		dup := false
		for _, o := range out {
			dup = dup || o == n
		}
		if !dup {
			out = append(out, n)
		}
	}
	// sorted insertion not needed; keep the documented order
	return out
}

func lettersFor(bits int, contents []int) []Msg {
	var out []Msg
	for _, n := range sizesFor(bits) {
		for _, c := range contents {
			if n == 0 && c != contents[0] {
				continue // the empty message has no content
			}
			out = append(out, Msg{n, c})
		}
	}
	return out
}

var allContents = []int{0, 1, 2}

// ---------- violations ----------

// V is one violated clause of one case.
type V struct {
	Sig    string `json:"sig"`
	Detail string `json:"detail"`
}

type vset struct {
	seen map[string]bool
	list []V
}

// add records the first violation of each signature of a case.
func (s *vset) add(sig, format string, a ...any) {
	if s.seen == nil {
		s.seen = map[string]bool{}
	}
	if s.seen[sig] {
		return
	}
	s.seen[sig] = true
	s.list = append(s.list, V{"C13." + sig, fmt.Sprintf(format, a...)})
}

// diff describes the first difference of two byte strings without dumping them.
func diff(want, got []byte) string {
	if bytes.Equal(want, got) {
		return "equal"
	}
	n := len(want)
	if len(got) < n {
		n = len(got)
	}
	i := 0
	for i < n && want[i] == got[i] {
		i++
	}
	if i == n {
		return fmt.Sprintf("len want=%d got=%d, common prefix %d", len(want), len(got), i)
	}
	return fmt.Sprintf("len want=%d got=%d, first difference at offset %d (want 0x%02x got 0x%02x)", len(want), len(got), i, want[i], got[i])
}

// panicSite names the innermost library function on the stack of a recovered panic.
func panicSite() string {
	pcs := make([]uintptr, 64)
	n := runtime.Callers(3, pcs)
	fr := runtime.CallersFrames(pcs[:n])
	first := ""
	for {
		f, more := fr.Next()
		fn := f.Function
		if strings.HasPrefix(fn, "github.com/aptpod/iscp-go/") && !strings.Contains(fn, "/internal/vh/") {
			return strings.TrimPrefix(fn, "github.com/aptpod/iscp-go/")
		}
		if first == "" && !strings.HasPrefix(fn, "runtime.") {
			first = fn
		}
		if !more {
			break
		}
	}
	return first
}

func trimWindow(dict []byte, m []byte, w int) []byte {
	dict = append(dict, m...)
	if len(dict) > w {
		dict = dict[len(dict)-w:]
	}
	return dict
}
