// c13: bounded-exhaustive enumeration (mode I) for property C13 - transports keep message
// boundaries, bytes and order in every compression mode; the wire stays decodable by an
// independent implementation of the framing; byte counters equal the bytes framed.
//
// Process layout: the process started by vcheck is a supervisor. It never calls library code.
// The enumeration runs in worker child processes (os.Args[0] -c13child) that are handed one group
// of cases at a time; a worker that dies (a panic in a goroutine of the library cannot be
// recovered) is reported as a violation for the group it was running and replaced.
package main

import (
	"bufio"
	"encoding/json"
	"flag"
	"fmt"
	"io"
	"os"
	"os/exec"
	"regexp"
	"runtime"
	"runtime/pprof"
	"sort"
	"strings"
	"sync"
	"time"

	"github.com/aptpod/iscp-go/internal/vh/lib"
)

var (
	flagChild   = flag.Bool("c13child", false, "internal: worker process")
	flagWorkers = flag.Int("c13workers", 0, "number of worker processes (default: number of CPUs)")
	flagFam     = flag.String("c13fam", "", "debug: only families whose name contains this")
	flagProf    = flag.String("c13cpuprofile", "", "debug: CPU profile of a worker")
	flagTimeout = flag.Duration("c13timeout", 120*time.Second, "per-case watchdog (safety net only)")
)

// Case is one evaluated element of the space (and the replay format).
type Case struct {
	Kind    string `json:"kind"` // ws | quic | quic-dgram | wt | wt-dgram | loop-ws | loop-quic | loop-wt | group
	Cfg     Cfg    `json:"cfg"`
	Seq     []Msg  `json:"seq,omitempty"`
	Dir     string `json:"dir,omitempty"`     // ws: simplex | duplex
	Rd      int    `json:"rd,omitempty"`      // ws: delivery mode of the in-memory frame reader
	Split   []int  `json:"split,omitempty"`   // stream transports: cut points of the byte stream (<=2 cuts = <=3 fragments)
	Backend string `json:"backend,omitempty"` // loop-ws: coder | gorilla | nhooyr
	Group   *Group `json:"group,omitempty"`   // kind=group: a whole group (used when a worker process died)
}

func (c Case) String() string {
	s := c.Kind + " " + c.Cfg.String() + " [" + seqString(c.Seq) + "]"
	if c.Dir != "" {
		s += " " + c.Dir
	}
	if c.Rd != 0 {
		s += fmt.Sprintf(" rd%d", c.Rd)
	}
	if c.Backend != "" {
		s += " " + c.Backend
	}
	if c.Split != nil {
		s += fmt.Sprintf(" split%v", c.Split)
	}
	return s
}

// ---------- worker ----------

type req struct {
	G     *int   `json:"g,omitempty"`
	Group *Group `json:"group,omitempty"`
	Case  *Case  `json:"case,omitempty"`
}

type resp struct {
	T       string `json:"t"` // v | done
	Sig     string `json:"sig,omitempty"`
	Detail  string `json:"detail,omitempty"`
	Case    *Case  `json:"case,omitempty"`
	G       int    `json:"g"`
	N       int64  `json:"n,omitempty"`
	Fam     string `json:"fam,omitempty"`
	Hung    bool   `json:"hung,omitempty"`
	Recycle bool   `json:"recycle,omitempty"` // the worker has grown large (leaked library goroutines/buffers): replace it
	Inc     int64  `json:"inc,omitempty"`     // loopback cases that were inconclusive (network/timing)
	IncWhy  string `json:"incwhy,omitempty"`  // first reason
	Sample  *Case  `json:"sample,omitempty"`
}

// guarded runs one case with panic capture and a watchdog.
func guarded(c Case) (vs []V, hung bool) {
	done := make(chan []V, 1)
	go func() {
		defer func() {
			if r := recover(); r != nil {
				site := panicSite()
				done <- []V{{"C13.panic:" + kindWhere(c) + "/" + site, fmt.Sprintf("panic in %s: %v (case %s)", site, r, c)}}
			}
		}()
		done <- runCase(c)
	}()
	t := time.NewTimer(*flagTimeout)
	defer t.Stop()
	select {
	case vs = <-done:
		return vs, false
	case <-t.C:
		return []V{{"C13.hang:" + kindWhere(c), fmt.Sprintf("case did not finish within %v: %s", *flagTimeout, c)}}, true
	}
}

func kindWhere(c Case) string { return c.Kind + "/" + c.Cfg.Mode }

func runCase(c Case) []V {
	switch c.Kind {
	case "ws":
		return runWS(c)
	case "quic", "wt":
		return runStream(c)
	case "quic-dgram", "wt-dgram":
		return runDgram(c)
	case "loop-ws", "loop-quic", "loop-wt":
		return runLoop(c)
	case "loop-skip":
		return []V{{inconclusive + "time-budget", "loopback group time budget exhausted before this case"}}
	}
	return []V{{"C13.harness:unknown-kind", c.Kind}}
}

const (
	childMemLimit = 6 << 30
	childRecycle  = 1 << 30 // a worker this large after a group is replaced, so that a later kill is blamed on the right group
)

func residentBytes() int64 {
	b, err := os.ReadFile("/proc/self/statm")
	if err != nil {
		return 0
	}
	var size, rss int64
	fmt.Sscan(string(b), &size, &rss)
	return rss * int64(os.Getpagesize())
}

// childWatchdog ends the worker when the supervisor is gone or when the process has grown beyond any
// legitimate need (a corrupted length prefix can make the library allocate gigabytes).
func childWatchdog() {
	ppid := os.Getppid()
	for {
		time.Sleep(250 * time.Millisecond)
		if os.Getppid() != ppid {
			os.Exit(9)
		}
		if rss := residentBytes(); rss > childMemLimit {
			fmt.Fprintf(os.Stderr, "fatal error: c13 worker memory limit exceeded (resident %d MiB)\n", rss>>20)
			os.Exit(7)
		}
	}
}

func childMain(e *vlib.Explore) {
	if *flagProf != "" {
		f, _ := os.Create(*flagProf)
		pprof.StartCPUProfile(f)
		defer pprof.StopCPUProfile()
	}
	go childWatchdog()
	initContent()
	gs := groups(e.Thorough())
	in := bufio.NewReaderSize(os.Stdin, 1<<20)
	out := bufio.NewWriter(os.Stdout)
	enc := json.NewEncoder(out)
	for {
		line, err := in.ReadBytes('\n')
		if len(line) > 0 {
			var r req
			if json.Unmarshal(line, &r) != nil {
				fmt.Fprintln(os.Stderr, "c13 worker: bad request")
				os.Exit(3)
			}
			var g Group
			gi := -1
			switch {
			case r.Case != nil && r.Case.Kind == "group":
				g = *r.Case.Group
			case r.Case != nil:
				g = Group{Fam: "replay", single: r.Case}
			case r.Group != nil:
				g = *r.Group
			default:
				gi = *r.G
				g = gs[gi]
			}
			var n, inc int64
			incWhy := ""
			anyHung := false
			var sample *Case
			g.each(func(c Case) bool {
				n++
				vs, hung := guarded(c)
				for _, v := range vs {
					if strings.HasPrefix(v.Sig, inconclusive) {
						inc++
						if incWhy == "" {
							incWhy = v.Sig[len(inconclusive):] + ": " + v.Detail
						}
						continue
					}
					cc := c
					enc.Encode(resp{T: "v", Sig: v.Sig, Detail: v.Detail, Case: &cc, G: gi})
				}
				if n == int64(1+(e.Seed+gi)%7) {
					cc := c
					sample = &cc
				}
				for _, v := range vs {
					if strings.Contains(v.Sig, "-hang:") {
						hung = true // a Read that never returns: every further case of the group would wait as well
					}
				}
				if hung {
					anyHung = true
					return false // give up the rest of the group (a stuck goroutine may also hold a CPU)
				}
				return true
			})
			if strings.HasPrefix(g.Fam, "loop-") && anyHung {
				anyHung, inc = false, inc+1 // a timeout on a real connection decides nothing
			}
			enc.Encode(resp{T: "done", G: gi, N: n, Fam: g.Fam, Hung: anyHung, Sample: sample, Inc: inc, IncWhy: incWhy, Recycle: anyHung || residentBytes() > childRecycle})
			out.Flush()
		}
		if err != nil {
			break
		}
	}
	// the shared content patterns must not have been written to by the library
	for c := range base {
		if sum64(base[c]) != baseSum[c] {
			enc.Encode(resp{T: "v", Sig: "C13.input-mutated:" + contentName[c], Detail: "a transport wrote into the caller's message buffer", G: -1, Case: &Case{Kind: "group"}})
		}
	}
	enc.Encode(resp{T: "bye", G: -1})
	out.Flush()
}

// caseOrderKey orders failing cases: fewer message bytes first, then shorter sequences, then the
// smaller configuration; the representative of a signature is the minimum (independent of timing).
func caseOrderKey(c *Case) string {
	if c == nil {
		return "~"
	}
	total := 0
	for _, m := range c.Seq {
		total += m.N
	}
	b, _ := json.Marshal(c)
	return fmt.Sprintf("%010d|%02d|%02d|%02d|%s", total, len(c.Seq), c.Cfg.Level, c.Cfg.Bits, b)
}

// ---------- supervisor ----------

// tail keeps the beginning and the end of a worker's stderr (a fatal error prints its reason first and then
// the stacks of all goroutines, which can be long).
type tail struct {
	mu   sync.Mutex
	head []byte
	buf  []byte
}

func (t *tail) Write(p []byte) (int, error) {
	t.mu.Lock()
	if room := 1<<13 - len(t.head); room > 0 {
		t.head = append(t.head, p[:min(room, len(p))]...)
	}
	t.buf = append(t.buf, p...)
	if len(t.buf) > 1<<16 {
		t.buf = t.buf[len(t.buf)-1<<15:]
	}
	t.mu.Unlock()
	return len(p), nil
}

func (t *tail) String() string {
	t.mu.Lock()
	defer t.mu.Unlock()
	if len(t.buf) > len(t.head) && !strings.HasPrefix(string(t.buf), string(t.head)) {
		return string(t.head) + "\n...\n" + string(t.buf)
	}
	return string(t.buf)
}

type worker struct {
	cmd    *exec.Cmd
	stdin  io.WriteCloser
	stdout *bufio.Reader
	stderr *tail
}

func startWorker(tier string) (*worker, error) {
	cmd := exec.Command(os.Args[0], "-c13child", "-tier", tier, "-c13timeout", flagTimeout.String())
	cmd.Env = append(os.Environ(), "GOMAXPROCS=2", "GOGC=400")
	w := &worker{cmd: cmd, stderr: &tail{}}
	var err error
	if w.stdin, err = cmd.StdinPipe(); err != nil {
		return nil, err
	}
	so, err := cmd.StdoutPipe()
	if err != nil {
		return nil, err
	}
	w.stdout = bufio.NewReaderSize(so, 1<<20)
	cmd.Stderr = w.stderr
	if err := cmd.Start(); err != nil {
		return nil, err
	}
	return w, nil
}

func (w *worker) kill() {
	w.stdin.Close()
	w.cmd.Process.Kill()
	w.cmd.Wait()
}

// stop ends a worker gracefully and returns its last responses.
func (w *worker) stop() []resp {
	w.stdin.Close()
	var rs []resp
	for {
		line, err := w.stdout.ReadBytes('\n')
		var r resp
		if len(line) > 0 && json.Unmarshal(line, &r) == nil {
			rs = append(rs, r)
		}
		if err != nil {
			break
		}
	}
	w.cmd.Wait()
	return rs
}

var rePanicFn = regexp.MustCompile(`(?m)^(github\.com/aptpod/iscp-go/[^\s(]+(?:\([^)]*\))?[^\s(]*)\(`)

// deathSite extracts the reason and the first library function from the stderr of a dead worker.
func deathSite(stderr string) (site, reason string) {
	reason = "no panic message"
	for _, l := range strings.Split(stderr, "\n") {
		if strings.HasPrefix(l, "panic:") || strings.HasPrefix(l, "fatal error:") {
			reason = l
			break
		}
	}
	site = "unknown"
	for _, m := range rePanicFn.FindAllStringSubmatch(stderr, -1) {
		if !strings.Contains(m[1], "/internal/vh/") {
			site = strings.TrimPrefix(m[1], "github.com/aptpod/iscp-go/")
			break
		}
	}
	return
}

// exchange sends one request and collects the responses up to "done". died is true when the
// worker went away before answering.
func (w *worker) exchange(r req, limit time.Duration) (rs []resp, done *resp, died bool) {
	b, _ := json.Marshal(r)
	if _, err := w.stdin.Write(append(b, '\n')); err != nil {
		return nil, nil, true
	}
	timer := time.AfterFunc(limit, func() { w.cmd.Process.Kill() })
	defer timer.Stop()
	for {
		line, err := w.stdout.ReadBytes('\n')
		if len(line) > 0 {
			var x resp
			if json.Unmarshal(line, &x) == nil {
				if x.T == "done" {
					return rs, &x, false
				}
				rs = append(rs, x)
			}
		}
		if err != nil {
			return rs, nil, true
		}
	}
}

func main() {
	flag.Parse()
	e := vlib.StartExplore("C13")
	if *flagChild {
		childMain(e)
		return
	}
	tier := e.Tier
	if e.Replay != nil {
		var c Case
		if err := json.Unmarshal(e.Replay, &c); err != nil {
			fmt.Fprintln(os.Stderr, "bad replay case:", err)
			os.Exit(2)
		}
		w, err := startWorker(tier)
		if err != nil {
			fmt.Fprintln(os.Stderr, err)
			os.Exit(2)
		}
		rs, _, died := w.exchange(req{Case: &c}, 20*time.Minute)
		if died {
			w.cmd.Wait()
			site, reason := deathSite(w.stderr.String())
			e.FinishReplay(true, fmt.Sprintf("worker process died in %s: %s", site, reason))
		}
		w.stop()
		var same, other []string
		for _, r := range rs {
			if r.T != "v" {
				continue
			}
			if r.Sig == e.ReplaySig {
				same = append(same, r.Detail)
			} else {
				other = append(other, r.Sig+": "+r.Detail)
			}
		}
		if len(same) > 0 {
			e.FinishReplay(true, same[0])
		}
		if len(other) > 0 {
			e.FinishReplay(true, "recorded signature did not occur, but: "+other[0])
		}
		e.FinishReplay(false, "")
	}

	t0 := time.Now()
	gs := groups(e.Thorough())
	var order []int
	for i, g := range gs {
		if *flagFam == "" || strings.Contains(g.Fam, *flagFam) {
			order = append(order, i)
		}
	}
	// heavy groups first (better packing); ties by index: deterministic
	sort.SliceStable(order, func(a, b int) bool { return gs[order[a]].weight() > gs[order[b]].weight() })

	nw := *flagWorkers
	if nw <= 0 {
		nw = runtime.NumCPU()
	}
	var mu sync.Mutex
	next := 0
	hangs, deaths := 0, 0
	deathsNotRepeated, deathNotRepeatedWhy := 0, ""
	aborted := map[string]int{}
	samples := map[int]*Case{}
	// a family x mode in which two groups hung or killed their worker is not continued (its remaining
	// groups would most likely do the same, each costing a watchdog period); everything else goes on
	loopInc := map[string]int64{}
	loopIncWhy := map[string]string{}
	poisoned := map[string]int{}
	skipped := map[string]int{}
	pkey := func(g Group) string { return g.Fam + "/" + g.Cfg.Mode }
	take := func() (int, bool) {
		mu.Lock()
		defer mu.Unlock()
		for next < len(order) {
			gi := order[next]
			next++
			if poisoned[pkey(gs[gi])] >= 2 || hangs+deaths >= 24 {
				skipped[pkey(gs[gi])]++
				continue
			}
			return gi, true
		}
		return 0, false
	}
	// per signature: the number of cases and the smallest failing case (deterministic representative)
	type agg struct {
		n    int
		best resp
		key  string
	}
	viol := map[string]*agg{}
	record := func(rs []resp) {
		mu.Lock()
		defer mu.Unlock()
		for _, r := range rs {
			if r.T != "v" {
				continue
			}
			k := caseOrderKey(r.Case)
			a := viol[r.Sig]
			if a == nil {
				a = &agg{best: r, key: k}
				viol[r.Sig] = a
			} else if k < a.key {
				a.best, a.key = r, k
			}
			a.n++
		}
	}
	var wg sync.WaitGroup
	for i := 0; i < nw; i++ {
		wg.Add(1)
		go func() {
			defer wg.Done()
			var w *worker
			for {
				gi, ok := take()
				if !ok {
					break
				}
				if w == nil {
					var err error
					if w, err = startWorker(tier); err != nil {
						fmt.Fprintln(os.Stderr, "cannot start worker:", err)
						os.Exit(2)
					}
				}
				g := gs[gi]
				tg := time.Now()
				rs, done, died := w.exchange(req{G: &gi}, 30*time.Minute)
				if d := time.Since(tg); d > 5*time.Second && os.Getenv("C13_DEBUG") != "" {
					fmt.Fprintf(os.Stderr, "slow group %d (%s): %.1fs, started at +%.1fs\n", gi, g, d.Seconds(), tg.Sub(t0).Seconds())
				}
				if died {
					// a death that does not repeat when the group is run again in a fresh worker is not a verdict about the
					// library (the same input must fail every time): it is counted and reported in the evidence
					w.cmd.Wait()
					_, reason1 := deathSite(w.stderr.String())
					if w2, err := startWorker(tier); err == nil {
						rs2, done2, died2 := w2.exchange(req{G: &gi}, 30*time.Minute)
						if !died2 {
							mu.Lock()
							deathsNotRepeated++
							if deathNotRepeatedWhy == "" {
								deathNotRepeatedWhy = fmt.Sprintf("group %s: %s", g, reason1)
							}
							mu.Unlock()
							fmt.Fprintf(os.Stderr, "note: a worker died while running group %s (%s); the group completed when run again in a fresh worker\n", g, reason1)
							w, rs, done, died = w2, rs2, done2, false
						} else {
							w2.cmd.Wait()
							w = w2
							rs = rs2
						}
					}
				}
				record(rs)
				if died {
					site, reason := deathSite(w.stderr.String())
					gg := g
					record([]resp{{T: "v", Sig: "C13.process-killed:" + g.Fam + "/" + g.Cfg.Mode + "/" + site,
						Detail: fmt.Sprintf("worker process died while running group %s (an unrecoverable panic in a library goroutine or a runtime fatal error): %s", g, reason),
						Case:   &Case{Kind: "group", Cfg: g.Cfg, Group: &gg}}})
					mu.Lock()
					deaths++
					aborted[g.Fam]++
					poisoned[pkey(g)]++
					mu.Unlock()
					w = nil
					continue
				}
				e.CaseN(done.Fam, done.N)
				if done.Recycle {
					record(w.stop())
					w = nil
				}
				mu.Lock()
				if done.Inc > 0 {
					loopInc[done.Fam] += done.Inc
					if _, ok := loopIncWhy[done.Fam]; !ok {
						loopIncWhy[done.Fam] = done.IncWhy
					}
				}
				if done.Hung {
					hangs++
					aborted[g.Fam]++
					poisoned[pkey(g)]++
				}
				if done.Sample != nil && (gi+e.Seed)%11 == 0 {
					samples[gi] = done.Sample
				}
				mu.Unlock()
			}
			if w != nil {
				record(w.stop())
			}
		}()
	}
	wg.Wait()
	for sig, a := range viol {
		for i := 0; i < a.n; i++ {
			e.Violation(sig, a.best.Detail, a.best.Case)
		}
	}

	var sidx []int
	for gi := range samples {
		sidx = append(sidx, gi)
	}
	sort.Ints(sidx)
	for k := 0; k < len(sidx) && k < 8; k++ {
		s := samples[sidx[k*len(sidx)/min(len(sidx), 8)]]
		e.Sample(map[string]any{"case": s.String()})
	}
	exhaustive := len(aborted) == 0 && len(skipped) == 0 && *flagFam == ""
	extra := map[string]any{
		"groups":                             len(order),
		"groups_aborted":                     aborted,
		"loopback_inconclusive_cases":        loopInc,
		"loopback_inconclusive_first_reason": loopIncWhy,
		"groups_skipped_after_hangs":         skipped,
		"worker_deaths_not_repeated":         deathsNotRepeated,
		"worker_death_not_repeated_reason":   deathNotRepeatedWhy,
		"space":                              spaceDescription(e.Thorough()),
		"not_covered":                        notCovered,
	}
	e.Finish(rule, exhaustive, extra, assumptions)
}
