package main

// Independent reference decoder for RFC 1951 (raw DEFLATE) with an optional preset dictionary.
// Written from the RFC; it shares no code with compress/flate (which the library under test
// uses). It is deliberately strict:
//   - a back-reference may only reach into bytes that exist (dictionary ++ output so far);
//   - distances are limited to 32768 (RFC 1951);
//   - the stream must end with a BFINAL block and (checked by the caller through the returned
//     number of consumed bytes) use the whole frame;
//   - over-subscribed or (except for the single-code cases the RFC allows) incomplete Huffman
//     codes are rejected.

import (
	"errors"
	"fmt"
)

var (
	errInfTruncated = errors.New("ref-inflate: truncated stream")
	errInfTooLong   = errors.New("ref-inflate: output exceeds limit")
)

type huff struct {
	count  [16]uint16 // number of codes of each length
	symbol []uint16   // symbols ordered by code
	fast   [512]uint16
	// fast: index = next 9 stream bits (LSB first); value = sym<<4 | len, 0 = not in table
}

const fastBits = 9

// build constructs the canonical code. Returns left (>0: incomplete, <0: over-subscribed).
func (h *huff) build(lengths []uint8) int {
	for i := range h.count {
		h.count[i] = 0
	}
	for _, l := range lengths {
		h.count[l]++
	}
	for i := range h.fast {
		h.fast[i] = 0
	}
	if int(h.count[0]) == len(lengths) {
		h.symbol = h.symbol[:0]
		return 0 // no codes: complete but decode will fail
	}
	left := 1
	for l := 1; l <= 15; l++ {
		left <<= 1
		left -= int(h.count[l])
		if left < 0 {
			return left
		}
	}
	var offs [16]uint16
	for l := 1; l < 15; l++ {
		offs[l+1] = offs[l] + h.count[l]
	}
	if cap(h.symbol) < len(lengths) {
		h.symbol = make([]uint16, len(lengths))
	}
	h.symbol = h.symbol[:len(lengths)]
	for s, l := range lengths {
		if l != 0 {
			h.symbol[offs[l]] = uint16(s)
			offs[l]++
		}
	}
	// fast table: enumerate canonical codes of length <= fastBits
	code, idx := 0, 0
	for l := 1; l <= fastBits; l++ {
		for k := 0; k < int(h.count[l]); k++ {
			// reverse the l-bit code (Huffman codes are packed MSB first into an LSB-first stream)
			rev := 0
			for b := 0; b < l; b++ {
				if code&(1<<b) != 0 {
					rev |= 1 << (l - 1 - b)
				}
			}
			for fill := rev; fill < 1<<fastBits; fill += 1 << l {
				h.fast[fill] = h.symbol[idx]<<4 | uint16(l)
			}
			code++
			idx++
		}
		code <<= 1
	}
	return left
}

type inflater struct {
	in      []byte
	pos     int
	bitbuf  uint64
	bitcnt  uint
	hist    []byte // dictionary ++ output
	dictLen int
	limit   int // maximum output length
	lcode   huff
	dcode   huff
	lens    [320]uint8
}

func (z *inflater) need(n uint) bool {
	for z.bitcnt < n {
		if z.pos >= len(z.in) {
			return false
		}
		z.bitbuf |= uint64(z.in[z.pos]) << z.bitcnt
		z.pos++
		z.bitcnt += 8
	}
	return true
}

func (z *inflater) bits(n uint) (int, error) {
	if n == 0 {
		return 0, nil
	}
	if !z.need(n) {
		return 0, errInfTruncated
	}
	v := int(z.bitbuf & (1<<n - 1))
	z.bitbuf >>= n
	z.bitcnt -= n
	return v, nil
}

func (z *inflater) decode(h *huff) (int, error) {
	// fast path
	z.need(fastBits) // best effort
	if z.bitcnt > 0 {
		e := h.fast[z.bitbuf&(1<<fastBits-1)]
		if l := uint(e & 15); e != 0 && l <= z.bitcnt {
			z.bitbuf >>= l
			z.bitcnt -= l
			return int(e >> 4), nil
		}
	}
	// slow canonical decode, bit by bit
	code, first, index := 0, 0, 0
	for l := 1; l <= 15; l++ {
		b, err := z.bits(1)
		if err != nil {
			return 0, err
		}
		code |= b
		count := int(h.count[l])
		if code-count < first {
			return int(h.symbol[index+(code-first)]), nil
		}
		index += count
		first += count
		first <<= 1
		code <<= 1
	}
	return 0, errors.New("ref-inflate: invalid Huffman code in data")
}

var (
	lenBase  = [29]uint16{3, 4, 5, 6, 7, 8, 9, 10, 11, 13, 15, 17, 19, 23, 27, 31, 35, 43, 51, 59, 67, 83, 99, 115, 131, 163, 195, 227, 258}
	lenExtra = [29]uint8{0, 0, 0, 0, 0, 0, 0, 0, 1, 1, 1, 1, 2, 2, 2, 2, 3, 3, 3, 3, 4, 4, 4, 4, 5, 5, 5, 5, 0}
	dstBase  = [30]uint16{1, 2, 3, 4, 5, 7, 9, 13, 17, 25, 33, 49, 65, 97, 129, 193, 257, 385, 513, 769, 1025, 1537, 2049, 3073, 4097, 6145, 8193, 12289, 16385, 24577}
	dstExtra = [30]uint8{0, 0, 0, 0, 1, 1, 2, 2, 3, 3, 4, 4, 5, 5, 6, 6, 7, 7, 8, 8, 9, 9, 10, 10, 11, 11, 12, 12, 13, 13}
	clOrder  = [19]uint8{16, 17, 18, 0, 8, 7, 9, 6, 10, 5, 11, 4, 12, 3, 13, 2, 14, 1, 15}
)

func (z *inflater) codes() error {
	for {
		sym, err := z.decode(&z.lcode)
		if err != nil {
			return err
		}
		switch {
		case sym < 256:
			if len(z.hist)-z.dictLen >= z.limit {
				return errInfTooLong
			}
			z.hist = append(z.hist, byte(sym))
		case sym == 256:
			return nil
		default:
			sym -= 257
			if sym >= 29 {
				return errors.New("ref-inflate: invalid length symbol")
			}
			eb, err := z.bits(uint(lenExtra[sym]))
			if err != nil {
				return err
			}
			length := int(lenBase[sym]) + eb
			ds, err := z.decode(&z.dcode)
			if err != nil {
				return err
			}
			if ds >= 30 {
				return errors.New("ref-inflate: invalid distance symbol")
			}
			eb, err = z.bits(uint(dstExtra[ds]))
			if err != nil {
				return err
			}
			dist := int(dstBase[ds]) + eb
			if dist > len(z.hist) {
				return fmt.Errorf("ref-inflate: back-reference distance %d reaches before the start of the window (only %d bytes of dictionary+output exist)", dist, len(z.hist))
			}
			if len(z.hist)-z.dictLen+length > z.limit {
				return errInfTooLong
			}
			start := len(z.hist) - dist
			if dist >= length {
				z.hist = append(z.hist, z.hist[start:start+length]...)
			} else {
				for i := 0; i < length; i++ {
					z.hist = append(z.hist, z.hist[start+i])
				}
			}
		}
	}
}

func (z *inflater) stored() error {
	// skip to the next byte boundary: the low bitcnt%8 buffered bits are the rest of the current
	// byte; whole buffered bytes above them have not been used yet and are given back.
	z.pos -= int(z.bitcnt / 8)
	z.bitbuf, z.bitcnt = 0, 0
	if z.pos+4 > len(z.in) {
		return errInfTruncated
	}
	n := int(z.in[z.pos]) | int(z.in[z.pos+1])<<8
	nn := int(z.in[z.pos+2]) | int(z.in[z.pos+3])<<8
	if n != ^nn&0xffff {
		return errors.New("ref-inflate: stored block length does not match its complement")
	}
	z.pos += 4
	if z.pos+n > len(z.in) {
		return errInfTruncated
	}
	if len(z.hist)-z.dictLen+n > z.limit {
		return errInfTooLong
	}
	z.hist = append(z.hist, z.in[z.pos:z.pos+n]...)
	z.pos += n
	return nil
}

func (z *inflater) fixed() error {
	l := z.lens[:288]
	for i := range l {
		switch {
		case i < 144:
			l[i] = 8
		case i < 256:
			l[i] = 9
		case i < 280:
			l[i] = 7
		default:
			l[i] = 8
		}
	}
	z.lcode.build(l)
	d := z.lens[288 : 288+30]
	for i := range d {
		d[i] = 5
	}
	z.dcode.build(d)
	return z.codes()
}

func (z *inflater) dynamic() error {
	v, err := z.bits(14)
	if err != nil {
		return err
	}
	nlen, ndist, ncode := v&31+257, (v>>5)&31+1, (v>>10)&15+4
	if nlen > 286 || ndist > 30 {
		return errors.New("ref-inflate: too many length or distance codes")
	}
	var cl [19]uint8
	for i := 0; i < ncode; i++ {
		b, err := z.bits(3)
		if err != nil {
			return err
		}
		cl[clOrder[i]] = uint8(b)
	}
	var clcode huff
	if clcode.build(cl[:]) != 0 {
		return errors.New("ref-inflate: code-length code is not complete")
	}
	lens := z.lens[:nlen+ndist]
	for i := 0; i < nlen+ndist; {
		sym, err := z.decode(&clcode)
		if err != nil {
			return err
		}
		if sym < 16 {
			lens[i] = uint8(sym)
			i++
			continue
		}
		var prev uint8
		var rep int
		switch sym {
		case 16:
			if i == 0 {
				return errors.New("ref-inflate: repeat with no previous length")
			}
			prev = lens[i-1]
			b, err := z.bits(2)
			if err != nil {
				return err
			}
			rep = 3 + b
		case 17:
			b, err := z.bits(3)
			if err != nil {
				return err
			}
			rep = 3 + b
		default:
			b, err := z.bits(7)
			if err != nil {
				return err
			}
			rep = 11 + b
		}
		if i+rep > nlen+ndist {
			return errors.New("ref-inflate: repeat runs past the code lengths")
		}
		for ; rep > 0; rep-- {
			lens[i] = prev
			i++
		}
	}
	if lens[256] == 0 {
		return errors.New("ref-inflate: no end-of-block code")
	}
	if left := z.lcode.build(lens[:nlen]); left < 0 || (left > 0 && nlen-int(z.lcode.count[0]) != 1) {
		return errors.New("ref-inflate: invalid literal/length code")
	}
	if left := z.dcode.build(lens[nlen:]); left < 0 || (left > 0 && ndist-int(z.dcode.count[0]) != 1) {
		return errors.New("ref-inflate: invalid distance code")
	}
	return z.codes()
}

// refInflate decodes one raw DEFLATE stream from in with the preset dictionary dict. It returns
// the decoded bytes and the number of input bytes the stream occupies (the final partial byte counts
// as used). limit bounds the output size.
func refInflate(in, dict []byte, limit int) (out []byte, used int, err error) {
	if len(dict) > 32768 {
		dict = dict[len(dict)-32768:] // distances cannot exceed 32768: older bytes are unreachable
	}
	z := &inflater{in: in, limit: limit, dictLen: len(dict)}
	z.hist = make([]byte, len(dict), len(dict)+limit)
	copy(z.hist, dict)
	for {
		hdr, err := z.bits(3)
		if err != nil {
			return nil, z.pos, err
		}
		switch hdr >> 1 {
		case 0:
			err = z.stored()
		case 1:
			err = z.fixed()
		case 2:
			err = z.dynamic()
		default:
			err = errors.New("ref-inflate: reserved block type 3")
		}
		if err != nil {
			return nil, z.pos, err
		}
		if hdr&1 == 1 {
			break
		}
	}
	// bits buffered beyond the current byte belong to bytes not used by the stream
	used = z.pos - int(z.bitcnt/8)
	return z.hist[z.dictLen:], used, nil
}
