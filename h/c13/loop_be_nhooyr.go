//go:build nhooyr

package main

import (
	"net/http"

	"github.com/aptpod/iscp-go/transport/websocket"
	"github.com/aptpod/iscp-go/transport/websocket/nhooyr"
	nws "nhooyr.io/websocket"
)

const loopBackend = "nhooyr"

func beDial(url string) (websocket.Conn, error) { return nhooyr.Dial(url, nil) }

func beHandler(e *loopEnvT) http.HandlerFunc {
	return func(w http.ResponseWriter, r *http.Request) {
		c, err := nws.Accept(w, r, &nws.AcceptOptions{InsecureSkipVerify: true, CompressionMode: nws.CompressionNoContextTakeover})
		if err != nil {
			return
		}
		c.SetReadLimit(-1)
		e.deliver(r.URL.Query().Get("id"), websocket.Conn(nhooyr.New(c)))
	}
}
