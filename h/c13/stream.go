package main

import (
	"bytes"
	"encoding/binary"
	"errors"
	"fmt"
	"io"
	"sort"
	"sync"
	"time"

	"github.com/aptpod/iscp-go/transport"
	tquic "github.com/aptpod/iscp-go/transport/quic"
	twt "github.com/aptpod/iscp-go/transport/webtransport"
	quic "github.com/quic-go/quic-go"
	webtransgo "github.com/quic-go/webtransport-go"
)

// ---------- reference framing of the QUIC / WebTransport stream ----------

// refParseStream splits the byte stream into payloads: 4-byte big-endian length, then the payload.
func refParseStream(s []byte) (payloads [][]byte, ends []int, err error) {
	pos := 0
	for pos < len(s) {
		if pos+4 > len(s) {
			return payloads, ends, fmt.Errorf("truncated length prefix at offset %d", pos)
		}
		n := int(binary.BigEndian.Uint32(s[pos:]))
		if pos+4+n > len(s) {
			return payloads, ends, fmt.Errorf("length prefix %d at offset %d exceeds the %d bytes that follow", n, pos, len(s)-pos-4)
		}
		payloads = append(payloads, s[pos+4:pos+4+n])
		pos += 4 + n
		ends = append(ends, pos)
	}
	return payloads, ends, nil
}

// refDecodePayload: the payload is the message (off) or one complete raw DEFLATE stream of the
// message without dictionary (any compression mode: these transports compress per message).
func refDecodePayload(ref refMode, payload []byte, limit int) ([]byte, error) {
	if !ref.Compressed {
		return payload, nil
	}
	out, used, err := refInflate(payload, nil, limit)
	if err != nil {
		return nil, err
	}
	if used != len(payload) {
		return nil, fmt.Errorf("DEFLATE stream uses %d of %d payload bytes", used, len(payload))
	}
	return out, nil
}

// ---------- WebTransport fake send stream / fragment reader ----------

type wtSend struct{ s *memStream }

func (w wtSend) Write(p []byte) (int, error)            { return w.s.Write(p) }
func (w wtSend) Close() error                           { return nil }
func (w wtSend) StreamID() quic.StreamID                { return 2 }
func (w wtSend) CancelWrite(webtransgo.StreamErrorCode) {}
func (w wtSend) SetWriteDeadline(time.Time) error       { return nil }

// fragReader returns the fragments one Read at a time and io.EOF afterwards (never blocks).
type fragReader struct{ frags [][]byte }

func (r *fragReader) Read(p []byte) (int, error) {
	for len(r.frags) > 0 && len(r.frags[0]) == 0 {
		r.frags = r.frags[1:]
	}
	if len(r.frags) == 0 {
		return 0, io.EOF
	}
	n := copy(p, r.frags[0])
	r.frags[0] = r.frags[0][n:]
	return n, nil
}

func cut(s []byte, split []int) [][]byte {
	cuts := append([]int(nil), split...)
	sort.Ints(cuts)
	var out [][]byte
	prev := 0
	for _, c := range cuts {
		if c > len(s) {
			c = len(s)
		}
		if c > prev {
			out = append(out, s[prev:c])
			prev = c
		}
	}
	if prev < len(s) {
		out = append(out, s[prev:])
	}
	return out
}

// ---------- write phase (memoised per configuration + sequence inside a worker) ----------

type written struct {
	key    string
	stream []byte
	dgrams [][]byte
	tx     uint64
	vs     []V
	failed bool
}

var (
	memoMu sync.Mutex
	memo   written
)

func quicConfig(c Cfg, conn quic.Connection) (tquic.Config, refMode) {
	np, bc, ref := c.build()
	ref.Takeover = false // stream transports have no shared dictionary
	return tquic.Config{Connection: conn, CompressConfig: bc, NegotiationParams: tquic.NegotiationParams{NegotiationParams: np}}, ref
}

func wtConfig(c Cfg) (twt.Config, refMode) {
	np, bc, ref := c.build()
	ref.Takeover = false
	return twt.Config{CompressConfig: bc, NegotiationParams: twt.NegotiationParams{NegotiationParams: np}, ReadBufferExpiry: 10 * time.Second}, ref
}

func streamWhere(c Case) string {
	k := c.Kind
	return k + "/" + c.Cfg.Mode
}

// writePhase writes the sequence through a fresh transport and returns what reached the wire.
func writePhase(c Case, dgram bool) written {
	key := fmt.Sprintf("%s|%v|%s|%v", c.Kind, c.Cfg, seqString(c.Seq), dgram)
	memoMu.Lock()
	if memo.key == key {
		w := memo
		memoMu.Unlock()
		return w
	}
	memoMu.Unlock()
	var vs vset
	where := streamWhere(c)
	w := written{key: key}
	send := newMemStream(false)
	var write func([]byte) error
	var tx func() uint64
	var conn *fakeConn
	switch c.Kind {
	case "wt":
		cfg, _ := wtConfig(c.Cfg)
		t := twt.VerifNewFraming(cfg, wtSend{send})
		write, tx = t.Write, t.TxBytesCounterValue
	default: // quic, quic-dgram, wt-dgram (datagrams are produced by the QUIC transport)
		conn = newFakeConn(send, newMemStream(false))
		cfg, _ := quicConfig(c.Cfg, conn)
		t, err := tquic.New(cfg)
		if err != nil {
			vs.add("new-error:"+where, "quic.New: %v", err)
			w.vs, w.failed = vs.list, true
			return w
		}
		defer t.Close()
		write, tx = t.Write, t.TxBytesCounterValue
		if dgram {
			u, ok := t.AsUnreliable()
			if !ok {
				vs.add("no-unreliable:"+where, "AsUnreliable returned false")
				w.vs, w.failed = vs.list, true
				return w
			}
			write = u.Write
		}
	}
	for i, m := range c.Seq {
		if err := write(m.bytesOf()); err != nil {
			vs.add("write-error:"+where, "message %d (%s): Write: %v", i, m, err)
			w.failed = true
			break
		}
	}
	send.mu.Lock()
	w.stream = append([]byte(nil), send.written...)
	send.mu.Unlock()
	if conn != nil {
		conn.mu.Lock()
		w.dgrams = append([][]byte(nil), conn.dgramOut...)
		conn.mu.Unlock()
	}
	w.tx = tx()
	w.vs = vs.list
	memoMu.Lock()
	memo = w
	memoMu.Unlock()
	return w
}

// safeWritePhase is used while enumerating (outside the per-case guard): a panic is swallowed here
// and re-occurs, guarded and reported, when the case itself runs.
func safeWritePhase(c Case) (w written) {
	defer func() {
		if recover() != nil {
			w = written{failed: true}
		}
	}()
	return writePhase(c, false)
}

// ---------- the stream case ----------

// readTimeout runs a blocking Read of a transport whose input is produced by the (sequential)
// harness. starved (may be nil) is closed by the fake connection when the library's reader goroutine
// asks for input after everything has been delivered: whatever it could decode has been queued for
// Read before that. The decision "this Read will never return" is then made without a clock:
// onStarved closes the fake connection, the reader goroutine ends, and Read returns either the queued
// message or the transport's closed error. The timers are only a safety net against a spinning library.
func readTimeout(f func() ([]byte, error), starved <-chan struct{}, onStarved func()) (b []byte, err error, hung bool) {
	type res struct {
		b   []byte
		err error
	}
	ch := make(chan res, 1)
	go func() {
		defer func() {
			if r := recover(); r != nil {
				ch <- res{nil, fmt.Errorf("panic in Read: %v", r)}
			}
		}()
		b, err := f()
		ch <- res{b, err}
	}()
	t := time.NewTimer(90 * time.Second)
	defer t.Stop()
	select {
	case r := <-ch:
		return r.b, r.err, false
	case <-starved:
		// prefer a result that is already there
		select {
		case r := <-ch:
			return r.b, r.err, false
		default:
		}
		onStarved()
		select {
		case r := <-ch:
			return r.b, r.err, false
		case <-t.C:
			return nil, nil, true
		}
	case <-t.C:
		return nil, nil, true
	}
}

func runStream(c Case) []V {
	var vs vset
	where := streamWhere(c)
	w := writePhase(c, false)
	vs.list = append(vs.list, w.vs...)
	if w.failed {
		return vs.list
	}
	_, _, ref := c.Cfg.build()
	ref.Takeover = false
	s := w.stream
	// wire: independent parse + decode
	payloads, _, perr := refParseStream(s)
	switch {
	case perr != nil:
		vs.add("wire-decodable:"+where+"/length-prefix", "stream of %d bytes for [%s]: %v", len(s), seqString(c.Seq), perr)
	case len(payloads) != len(c.Seq):
		vs.add("wire-decodable:"+where+"/frame-count", "stream carries %d frames for %d messages", len(payloads), len(c.Seq))
	default:
		for i, p := range payloads {
			want := c.Seq[i].bytesOf()
			out, err := refDecodePayload(ref, p, len(want)+64)
			if err != nil {
				vs.add("wire-decodable:"+where+"/payload", "frame %d (message %s, payload %d bytes): reference decoder: %v", i, c.Seq[i], len(p), err)
				break
			}
			if !bytes.Equal(out, want) {
				vs.add("wire-decodable:"+where+"/payload", "frame %d (message %s): reference decoder output differs: %s", i, c.Seq[i], diff(want, out))
				break
			}
		}
	}
	if w.tx != uint64(len(s)) {
		vs.add("tx-counter:"+where, "TxBytesCounterValue=%d, bytes written to the stream=%d ([%s])", w.tx, len(s), seqString(c.Seq))
	}
	// peer: deliver the stream in the fragments of this case
	frags := cut(s, c.Split)
	nfr := "fragmented"
	if len(frags) <= 1 {
		nfr = "unfragmented"
	}
	var read func() ([]byte, error, bool)
	var rx func() uint64
	var finish func()
	switch c.Kind {
	case "wt":
		cfg, _ := wtConfig(c.Cfg)
		t := twt.VerifNewFraming(cfg, wtSend{newMemStream(false)})
		rd := &fragReader{frags: frags}
		read = func() ([]byte, error, bool) { b, err := t.VerifDecodeFrom(rd); return b, err, false }
		rx = t.RxBytesCounterValue
		finish = func() {
			if b, err := t.VerifDecodeFrom(rd); err == nil {
				vs.add("extra-message:"+where, "a further message of %d bytes was decoded after all %d messages were read", len(b), len(c.Seq))
			} else if !errors.Is(err, io.EOF) {
				vs.add("extra-message:"+where, "decoding at the clean end of the stream: %v (want io.EOF)", err)
			}
		}
	default:
		recv := newMemStream(false)
		for _, f := range frags {
			recv.push(f)
		}
		recv.setFinal()
		conn := newFakeConn(newMemStream(false), recv)
		cfg, _ := quicConfig(c.Cfg, conn)
		t, err := tquic.New(cfg)
		if err != nil {
			vs.add("new-error:"+where, "quic.New: %v", err)
			return vs.list
		}
		read = func() ([]byte, error, bool) {
			return readTimeout(t.Read, recv.starved, func() { conn.CloseWithError(0, "c13: the whole stream has been delivered") })
		}
		rx = t.RxBytesCounterValue
		finish = func() {
			t.Close()
			b, err, hung := readTimeout(t.Read, nil, nil)
			if hung {
				vs.add("read-after-close-hang:"+where, "Read blocks after Close")
			} else if err == nil {
				vs.add("extra-message:"+where, "a further message of %d bytes was delivered after all %d messages were read", len(b), len(c.Seq))
			}
		}
	}
	ok := true
	for i, m := range c.Seq {
		got, err, hung := read()
		if hung {
			vs.add("peer-read-hang:"+where+"/"+nfr, "message %d (%s) of [%s], split %v of %d stream bytes: Read did not return", i, m, seqString(c.Seq), c.Split, len(s))
			ok = false
			break
		}
		if err != nil {
			vs.add("peer-read-error:"+where+"/"+nfr, "message %d (%s) of [%s], split %v of %d stream bytes: %v", i, m, seqString(c.Seq), c.Split, len(s), err)
			ok = false
			break
		}
		if !bytes.Equal(got, m.bytesOf()) {
			vs.add("peer-read-bytes:"+where+"/"+nfr, "message %d (%s) of [%s], split %v of %d stream bytes: %s", i, m, seqString(c.Seq), c.Split, len(s), diff(m.bytesOf(), got))
			ok = false
			break
		}
	}
	if ok {
		if r := rx(); r != uint64(len(s)) {
			vs.add("rx-counter:"+where, "RxBytesCounterValue=%d after reading all messages, stream bytes=%d ([%s])", r, len(s), seqString(c.Seq))
		}
	}
	finish()
	return vs.list
}

// ---------- the datagram case ----------

const maxDatagram = 1196 // documented: segment.maxDatagramFrameSize; 8 bytes header + payload

// refReassemble parses the datagrams: seq(4) maxIdx(2) idx(2) payload; message k uses sequence
// number k, segments in index order.
func refReassemble(dgrams [][]byte, nmsg int) ([][]byte, error) {
	var out [][]byte
	i := 0
	for k := 0; k < nmsg; k++ {
		var payload []byte
		for idx := 0; ; idx++ {
			if i >= len(dgrams) {
				return out, fmt.Errorf("message %d: datagrams end before the last segment", k)
			}
			d := dgrams[i]
			i++
			if len(d) < 8 {
				return out, fmt.Errorf("datagram %d shorter than the 8-byte header", i-1)
			}
			if len(d) > maxDatagram {
				return out, fmt.Errorf("datagram %d is %d bytes (> %d)", i-1, len(d), maxDatagram)
			}
			seq, maxIdx, sidx := binary.BigEndian.Uint32(d), int(binary.BigEndian.Uint16(d[4:])), int(binary.BigEndian.Uint16(d[6:]))
			if int(seq) != k {
				return out, fmt.Errorf("datagram %d carries sequence number %d, want %d", i-1, seq, k)
			}
			if sidx != idx {
				return out, fmt.Errorf("datagram %d carries segment index %d, want %d", i-1, sidx, idx)
			}
			payload = append(payload, d[8:]...)
			if idx == maxIdx {
				break
			}
		}
		out = append(out, payload)
	}
	if i != len(dgrams) {
		return out, fmt.Errorf("%d surplus datagrams", len(dgrams)-i)
	}
	return out, nil
}

func runDgram(c Case) []V {
	var vs vset
	where := streamWhere(c)
	w := writePhase(c, true)
	vs.list = append(vs.list, w.vs...)
	if w.failed {
		return vs.list
	}
	_, _, ref := c.Cfg.build()
	ref.Takeover = false
	var total uint64
	for _, d := range w.dgrams {
		total += uint64(len(d))
	}
	if len(w.stream) != 0 {
		vs.add("wire-decodable:"+where+"/stream-used", "unreliable writes put %d bytes on the stream", len(w.stream))
	}
	payloads, err := refReassemble(w.dgrams, len(c.Seq))
	if err != nil {
		vs.add("wire-decodable:"+where+"/segments", "[%s]: %v", seqString(c.Seq), err)
	} else {
		for i, p := range payloads {
			want := c.Seq[i].bytesOf()
			out, err := refDecodePayload(ref, p, len(want)+64)
			if err != nil {
				vs.add("wire-decodable:"+where+"/payload", "message %d (%s): reference decoder: %v", i, c.Seq[i], err)
				break
			}
			if !bytes.Equal(out, want) {
				vs.add("wire-decodable:"+where+"/payload", "message %d (%s): reference decoder output differs: %s", i, c.Seq[i], diff(want, out))
				break
			}
		}
	}
	if c.Kind == "quic-dgram" && w.tx != total {
		vs.add("tx-counter:"+where, "TxBytesCounterValue=%d, datagram bytes sent=%d ([%s])", w.tx, total, seqString(c.Seq))
	}
	// peer
	switch c.Kind {
	case "wt-dgram":
		cfg, _ := wtConfig(c.Cfg)
		t := twt.VerifNewFraming(cfg, wtSend{newMemStream(false)})
		k := 0
		for _, d := range w.dgrams {
			m, fin, err := t.VerifReceiveMessage(d)
			if err != nil {
				vs.add("peer-read-error:"+where, "receiveMessage: %v", err)
				return vs.list
			}
			if !fin {
				continue
			}
			if k >= len(c.Seq) {
				vs.add("extra-message:"+where, "more messages than were sent")
				return vs.list
			}
			if !bytes.Equal(m, c.Seq[k].bytesOf()) {
				vs.add("peer-read-bytes:"+where, "message %d (%s) of [%s]: %s", k, c.Seq[k], seqString(c.Seq), diff(c.Seq[k].bytesOf(), m))
				return vs.list
			}
			k++
		}
		if k != len(c.Seq) {
			vs.add("peer-read-error:"+where, "%d of %d messages were completed by in-order loss-free delivery", k, len(c.Seq))
		}
	default:
		conn := newFakeConn(newMemStream(false), newMemStream(false))
		cfg, _ := quicConfig(c.Cfg, conn)
		t, err := tquic.New(cfg)
		if err != nil {
			vs.add("new-error:"+where, "quic.New: %v", err)
			return vs.list
		}
		defer t.Close()
		feeder := newFakeConn(newMemStream(false), newMemStream(false))
		feeder.peer = conn
		for _, d := range w.dgrams {
			feeder.SendDatagram(d)
		}
		conn.setDgramFinal()
		var u transport.UnreliableTransport
		u, _ = t.AsUnreliable()
		for i, m := range c.Seq {
			got, err, hung := readTimeout(u.Read, conn.dgStarved, func() { conn.CloseWithError(0, "c13: all datagrams have been delivered") })
			if hung {
				vs.add("peer-read-hang:"+where, "message %d (%s) of [%s]: unreliable Read did not return", i, m, seqString(c.Seq))
				return vs.list
			}
			if err != nil {
				vs.add("peer-read-error:"+where, "message %d (%s) of [%s]: %v", i, m, seqString(c.Seq), err)
				return vs.list
			}
			if !bytes.Equal(got, m.bytesOf()) {
				vs.add("peer-read-bytes:"+where, "message %d (%s) of [%s]: %s", i, m, seqString(c.Seq), diff(m.bytesOf(), got))
				return vs.list
			}
		}
		if r := t.RxBytesCounterValue(); r != total {
			vs.add("rx-counter:"+where, "RxBytesCounterValue=%d, datagram bytes delivered=%d ([%s])", r, total, seqString(c.Seq))
		}
	}
	return vs.list
}

// ---------- groups of the stream families ----------

func streamGrid(thorough bool) []Cfg {
	levels, bits := []int{1, 6, 9}, []int{0, 15}
	if thorough {
		levels, bits = []int{1, 2, 3, 4, 5, 6, 7, 8, 9}, []int{0, 8, 15, 32}
	}
	out := []Cfg{{Mode: "off", Bits: 15}}
	for _, l := range levels {
		out = append(out, Cfg{Mode: "pm", Level: l, Bits: 15})
	}
	for _, l := range levels {
		for _, b := range bits {
			out = append(out, Cfg{Mode: "ct", Level: l, Bits: b})
		}
	}
	return out
}

func splitCfgs(thorough bool) []Cfg {
	out := []Cfg{{Mode: "off", Bits: 15}, {Mode: "pm", Level: 6, Bits: 15}, {Mode: "ct", Level: 6, Bits: 8}}
	if thorough {
		out = append(out, Cfg{Mode: "pm", Level: 1, Bits: 15}, Cfg{Mode: "pm", Level: 9, Bits: 15}, Cfg{Mode: "ct", Level: 1, Bits: 0}, Cfg{Mode: "ct", Level: 9, Bits: 32})
	}
	return out
}

// smallLetters: the alphabet of the exhaustive-split families.
func smallLetters(thorough bool) []Msg {
	contents := []int{0, 1}
	if thorough {
		contents = allContents
	}
	var out []Msg
	for _, n := range []int{0, 1, 2, 5} {
		for _, c := range contents {
			if n == 0 && c != 0 {
				continue
			}
			out = append(out, Msg{n, c})
		}
	}
	return out
}

var dgramSizes = []int{0, 1, 1187, 1188, 1189, 2376, 2377, 65535}

func dgramLetters() []Msg {
	var out []Msg
	for _, n := range dgramSizes {
		for c := 0; c < nContents; c++ {
			if n == 0 && c != 0 {
				continue
			}
			out = append(out, Msg{n, c})
		}
	}
	return out
}

func streamGroups(thorough bool) []Group {
	var gs []Group
	for _, kind := range []string{"quic", "wt"} {
		for _, cfg := range streamGrid(thorough) {
			gs = append(gs, Group{Fam: kind + "-seq", Cfg: cfg, Len: 1}, Group{Fam: kind + "-seq", Cfg: cfg, Len: 2})
			if thorough {
				for _, l := range lettersFor(cfg.Bits, allContents) {
					gs = append(gs, Group{Fam: kind + "-seq", Cfg: cfg, Len: 3, Prefix: []Msg{l}, Same: true})
				}
			}
			gs = append(gs, Group{Fam: kind + "-mib", Cfg: cfg, Len: 1})
			gs = append(gs, Group{Fam: kind + "-dgram", Cfg: cfg, Len: 1}, Group{Fam: kind + "-dgram", Cfg: cfg, Len: 2})
			if thorough {
				for _, l := range dgramLetters() {
					gs = append(gs, Group{Fam: kind + "-dgram", Cfg: cfg, Len: 3, Prefix: []Msg{l}, Same: true})
				}
			}
		}
		for _, cfg := range splitCfgs(thorough) {
			gs = append(gs, Group{Fam: kind + "-split", Cfg: cfg, Len: 1, Big: thorough}, Group{Fam: kind + "-split", Cfg: cfg, Len: 2, Big: thorough})
			for _, l := range smallLetters(thorough) {
				gs = append(gs, Group{Fam: kind + "-split", Cfg: cfg, Len: 3, Prefix: []Msg{l}, Big: thorough})
			}
		}
	}
	return gs
}

// structuralSplits: cut points at the places where the framing code changes state.
func structuralSplits(streamLen int, firstEnd int) [][]int {
	n := streamLen
	cand := [][]int{nil, {4}, {1, 4}, {3, n - 1}, {firstEnd}, {firstEnd, firstEnd + 2}, {firstEnd + 4, n - 1}, {5, firstEnd - 1}}
	var out [][]int
	seen := map[string]bool{}
	for _, s := range cand {
		var t []int
		for _, x := range s {
			if x > 0 && x < n && (len(t) == 0 || x > t[len(t)-1]) {
				t = append(t, x)
			}
		}
		k := fmt.Sprint(t)
		if !seen[k] {
			seen[k] = true
			out = append(out, t)
		}
	}
	return out
}

func (g Group) eachStream(yield func(Case) bool) {
	kind := g.Fam[:len(g.Fam)-len(famSuffix(g.Fam))-1]
	suffix := famSuffix(g.Fam)
	emitSplits := func(s []Msg, all bool) bool {
		// the stream length is a property of the library output: run the write phase once (memoised)
		base := Case{Kind: kind, Cfg: g.Cfg, Seq: s}
		w := safeWritePhase(base)
		n := len(w.stream)
		if w.failed || n == 0 {
			return yield(base)
		}
		if !all {
			first := n
			if _, ends, _ := refParseStream(w.stream); len(ends) > 0 {
				first = ends[0]
			}
			for _, sp := range structuralSplits(n, first) {
				c := base
				c.Split = sp
				if !yield(c) {
					return false
				}
			}
			return true
		}
		if !yield(base) {
			return false
		}
		for i := 1; i < n; i++ {
			for j := i; j < n; j++ {
				c := base
				if i == j {
					c.Split = []int{i}
				} else {
					c.Split = []int{i, j}
				}
				if !yield(c) {
					return false
				}
			}
		}
		return true
	}
	switch suffix {
	case "seq":
		seqs(lettersFor(g.Cfg.Bits, allContents), g.Len, g.Prefix, g.Same, func(s []Msg) bool { return emitSplits(s, false) })
	case "mib":
		for _, s := range mibSeqs(1) {
			if !emitSplits(s, false) {
				return
			}
		}
	case "split":
		seqs(smallLetters(g.Big), g.Len, g.Prefix, false, func(s []Msg) bool { return emitSplits(s, true) })
	case "dgram":
		seqs(dgramLetters(), g.Len, g.Prefix, g.Same, func(s []Msg) bool {
			return yield(Case{Kind: kind + "-dgram", Cfg: g.Cfg, Seq: s})
		})
	}
}

func famSuffix(f string) string {
	for i := len(f) - 1; i >= 0; i-- {
		if f[i] == '-' {
			return f[i+1:]
		}
	}
	return f
}
