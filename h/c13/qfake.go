package main

import (
	"context"
	"errors"
	"net"
	"sync"
	"time"

	quic "github.com/quic-go/quic-go"
)

// ---------- in-memory byte stream (one direction) ----------

// memStream is a unidirectional stream. The send side records every byte and every Write call;
// the receive side hands out the queued fragments one Read at a time: a Read never returns bytes
// of two fragments (short reads), and blocks when nothing is queued.
type memStream struct {
	mu      sync.Mutex
	cond    *sync.Cond
	frags   [][]byte
	written []byte
	writes  []int
	forward bool // Write also queues the bytes as a fragment for the reader
	err     error
	// final: no further fragment will ever be queued. A Read that finds the queue empty after final
	// closes starved (once): from then on the reader can make no progress, which the sequential harness
	// uses to tell "blocked forever" from "still working" without waiting for a long timeout.
	final   bool
	starved chan struct{}
}

func newMemStream(forward bool) *memStream {
	s := &memStream{forward: forward, starved: make(chan struct{})}
	s.cond = sync.NewCond(&s.mu)
	return s
}

func (s *memStream) setFinal() {
	s.mu.Lock()
	s.final = true
	s.mu.Unlock()
	s.cond.Broadcast()
}

func (s *memStream) markStarved() { // s.mu held
	if s.final {
		select {
		case <-s.starved:
		default:
			close(s.starved)
		}
	}
}

func (s *memStream) push(frag []byte) {
	if len(frag) == 0 {
		return
	}
	s.mu.Lock()
	s.frags = append(s.frags, frag)
	s.mu.Unlock()
	s.cond.Broadcast()
}

func (s *memStream) fail(err error) {
	s.mu.Lock()
	if s.err == nil {
		s.err = err
	}
	s.mu.Unlock()
	s.cond.Broadcast()
}

func (s *memStream) Write(p []byte) (int, error) {
	s.mu.Lock()
	if s.err != nil {
		defer s.mu.Unlock()
		return 0, s.err
	}
	s.written = append(s.written, p...)
	s.writes = append(s.writes, len(p))
	fw := s.forward
	s.mu.Unlock()
	if fw {
		s.push(append([]byte(nil), p...))
	}
	return len(p), nil
}

func (s *memStream) Read(p []byte) (int, error) {
	s.mu.Lock()
	defer s.mu.Unlock()
	if len(p) == 0 {
		return 0, s.err // like a real stream: an empty read does not wait for data
	}
	for len(s.frags) == 0 {
		if s.err != nil {
			return 0, s.err
		}
		s.markStarved()
		s.cond.Wait()
	}
	n := copy(p, s.frags[0])
	if n == len(s.frags[0]) {
		s.frags = s.frags[1:]
	} else {
		s.frags[0] = s.frags[0][n:]
	}
	return n, nil
}

type sendSide struct{ *memStream }

func (s sendSide) StreamID() quic.StreamID          { return 2 }
func (s sendSide) Close() error                     { return nil }
func (s sendSide) CancelWrite(quic.StreamErrorCode) {}
func (s sendSide) Context() context.Context         { return context.Background() }
func (s sendSide) SetWriteDeadline(time.Time) error { return nil }
func (s sendSide) Read([]byte) (int, error)         { return 0, errors.New("send side") }
func (s sendSide) Write(p []byte) (int, error)      { return s.memStream.Write(p) }

type recvSide struct{ *memStream }

func (s recvSide) StreamID() quic.StreamID         { return 3 }
func (s recvSide) CancelRead(quic.StreamErrorCode) {}
func (s recvSide) SetReadDeadline(time.Time) error { return nil }

// ---------- fake quic.Connection ----------

type fakeConn struct {
	mu        sync.Mutex
	cond      *sync.Cond
	send      *memStream // our outgoing uni stream
	recv      *memStream // the peer's uni stream
	accepted  bool
	dgramsIn  [][]byte
	dgFinal   bool          // no further datagram will be delivered
	dgStarved chan struct{} // closed when ReceiveDatagram finds the queue empty after dgFinal
	dgramOut  [][]byte      // record of everything sent
	peer      *fakeConn
	closed    error
	ctx       context.Context
	cancel    context.CancelFunc
}

var _ quic.Connection = (*fakeConn)(nil)

func newFakeConn(send, recv *memStream) *fakeConn {
	c := &fakeConn{send: send, recv: recv, dgStarved: make(chan struct{})}
	c.cond = sync.NewCond(&c.mu)
	c.ctx, c.cancel = context.WithCancel(context.Background())
	return c
}

func (c *fakeConn) waitClosed(ctx context.Context) error {
	select {
	case <-ctx.Done():
		return ctx.Err()
	case <-c.ctx.Done():
		c.mu.Lock()
		defer c.mu.Unlock()
		return c.closed
	}
}

func (c *fakeConn) AcceptStream(ctx context.Context) (quic.Stream, error) {
	return nil, c.waitClosed(ctx)
}

func (c *fakeConn) AcceptUniStream(ctx context.Context) (quic.ReceiveStream, error) {
	c.mu.Lock()
	if !c.accepted && c.closed == nil {
		c.accepted = true
		c.mu.Unlock()
		return recvSide{c.recv}, nil
	}
	c.mu.Unlock()
	return nil, c.waitClosed(ctx)
}

func (c *fakeConn) OpenStream() (quic.Stream, error) {
	return nil, errors.New("fake: no bidirectional streams")
}
func (c *fakeConn) OpenStreamSync(context.Context) (quic.Stream, error) {
	return nil, errors.New("fake: no bidirectional streams")
}
func (c *fakeConn) OpenUniStream() (quic.SendStream, error) { return sendSide{c.send}, nil }
func (c *fakeConn) OpenUniStreamSync(context.Context) (quic.SendStream, error) {
	return sendSide{c.send}, nil
}
func (c *fakeConn) LocalAddr() net.Addr  { return &net.UDPAddr{IP: net.IPv4(127, 0, 0, 1), Port: 1} }
func (c *fakeConn) RemoteAddr() net.Addr { return &net.UDPAddr{IP: net.IPv4(127, 0, 0, 1), Port: 2} }

func (c *fakeConn) CloseWithError(code quic.ApplicationErrorCode, msg string) error {
	c.mu.Lock()
	if c.closed == nil {
		c.closed = &quic.ApplicationError{ErrorCode: code, ErrorMessage: msg}
	}
	err := c.closed
	c.mu.Unlock()
	c.cancel()
	c.cond.Broadcast()
	c.recv.fail(err)
	c.send.fail(err)
	return nil
}

func (c *fakeConn) Context() context.Context              { return c.ctx }
func (c *fakeConn) ConnectionState() quic.ConnectionState { return quic.ConnectionState{} }

func (c *fakeConn) SendDatagram(p []byte) error {
	c.mu.Lock()
	if c.closed != nil {
		defer c.mu.Unlock()
		return c.closed
	}
	cp := append([]byte(nil), p...)
	c.dgramOut = append(c.dgramOut, cp)
	peer := c.peer
	c.mu.Unlock()
	if peer != nil {
		peer.mu.Lock()
		peer.dgramsIn = append(peer.dgramsIn, cp)
		peer.mu.Unlock()
		peer.cond.Broadcast()
	}
	return nil
}

func (c *fakeConn) setDgramFinal() {
	c.mu.Lock()
	c.dgFinal = true
	c.mu.Unlock()
	c.cond.Broadcast()
}

func (c *fakeConn) ReceiveDatagram(ctx context.Context) ([]byte, error) {
	// the callback takes the lock so that it cannot fire between the ctx.Err() check and cond.Wait()
	stop := context.AfterFunc(ctx, func() { c.mu.Lock(); c.mu.Unlock(); c.cond.Broadcast() })
	defer stop()
	c.mu.Lock()
	defer c.mu.Unlock()
	for len(c.dgramsIn) == 0 {
		if c.closed != nil {
			return nil, c.closed
		}
		if err := ctx.Err(); err != nil {
			return nil, err
		}
		if c.dgFinal {
			select {
			case <-c.dgStarved:
			default:
				close(c.dgStarved)
			}
		}
		c.cond.Wait()
	}
	d := c.dgramsIn[0]
	c.dgramsIn = c.dgramsIn[1:]
	return d, nil
}
