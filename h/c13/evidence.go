package main

var rule = "TODO"
var assumptions = []string{"TODO"}
var notCovered = []string{"TODO"}

func spaceDescription(thorough bool) map[string]any { return nil }

func runLoop(c Case) []V { return nil }
