package main

import "fmt"

var rule = "mode I (bounded-exhaustive enumeration, no scheduler, no sampling): every element of the explicitly generated space " +
	"{family} x {negotiated compression configuration} x {message sequence over the size x content alphabet} x {delivery variant} is executed on fresh " +
	"transports and judged by an independent reference: (a) peer Read returns the same messages byte for byte, in order, one per call, nothing extra; " +
	"(b) the recorded raw frames / stream bytes / datagrams are decoded by a reference implementation written from the framing " +
	"(WebSocket: one binary frame per message = the message, or one complete raw DEFLATE stream (RFC 1951 decoder written for this harness, strict about " +
	"back-references reaching before the window and about trailing bytes) per message, with, for context takeover, a preset dictionary = last 2^bits bytes of the " +
	"earlier messages of that direction; QUIC/WebTransport stream: 4-byte big-endian length + payload, payload = message or one dictionary-less DEFLATE stream; " +
	"datagrams: seq(4) maxIdx(2) idx(2) + <=1188 payload bytes, sequence numbers 0,1,2.., segments in order); " +
	"(c) Tx counter of the writer = Rx counter of the reader = bytes actually framed (checked after every WebSocket message, at the end for streams/datagrams). " +
	"WebSocket: websocket.New on an in-memory websocket.Conn pair (FIFO of frames, raw frames and message types recorded); both directions are exercised on the same pair " +
	"(duplex: step i sends seq[i] A->B and seq[n-1-i] B->A, so every sequence occurs in each direction; simplex: A->B only with three frame-reader delivery modes). " +
	"QUIC: quic.New on a fake quic.Connection (in-memory uni-streams and datagrams); WebTransport: Transport.Write/decodeFrom/receiveMessage driven through an " +
	"overlay-added in-package constructor on a fake send stream (a *webtransport.Session cannot be faked). Stream bytes are delivered to the reader in every split " +
	"into <=3 fragments for the small-message families (short reads: a Read never spans two fragments) and in the structural splits (inside/after the length prefix, " +
	"at and around the first frame end, before the last byte) for the large-message families. " +
	"Library panics are recovered per case; the enumeration runs in worker processes so that an unrecoverable panic in a library goroutine is reported, " +
	"not suffered; per-case watchdog. The in-memory websocket.Conn also records whether Transport.Read abandons a message reader before io.EOF (documented contract of the coder/nhooyr back-ends). " +
	"CONCURRENT WRITERS ARE NOT PART OF THIS CHECK (they are explored under the scheduler, mode S). " +
	"Non-deciding conformance extra (families loop-*): sequences of length <=2 are replayed sequentially over real loopback connections - the WebSocket back-end selected by build tag " +
	"(coder by default; -tags gorilla / nhooyr), a real QUIC connection and a real WebTransport session (webtransport.New itself) - checking only the peer-visible clauses; " +
	"network- or timing-dependent outcomes are counted as inconclusive, never as violations. " +
	"distinct_nontrivial = number of cases; all cases are distinct by construction (enumeration without repetition)."

var assumptions = []string{
	"the in-memory websocket.Conn honours the contract of the real back-ends used by Transport: Writer().Close() delivers exactly one message of the given type, Reader() returns the next whole message (it keeps doing so when the previous reader was not drained, and reports that breach separately instead of failing like coder/nhooyr, so that later messages are still checked); frames are never lost, duplicated or reordered",
	"the fake quic.Connection delivers stream bytes and datagrams loss-free and in order; datagram loss/reordering is the subject of C14",
	"the reference DEFLATE decoder and the reference framing were written from RFC 1951 and from the documented framing (compress.Config: WindowSize = 2^WindowBits; transport.go comments) independently of compress/flate",
	"the WebTransport constructor used here (inject/transport/webtransport/zz_verif_c13.go) copies the field initialisation and encode/decode selection of webtransport.New verbatim; webtransport.New itself needs a real session and runs only in the loop-wt conformance family",
	"message contents are three fixed deterministic patterns (zeros, period-7 text, a fixed xorshift32 byte stream); a message is a prefix of its pattern, so equal-content messages share prefixes and the dictionaries matter",
	"QUIC and WebTransport compress per message whatever takeover mode was negotiated (transport/quic/transport.go:83-90); the reference accepts exactly that",
}

var notCovered = []string{
	"concurrent writers (mode S harness)",
	"window-relative sizes for window bits 32 (W-1..2W+3 around 4 GiB are not representable); bits 32 is run with sizes {0,1,65535,65536,1 MiB}",
	"webtransport.New / the WebTransport reader goroutines in the deciding families (need a concrete *webtransport.Session; they run only in loop-wt) and WebTransport WriteUnreliable at all; the WebTransport datagram receive path is fed with datagrams produced by the QUIC transport",
	"raw-frame (wire) checks on real connections: the loopback families only see what the peer reads; only one WebSocket back-end per binary (the back-end packages panic when two are linked): run with -tags gorilla / -tags nhooyr for the others",
	"WebSocket loopback beyond the first message per direction in compressed modes on coder/nhooyr (blocked by the conn-reader-not-drained finding: the second Read fails)",
	"every split of streams longer than the small-message families (structural splits only)",
	"quick tier: length-3 WebSocket sequences for the stateless modes (off, per-message) only with one content per sequence; thorough tier: length-4 sequences only for context takeover and only with one content per sequence",
}

func spaceDescription(thorough bool) map[string]any {
	ws := wsGrid(thorough)
	st := streamGrid(thorough)
	sizes := map[string][]int{}
	for _, c := range ws {
		sizes[fmt.Sprintf("bits=%d", c.Bits)] = sizesFor(c.Bits)
	}
	m := map[string]any{
		"ws_configs":              len(ws),
		"ws_config_grid":          "off; {per-message, context-takeover} x level x window bits (see levels/bits)",
		"stream_configs":          len(st),
		"contents":                contentName,
		"sizes_per_window_bits":   sizes,
		"mib_letter":              "1 MiB x 3 contents: length 1 (quick), plus pairs with itself / 1 byte / 64 KiB of the same content (thorough, WebSocket)",
		"ws_sequence_lengths":     "quick: <=2 full alphabet all modes, 3 full alphabet for context takeover, 3 same-content for off/per-message; thorough: <=3 full alphabet all modes, 4 same-content for context takeover",
		"stream_sequence_lengths": "quick: <=2 full alphabet (structural splits), <=3 over sizes {0,1,2,5} x {zeros,text} (every split); thorough: + length 3 same-content (structural splits), small alphabet with 3 contents",
		"datagram_sizes":          dgramSizes,
		"loopback":                "loop-ws (back-end " + loopBackend + "): quick-tier WebSocket grid x sequences <=2 (quick: one content per sequence; thorough: full alphabet); loop-quic / loop-wt: quick-tier stream grid x same-content sequences <=2; duplex",
		"negotiation_variants":    []string{"level0 (clevel=0 means off)", "basebits (window bits from Config.CompressConfig)", "validated (clevel filled in by Validate)"},
	}
	if thorough {
		m["levels"], m["bits"] = []int{1, 2, 3, 4, 5, 6, 7, 8, 9}, []int{0, 1, 8, 9, 15, 16, 32}
	} else {
		m["levels"], m["bits"] = []int{1, 6, 9}, []int{0, 8, 15}
	}
	return m
}
