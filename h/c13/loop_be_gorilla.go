//go:build gorilla

package main

import (
	"net/http"

	"github.com/aptpod/iscp-go/transport/websocket"
	"github.com/aptpod/iscp-go/transport/websocket/gorilla"
	gws "github.com/gorilla/websocket"
)

const loopBackend = "gorilla"

func beDial(url string) (websocket.Conn, error) { return gorilla.Dial(url, nil) }

func beHandler(e *loopEnvT) http.HandlerFunc {
	up := gws.Upgrader{CheckOrigin: func(*http.Request) bool { return true }}
	return func(w http.ResponseWriter, r *http.Request) {
		c, err := up.Upgrade(w, r, nil)
		if err != nil {
			return
		}
		e.deliver(r.URL.Query().Get("id"), websocket.Conn(gorilla.New(c)))
	}
}
