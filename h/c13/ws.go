package main

import (
	"bytes"
	"context"
	"errors"
	"fmt"
	"io"
	"sync"

	"github.com/aptpod/iscp-go/transport"
	"github.com/aptpod/iscp-go/transport/websocket"
)

// ---------- in-memory websocket.Conn pair ----------

type wsFrame struct {
	typ  websocket.MessageType
	data []byte
}

// wsPipe is one direction: FIFO of whole frames plus a record of everything that was framed.
type wsPipe struct {
	mu          sync.Mutex
	q           []wsFrame
	all         []wsFrame
	openWriters int
	overlap     bool // a second Writer was requested before the previous one was closed
	// undrained counts messages whose reader was abandoned before it returned io.EOF. coder/nhooyr:
	// "Ensure you read to EOF otherwise the connection will hang" - with a message sent as several
	// frames (which is what Writer()+Close() of these back-ends produces) the next Reader() fails with
	// "previous message not read to completion". gorilla discards the rest silently.
	undrained int
	lastRd    *frameReader
}

type memConn struct {
	out, in *wsPipe
	rdMode  int
	closed  bool
}

func newMemPair(rdMode int) (*memConn, *memConn) {
	ab, ba := &wsPipe{}, &wsPipe{}
	return &memConn{out: ab, in: ba, rdMode: rdMode}, &memConn{out: ba, in: ab, rdMode: rdMode}
}

var errNoFrame = errors.New("memconn: no frame queued (the harness is sequential: a Read without a preceding frame would block forever)")

func (c *memConn) Close() error                                { c.closed = true; return nil }
func (c *memConn) CloseWithStatus(transport.CloseStatus) error { c.closed = true; return nil }
func (c *memConn) Ping(context.Context) error                  { return nil }

func (c *memConn) Reader(ctx context.Context) (websocket.MessageType, io.Reader, error) {
	c.in.mu.Lock()
	defer c.in.mu.Unlock()
	if len(c.in.q) == 0 {
		return 0, nil, errNoFrame
	}
	c.in.checkDrained()
	f := c.in.q[0]
	c.in.q = c.in.q[1:]
	c.in.lastRd = &frameReader{data: f.data, mode: c.rdMode}
	return f.typ, c.in.lastRd, nil
}

func (c *memConn) Writer(ctx context.Context, typ websocket.MessageType) (io.WriteCloser, error) {
	c.out.mu.Lock()
	defer c.out.mu.Unlock()
	if c.out.openWriters > 0 {
		c.out.overlap = true
	}
	c.out.openWriters++
	return &frameWriter{p: c.out, typ: typ}, nil
}

// checkDrained (p.mu held) accounts for the previous message reader.
func (p *wsPipe) checkDrained() {
	if p.lastRd != nil && !p.lastRd.eof {
		p.undrained++
	}
	p.lastRd = nil
}

type frameWriter struct {
	p      *wsPipe
	typ    websocket.MessageType
	buf    []byte
	closed bool
}

func (w *frameWriter) Write(b []byte) (int, error) {
	if w.closed {
		return 0, errors.New("memconn: write after close")
	}
	w.buf = append(w.buf, b...)
	return len(b), nil
}

func (w *frameWriter) Close() error {
	if w.closed {
		return nil
	}
	w.closed = true
	w.p.mu.Lock()
	defer w.p.mu.Unlock()
	w.p.openWriters--
	f := wsFrame{w.typ, w.buf}
	w.p.q = append(w.p.q, f)
	w.p.all = append(w.p.all, f)
	return nil
}

// frameReader delivers one frame. mode 0: as much as fits, then (0, EOF); mode 1: at most 1000
// bytes per call, the last chunk together with EOF; mode 2: one byte, then at most 4097 per call.
type frameReader struct {
	data  []byte
	mode  int
	calls int
	eof   bool // io.EOF has been returned to the caller
}

func (r *frameReader) Read(p []byte) (int, error) {
	r.calls++
	if len(r.data) == 0 {
		r.eof = true
		return 0, io.EOF
	}
	max := len(p)
	switch r.mode {
	case 1:
		if max > 1000 {
			max = 1000
		}
	case 2:
		if r.calls == 1 {
			max = 1
		} else if max > 4097 {
			max = 4097
		}
	}
	if max > len(r.data) {
		max = len(r.data)
	}
	n := copy(p[:max], r.data)
	r.data = r.data[n:]
	if r.mode == 1 && len(r.data) == 0 {
		r.eof = true
		return n, io.EOF
	}
	return n, nil
}

// ---------- the WebSocket case ----------

type wsOp struct {
	ab  bool // true: A writes, B reads
	msg Msg
}

func wsOps(seq []Msg, dir string) []wsOp {
	var ops []wsOp
	for i := range seq {
		ops = append(ops, wsOp{true, seq[i]})
		if dir == "duplex" {
			ops = append(ops, wsOp{false, seq[len(seq)-1-i]})
		}
	}
	return ops
}

func histTag(ref refMode, idx int, prior int) string {
	t := "first-msg"
	if idx > 0 {
		t = "later-msg"
	}
	if ref.Takeover && idx > 0 {
		if prior > ref.Window {
			t += "/history>window"
		} else {
			t += "/history<=window"
		}
	}
	return t
}

// runWS runs one case on a fresh transport pair and checks every clause.
func runWS(c Case) []V {
	var vs vset
	np, bc, ref := c.Cfg.build()
	where := "ws/" + c.Cfg.Mode
	if c.Cfg.Neg != "" {
		where += "(" + c.Cfg.Neg + ")"
	}
	connA, connB := newMemPair(c.Rd)
	tA := websocket.New(websocket.Config{Conn: connA, CompressConfig: bc, NegotiationParams: websocket.NegotiationParams{NegotiationParams: np}})
	tB := websocket.New(websocket.Config{Conn: connB, CompressConfig: bc, NegotiationParams: websocket.NegotiationParams{NegotiationParams: np}})
	defer tA.Close()
	defer tB.Close()

	type dirState struct {
		pipe   *wsPipe
		sent   []Msg
		prior  int    // bytes of earlier messages in this direction
		dict   []byte // reference window of this direction
		name   string
		w, r   *websocket.Transport
		framed uint64
	}
	ab := &dirState{pipe: connA.out, name: "A->B", w: tA, r: tB}
	ba := &dirState{pipe: connB.out, name: "B->A", w: tB, r: tA}

	for step, op := range wsOps(c.Seq, c.Dir) {
		d := ab
		if !op.ab {
			d = ba
		}
		m := op.msg.bytesOf()
		idx := len(d.sent)
		tag := histTag(ref, idx, d.prior)
		before := len(d.pipe.all)
		if err := d.w.Write(m); err != nil {
			vs.add("write-error:"+where+"/"+tag, "step %d %s message %s: Write: %v", step, d.name, op.msg, err)
			return vs.list
		}
		if n := len(d.pipe.all) - before; n != 1 {
			vs.add("one-frame-per-message:"+where, "step %d %s message %s: Write produced %d frames", step, d.name, op.msg, n)
			return vs.list
		}
		if d.pipe.all[before].typ != websocket.MessageBinary {
			vs.add("binary-frame:"+where, "step %d %s: frame type %d", step, d.name, d.pipe.all[before].typ)
		}
		d.framed += uint64(len(d.pipe.all[before].data))
		got, err := d.r.Read()
		if err != nil {
			vs.add("peer-read-error:"+where+"/"+tag, "step %d %s message %s (index %d in its direction, %d bytes sent before it): Read: %v", step, d.name, op.msg, idx, d.prior, err)
			break
		}
		if !bytes.Equal(got, m) {
			w := where
			if dictPrepended(d.dict, m, got) {
				w, tag = "ws/"+c.Cfg.Mode, "dictionary-prepended-to-message"
			}
			vs.add("peer-read-bytes:"+w+"/"+tag, "step %d %s message %s (index %d in its direction, %d bytes sent before it): %s", step, d.name, op.msg, idx, d.prior, diff(m, got))
			break
		}
		d.sent = append(d.sent, op.msg)
		d.prior += len(m)
		if ref.Takeover {
			d.dict = trimWindow(d.dict, m, ref.Window)
		}
		// counters after every message: Tx of the writer and Rx of the reader equal the framed bytes
		if tx := d.w.TxBytesCounterValue(); tx != d.framed {
			vs.add("tx-counter:"+where, "step %d %s message %s: writer TxBytesCounterValue=%d, bytes framed so far=%d", step, d.name, op.msg, tx, d.framed)
		}
		if rx := d.r.RxBytesCounterValue(); rx != d.framed {
			vs.add("rx-counter:"+where, "step %d %s message %s: reader RxBytesCounterValue=%d, bytes framed so far=%d", step, d.name, op.msg, rx, d.framed)
		}
	}
	for _, d := range []*dirState{ab, ba} {
		if len(d.pipe.q) != 0 {
			vs.add("one-frame-per-message:"+where, "%s: %d frames left unread after one Read per Write", d.name, len(d.pipe.q))
		}
		if d.pipe.overlap {
			vs.add("writer-contract:"+where, "%s: a second frame writer was opened before the previous one was closed", d.name)
		}
		d.pipe.mu.Lock()
		d.pipe.checkDrained()
		un := d.pipe.undrained
		d.pipe.mu.Unlock()
		if un > 0 {
			vs.add("conn-reader-not-drained:ws/"+c.Cfg.Mode, "%s: Transport.Read returned for %d of %d messages without reading the websocket message reader to io.EOF (coder/nhooyr contract: \"read to EOF otherwise the connection will hang\"; with a message sent in several frames their next Reader() fails with \"previous message not read to completion\")", d.name, un, len(d.pipe.all))
		}
	}
	// independent decoding of everything that was framed (also when the peer failed: the wire is judged on its own)
	for _, d := range []*dirState{ab, ba} {
		var msgs []Msg
		for _, op := range wsOps(c.Seq, c.Dir) {
			if op.ab == (d == ab) {
				msgs = append(msgs, op.msg)
			}
		}
		refDecodeFrames(&vs, where, d.name, ref, d.pipe.all, msgs)
	}
	return vs.list
}

// refDecodeFrames decodes the recorded frames of one direction with the reference decoder:
// off: the frame is the message; per-message: the frame is one complete raw DEFLATE stream of the
// message; context takeover: the same with a preset dictionary = the last Window bytes of all
// earlier messages of that direction.
func refDecodeFrames(vs *vset, where, dirName string, ref refMode, frames []wsFrame, msgs []Msg) {
	var dict []byte
	prior := 0
	for i, f := range frames {
		if i >= len(msgs) {
			break
		}
		want := msgs[i].bytesOf()
		tag := histTag(ref, i, prior)
		if !ref.Compressed {
			if !bytes.Equal(f.data, want) {
				vs.add("wire-decodable:"+where+"/"+tag, "%s frame %d (message %s): uncompressed frame differs from the message: %s", dirName, i, msgs[i], diff(want, f.data))
				return
			}
		} else {
			out, used, err := refInflate(f.data, dict, len(want)+64)
			switch {
			case err != nil:
				vs.add("wire-decodable:"+where+"/"+tag, "%s frame %d (message %s, %d frame bytes, dictionary %d bytes): reference decoder: %v", dirName, i, msgs[i], len(f.data), len(dict), err)
				return
			case !bytes.Equal(out, want):
				w := where
				if dictPrepended(dict, want, out) {
					w, tag = "ws/ct", "dictionary-prepended-to-message"
				}
				vs.add("wire-decodable:"+w+"/"+tag, "%s frame %d (message %s, dictionary %d bytes): reference decoder output differs: %s", dirName, i, msgs[i], len(dict), diff(want, out))
				return
			case used != len(f.data):
				vs.add("wire-exact-frame:"+where, "%s frame %d (message %s): DEFLATE stream uses %d of %d frame bytes", dirName, i, msgs[i], used, len(f.data))
			}
			if ref.Takeover {
				dict = trimWindow(dict, want, ref.Window)
			}
		}
		prior += len(want)
	}
}

// dictPrepended recognises one specific corruption: the decoded message is the (at most 32 KiB of
// the) dictionary followed by the message, i.e. the compressor emitted its preset dictionary as data.
func dictPrepended(dict, want, got []byte) bool {
	if len(dict) > 32768 {
		dict = dict[len(dict)-32768:]
	}
	return len(dict) > 0 && len(got) == len(dict)+len(want) && bytes.Equal(got[:len(dict)], dict) && bytes.Equal(got[len(dict):], want)
}

var _ = fmt.Sprint
