package main

// Loopback conformance runs (NOT the deciding step): the enumerated sequences are replayed,
// sequentially, over real connections on 127.0.0.1 - the WebSocket back-end selected by build tag
// (coder by default, -tags gorilla / nhooyr; dialled with the library's own Dial function), a real QUIC connection and a real
// WebTransport session (the only place where webtransport.New itself runs). There is no access to
// the raw frames here, so only the peer-visible clauses are checked: same bytes, same order, one
// message per Read, writer Tx == reader Rx. Anything that depends on the network or on timing
// (dial failures, timeouts, read errors) is counted as "inconclusive" and never as a violation.

import (
	"bytes"
	"context"
	"crypto/tls"
	"fmt"
	"net"
	"net/http"
	"strings"
	"sync"
	"time"

	"github.com/aptpod/iscp-go/internal/testdata"
	tquic "github.com/aptpod/iscp-go/transport/quic"
	"github.com/aptpod/iscp-go/transport/websocket"
	twt "github.com/aptpod/iscp-go/transport/webtransport"
	quicgo "github.com/quic-go/quic-go"
	"github.com/quic-go/quic-go/http3"
	webtransgo "github.com/quic-go/webtransport-go"
)

const inconclusive = "C13.~inconclusive:"

type handoff struct {
	conn any
	done chan struct{}
}

type loopEnvT struct {
	once     sync.Once
	err      error
	wsAddr   string
	quicAddr string
	wtAddr   string
	mu       sync.Mutex
	pending  map[string]chan handoff
	next     int
	quicConn chan quicgo.Connection
}

var loopEnv loopEnvT

func (e *loopEnvT) register() (string, chan handoff) {
	e.mu.Lock()
	defer e.mu.Unlock()
	e.next++
	id := fmt.Sprint(e.next)
	ch := make(chan handoff, 1)
	e.pending[id] = ch
	return id, ch
}

func (e *loopEnvT) deliver(id string, conn any) {
	e.mu.Lock()
	ch := e.pending[id]
	delete(e.pending, id)
	e.mu.Unlock()
	if ch == nil {
		return
	}
	h := handoff{conn: conn, done: make(chan struct{})}
	ch <- h
	select {
	case <-h.done:
	case <-time.After(5 * time.Minute):
	}
}

func (e *loopEnvT) start() {
	e.pending = map[string]chan handoff{}
	// --- WebSocket: one HTTP server, one path per back-end
	mux := http.NewServeMux()
	mux.HandleFunc("/ws", beHandler(e))
	lis, err := net.Listen("tcp", "127.0.0.1:0")
	if err != nil {
		e.err = err
		return
	}
	e.wsAddr = lis.Addr().String()
	go http.Serve(lis, mux)

	// --- QUIC
	tlsq := testdata.GetTLSConfig()
	tlsq.NextProtos = []string{"iscp"}
	ql, err := quicgo.ListenAddr("localhost:0", tlsq, &quicgo.Config{EnableDatagrams: true})
	if err != nil {
		e.err = err
		return
	}
	_, port, _ := net.SplitHostPort(ql.Addr().String())
	e.quicAddr = "localhost:" + port
	e.quicConn = make(chan quicgo.Connection, 16)
	go func() {
		for {
			c, err := ql.Accept(context.Background())
			if err != nil {
				return
			}
			e.quicConn <- c
		}
	}()

	// --- WebTransport
	sv := &webtransgo.Server{
		CheckOrigin: func(*http.Request) bool { return true },
		H3:          http3.Server{TLSConfig: testdata.GetTLSConfig(), QUICConfig: &quicgo.Config{EnableDatagrams: true}},
	}
	wmux := http.NewServeMux()
	wmux.HandleFunc("/c13", func(w http.ResponseWriter, r *http.Request) {
		s, err := sv.Upgrade(w, r)
		if err != nil {
			http.Error(w, "upgrade failed", 500)
			return
		}
		e.deliver(r.URL.Query().Get("id"), s)
	})
	sv.H3.Handler = wmux
	udp, err := net.ListenUDP("udp", &net.UDPAddr{IP: net.IPv4(127, 0, 0, 1)})
	if err != nil {
		e.err = err
		return
	}
	_, port, _ = net.SplitHostPort(udp.LocalAddr().String())
	e.wtAddr = "localhost:" + port
	go sv.Serve(udp)
}

// rw is what the loopback exchange needs of a transport.
type rw interface {
	Read() ([]byte, error)
	Write([]byte) error
	TxBytesCounterValue() uint64
	RxBytesCounterValue() uint64
	Close() error
}

func runLoop(c Case) []V {
	var vs vset
	inc := func(format string, a ...any) []V {
		return []V{{inconclusive + strings.TrimSuffix(c.Kind+"-"+c.Backend, "-"), fmt.Sprintf(format, a...)}}
	}
	loopEnv.once.Do(loopEnv.start)
	if loopEnv.err != nil {
		return inc("loopback servers could not be started: %v", loopEnv.err)
	}
	np, bc, ref := c.Cfg.build()
	var a, b rw
	var release func()
	wait := func(ch chan handoff) (handoff, bool) {
		select {
		case h := <-ch:
			return h, true
		case <-time.After(15 * time.Second):
			return handoff{}, false
		}
	}
	ctx, cancel := context.WithTimeout(context.Background(), 15*time.Second)
	defer cancel()
	switch c.Kind {
	case "loop-ws":
		id, ch := loopEnv.register()
		if c.Backend != loopBackend {
			return inc("this binary was built for the %s back-end (build tag)", loopBackend)
		}
		cc, err := beDial(fmt.Sprintf("ws://%s/ws?id=%s", loopEnv.wsAddr, id))
		if err != nil {
			return inc("dial: %v", err)
		}
		h, ok := wait(ch)
		if !ok {
			cc.Close()
			return inc("server side of the connection did not arrive")
		}
		release = func() { close(h.done) }
		nps := websocket.NegotiationParams{NegotiationParams: np}
		a = websocket.New(websocket.Config{Conn: cc, CompressConfig: bc, NegotiationParams: nps})
		b = websocket.New(websocket.Config{Conn: h.conn.(websocket.Conn), CompressConfig: bc, NegotiationParams: nps})
	case "loop-quic":
		tlsc := &tls.Config{RootCAs: testdata.GetRootCA(), NextProtos: []string{"iscp"}}
		cc, err := quicgo.DialAddr(ctx, loopEnv.quicAddr, tlsc, &quicgo.Config{EnableDatagrams: true})
		if err != nil {
			return inc("dial: %v", err)
		}
		var sc quicgo.Connection
		select {
		case sc = <-loopEnv.quicConn:
		case <-time.After(15 * time.Second):
			cc.CloseWithError(0, "")
			return inc("server side of the connection did not arrive")
		}
		release = func() {}
		nps := tquic.NegotiationParams{NegotiationParams: np}
		ta, err := tquic.New(tquic.Config{Connection: cc, CompressConfig: bc, NegotiationParams: nps})
		if err != nil {
			return inc("quic.New (client): %v", err)
		}
		tb, err := tquic.New(tquic.Config{Connection: sc, CompressConfig: bc, NegotiationParams: nps})
		if err != nil {
			ta.Close()
			return inc("quic.New (server): %v", err)
		}
		a, b = ta, tb
	case "loop-wt":
		id, ch := loopEnv.register()
		d := &webtransgo.Dialer{TLSClientConfig: &tls.Config{RootCAs: testdata.GetRootCA()}, QUICConfig: &quicgo.Config{EnableDatagrams: true}}
		_, cs, err := d.Dial(ctx, fmt.Sprintf("https://%s/c13?id=%s", loopEnv.wtAddr, id), nil)
		if err != nil {
			return inc("dial: %v", err)
		}
		h, ok := wait(ch)
		if !ok {
			cs.CloseWithError(0, "")
			return inc("server side of the session did not arrive")
		}
		release = func() { close(h.done); d.Close() }
		nps := twt.NegotiationParams{NegotiationParams: np}
		ta, err := twt.New(twt.Config{Connection: cs, CompressConfig: bc, NegotiationParams: nps})
		if err != nil {
			release()
			return inc("webtransport.New (client): %v", err)
		}
		tb, err := twt.New(twt.Config{Connection: h.conn.(*webtransgo.Session), CompressConfig: bc, NegotiationParams: nps})
		if err != nil {
			ta.Close()
			release()
			return inc("webtransport.New (server): %v", err)
		}
		a, b = ta, tb
	default:
		return inc("unknown kind")
	}
	defer func() {
		// both ends close at the same time: a WebSocket close handshake waits for the peer's close frame
		cd := make(chan struct{}, 2)
		go func() { a.Close(); cd <- struct{}{} }()
		go func() { b.Close(); cd <- struct{}{} }()
		t := time.NewTimer(3 * time.Second)
		defer t.Stop()
		for i := 0; i < 2; i++ {
			select {
			case <-cd:
			case <-t.C:
			}
		}
		release()
	}()
	if c.Kind != "loop-ws" {
		ref.Takeover = false
	}
	where := c.Kind + "/" + c.Cfg.Mode
	if c.Backend != "" {
		where = c.Kind + "-" + c.Backend + "/" + c.Cfg.Mode
	}
	var dictAB, dictBA []byte
	var sumAB, sumBA, nAB, nBA uint64
	for step, op := range wsOps(c.Seq, "duplex") {
		w, r, dict := a, b, &dictAB
		if !op.ab {
			w, r, dict = b, a, &dictBA
		}
		m := op.msg.bytesOf()
		werr := make(chan error, 1)
		go func() { werr <- w.Write(m) }()
		got, err, hung := readTimeout(r.Read, nil, nil)
		if hung {
			return append(vs.list, inc("step %d message %s: Read did not return within the timeout", step, op.msg)...)
		}
		if err != nil {
			if strings.Contains(err.Error(), "previous message not read to completion") {
				// deterministic consequence of the reader contract breach that the in-memory Conn reports under the same signature
				vs.add("conn-reader-not-drained:ws/"+c.Cfg.Mode, "loopback %s, step %d message %s of [%s]: Read: %v", where, step, op.msg, seqString(c.Seq), err)
				return vs.list
			}
			if strings.Contains(err.Error(), "read limited at") {
				// deterministic: the back-end's default read limit (32 KiB) was not lifted by the library's dialer
				vs.add("read-limit:"+strings.TrimSuffix(c.Kind+"-"+c.Backend, "-"), "loopback %s, step %d message %s of [%s]: Read: %v", where, step, op.msg, seqString(c.Seq), err)
				return vs.list
			}
			return append(vs.list, inc("step %d message %s: Read: %v", step, op.msg, err)...)
		}
		select {
		case err := <-werr:
			if err != nil {
				return append(vs.list, inc("step %d message %s: Write: %v", step, op.msg, err)...)
			}
		case <-time.After(15 * time.Second):
			return append(vs.list, inc("step %d message %s: Write did not return", step, op.msg)...)
		}
		if !bytes.Equal(got, m) {
			if dictPrepended(*dict, m, got) {
				vs.add("peer-read-bytes:ws/ct/dictionary-prepended-to-message", "loopback %s step %d message %s: %s", where, step, op.msg, diff(m, got))
			} else {
				vs.add("loopback.peer-read-bytes:"+where, "step %d message %s of [%s]: %s", step, op.msg, seqString(c.Seq), diff(m, got))
			}
			return vs.list
		}
		if ref.Takeover {
			*dict = trimWindow(*dict, m, ref.Window)
		}
		if op.ab {
			sumAB += uint64(len(m))
			nAB++
		} else {
			sumBA += uint64(len(m))
			nBA++
		}
	}
	// writer Tx == reader Rx; without compression both equal the framed size known from the framing
	check := func(name string, w, r rw, sum, n uint64) {
		tx, rx := w.TxBytesCounterValue(), r.RxBytesCounterValue()
		if tx != rx {
			vs.add("loopback.tx-rx-counters:"+where, "%s: writer Tx=%d, reader Rx=%d ([%s])", name, tx, rx, seqString(c.Seq))
		}
		if !ref.Compressed {
			want := sum
			if c.Kind != "loop-ws" {
				want += 4 * n
			}
			if tx != want {
				vs.add("loopback.tx-counter:"+where, "%s: writer Tx=%d, framed bytes=%d ([%s])", name, tx, want, seqString(c.Seq))
			}
		}
	}
	check("A->B", a, b, sumAB, nAB)
	check("B->A", b, a, sumBA, nBA)
	return vs.list
}

func loopGroups(thorough bool) []Group {
	var gs []Group
	for _, cfg := range wsGrid(false) {
		gs = append(gs, Group{Fam: "loop-ws", Cfg: cfg, Len: 2, Backend: loopBackend, Same: !thorough})
	}
	for _, kind := range []string{"loop-quic", "loop-wt"} {
		for _, cfg := range streamGrid(false) {
			gs = append(gs, Group{Fam: kind, Cfg: cfg, Len: 2, Same: true})
		}
	}
	return gs
}

// loopGroupBudget bounds the wall time of one loopback group: these runs are a conformance extra and
// must not endanger the time limit of the tier. Cases not reached are reported as inconclusive.
const loopGroupBudget = 40 * time.Second

func (g Group) eachLoop(yield func(Case) bool) {
	letters := lettersFor(g.Cfg.Bits, allContents)
	deadline := time.Now().Add(loopGroupBudget)
	for n := 1; n <= g.Len; n++ {
		ok := true
		seqs(letters, n, nil, g.Same, func(s []Msg) bool {
			c := Case{Kind: g.Fam, Cfg: g.Cfg, Seq: s, Backend: g.Backend}
			if time.Now().After(deadline) {
				c.Kind = "loop-skip"
			}
			ok = yield(c)
			return ok
		})
		if !ok {
			return
		}
	}
}

var _ = strings.TrimSpace
