//go:build !gorilla && !nhooyr

package main

import (
	"net/http"

	"github.com/aptpod/iscp-go/transport/websocket"
	"github.com/aptpod/iscp-go/transport/websocket/coder"
	cws "github.com/coder/websocket"
)

// The three back-end packages each register a dial function in init() and the registry panics on a
// second registration, so one binary can hold only one of them (selected by build tag, like the library).
const loopBackend = "coder"

func beDial(url string) (websocket.Conn, error) { return coder.Dial(url, nil) }

func beHandler(e *loopEnvT) http.HandlerFunc {
	return func(w http.ResponseWriter, r *http.Request) {
		c, err := cws.Accept(w, r, &cws.AcceptOptions{InsecureSkipVerify: true, CompressionMode: cws.CompressionNoContextTakeover})
		if err != nil {
			return
		}
		c.SetReadLimit(-1)
		e.deliver(r.URL.Query().Get("id"), websocket.Conn(coder.New(c)))
	}
}
