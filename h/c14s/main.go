// c14s: the expiry clause of C14 on the real QUIC transport under the scheduler (mode S part of C14).
// A fake quic.Connection written against the scheduler feeds datagrams at chosen virtual times; the
// transport's own goroutines (datagram reader, expiry sweep on its ticker) run under the controlled
// scheduler and the virtual clock. Oracle: a reference reassembler with the documented expiry.
package main

import (
	"bytes"
	"context"
	"encoding/binary"
	"errors"
	"fmt"
	"strings"
	"time"

	"github.com/aptpod/iscp-go/internal/vh/lib"
	"github.com/aptpod/iscp-go/internal/vsched"
	tquic "github.com/aptpod/iscp-go/transport/quic"
	quic "github.com/quic-go/quic-go"
)

const (
	expiry = 10 * time.Second // the transport's default
	sweep  = time.Second      // clearReadBufferInterval
)

type params struct {
	Uptime time.Duration // connection age when the first (incomplete) message arrives
	Gap    time.Duration // time between the segment of the incomplete message and the later segment with the same sequence number
	Shape  string        // stale: seg 0/2 of seq 7, later seg 1/2 of a new seq 7 | slow: the same message, second segment late | two: two incomplete messages at different times
	P      int
}

func (p params) name() string {
	return fmt.Sprintf("%s/up%v/gap%v/P%d", p.Shape, p.Uptime, p.Gap, p.P)
}

func scenarios(tier string) []vlib.Scenario {
	var out []vlib.Scenario
	ups := []time.Duration{0, 2500 * time.Millisecond}
	gaps := []time.Duration{500 * time.Millisecond, 9 * time.Second, expiry + 2*sweep + 100*time.Millisecond, 3 * expiry}
	pb := 1
	if tier == "thorough" {
		ups = append(ups, 900*time.Millisecond, 12*time.Second, 31*time.Second)
		gaps = append(gaps, 5*time.Second, expiry+2*sweep+time.Millisecond, 10*expiry)
		pb = 2
	}
	for _, sh := range []string{"stale", "slow", "two"} {
		for _, u := range ups {
			for _, g := range gaps {
				p := params{Uptime: u, Gap: g, Shape: sh, P: pb}
				out = append(out, vlib.Scenario{Name: p.name(), P: p})
			}
		}
	}
	return out
}

func config(sc vlib.Scenario, tier string) vsched.Config {
	p := sc.P.(params)
	cfg := vsched.Config{Preempt: 1, Switch: 1, SelCase: 1, Stall: 1, Timer: -1, Horizon: 600 * time.Second, MaxSteps: 200000}
	cfg.Budget[vsched.BudP] = p.P
	cfg.Scope = func(site string) bool {
		return strings.HasPrefix(site, "transport/quic.") || strings.HasPrefix(site, "internal/segment.") || strings.HasPrefix(site, "h:")
	}
	return cfg
}

// ---- fake quic.Connection on the scheduler

type fakeSendStream struct{ quic.SendStream }

type fakeConn struct {
	quic.Connection
	rx     [][]byte
	closed bool
}

var errFakeClosed = errors.New("verif: fake connection closed")

func (f *fakeConn) OpenUniStream() (quic.SendStream, error) { return fakeSendStream{}, nil }
func (f *fakeConn) AcceptUniStream(ctx context.Context) (quic.ReceiveStream, error) {
	vsched.WaitUntil("conn-accept", func() bool { return f.closed || ctx.Err() != nil })
	if ctx.Err() != nil {
		return nil, ctx.Err()
	}
	return nil, errFakeClosed
}
func (f *fakeConn) CloseWithError(quic.ApplicationErrorCode, string) error {
	f.closed = true
	return nil
}
func (f *fakeConn) SendDatagram(b []byte) error { return nil }
func (f *fakeConn) ReceiveDatagram(ctx context.Context) ([]byte, error) {
	vsched.WaitUntil("conn-datagram", func() bool { return len(f.rx) > 0 || f.closed || ctx.Err() != nil })
	if len(f.rx) > 0 {
		b := f.rx[0]
		f.rx = f.rx[1:]
		return b, nil
	}
	if ctx.Err() != nil {
		return nil, ctx.Err()
	}
	return nil, errFakeClosed
}

func dgram(seq uint32, max, idx uint16, payload string) []byte {
	b := make([]byte, 8, 8+len(payload))
	binary.BigEndian.PutUint32(b[0:4], seq)
	binary.BigEndian.PutUint16(b[4:6], max)
	binary.BigEndian.PutUint16(b[6:8], idx)
	return append(b, payload...)
}

// ---- reference: reassembly with expiry. A buffer that has seen no segment for `expiry` may be forgotten
// from then on and must be forgotten once a further sweep interval (plus the tick in progress) has passed.
type refBuf struct {
	segs [][]byte
	n    int
	last time.Duration
}

type world struct {
	p        params
	got      [][]byte
	rerr     error
	must     [][]byte // messages that have to be handed up, in order
	may      [][]byte // messages that may additionally be handed up (expiry window)
	phase    string
	tnew     error
}

var sentinel = []byte("\x00END\x00")

func (w *world) main() {
	conn := &fakeConn{}
	t, err := tquic.New(tquic.Config{Connection: conn})
	if err != nil {
		w.tnew = err
		return
	}
	un, _ := t.AsUnreliable()
	done := false
	vsched.Go("h:reader", func() {
		for {
			m, err := un.Read()
			if err != nil {
				w.rerr = err
				done = true
				return
			}
			if bytes.Equal(m, sentinel) {
				done = true
				return
			}
			w.got = append(w.got, m)
		}
	})
	push := func(d []byte) { conn.rx = append(conn.rx, d) }
	if w.p.Uptime > 0 {
		vsched.Sleep(w.p.Uptime, "h:uptime")
	}
	certainlyForgotten := w.p.Gap >= expiry+2*sweep
	certainlyKept := w.p.Gap < expiry
	switch w.p.Shape {
	case "stale":
		// an incomplete message (segment 0 of 2), later segment 1 of 2 of ANOTHER message that reuses the number
		push(dgram(7, 1, 0, "OLD-OLD-"))
		vsched.Sleep(w.p.Gap, "h:gap")
		push(dgram(7, 1, 1, "new-tail"))
		switch {
		case certainlyForgotten: // nothing may be handed up
		case certainlyKept:
			w.must = append(w.must, []byte("OLD-OLD-new-tail")) // indistinguishable from a slow segment: completes
		default:
			w.may = append(w.may, []byte("OLD-OLD-new-tail"))
		}
	case "slow":
		// one message whose second segment is late, then the complete message again under the same number
		push(dgram(7, 1, 1, "-tail"))
		vsched.Sleep(w.p.Gap, "h:gap")
		push(dgram(7, 1, 0, "head"))
		switch {
		case certainlyForgotten:
			// forgotten: the late head opens a fresh buffer; a fresh tail completes it
			push(dgram(7, 1, 1, "-TAIL2"))
			w.must = append(w.must, []byte("head-TAIL2"))
		case certainlyKept:
			w.must = append(w.must, []byte("head-tail"))
		default:
			push(dgram(7, 1, 1, "-TAIL2"))
			// kept: head-tail completes and -TAIL2 opens a new incomplete buffer; forgotten: head-TAIL2
			w.may = append(w.may, []byte("head-tail"), []byte("head-TAIL2"))
		}
	case "two":
		// two incomplete messages, the second one refreshed half-way: only the first may be forgotten at Gap
		push(dgram(7, 1, 0, "A0"))
		push(dgram(8, 2, 0, "B0"))
		vsched.Sleep(w.p.Gap/2, "h:gap1")
		push(dgram(8, 2, 1, "B1")) // refreshes message 8
		vsched.Sleep(w.p.Gap-w.p.Gap/2, "h:gap2")
		push(dgram(8, 2, 2, "B2"))
		push(dgram(7, 1, 1, "A1"))
		half := w.p.Gap - w.p.Gap/2
		switch {
		case half >= expiry+2*sweep: // both forgotten
		case w.p.Gap < expiry: // both kept
			w.must = append(w.must, []byte("B0B1B2"), []byte("A0A1"))
		case certainlyForgotten && half < expiry: // 7 forgotten, 8 kept
			w.must = append(w.must, []byte("B0B1B2"))
		default:
			w.may = append(w.may, []byte("B0B1B2"), []byte("A0A1"))
			if half < expiry && w.p.Gap/2 < expiry {
				w.must = append(w.must, []byte("B0B1B2"))
			}
		}
	}
	push(dgram(0x7ffffffe, 0, 0, string(sentinel)))
	w.phase = "drain"
	vsched.WaitUntil("reader-done", func() bool { return done })
	w.phase = "close"
	t.Close()
}

func contains(set [][]byte, m []byte) bool {
	for _, x := range set {
		if bytes.Equal(x, m) {
			return true
		}
	}
	return false
}

func run(sc vlib.Scenario, cfg vsched.Config) (*vsched.Result, vlib.Verdict) {
	w := &world{p: sc.P.(params)}
	res := vsched.Run(cfg, w.main)
	var v vlib.Verdict
	if res.Outcome == vsched.Panicked {
		v.Fail("C14.expiry.panic", res.Panic.Site, "panic: %s", res.Panic.Value)
		return res, v
	}
	if w.tnew != nil {
		v.Fail("C14.expiry.new", "new", "quic.New failed on the fake connection: %v", w.tnew)
		return res, v
	}
	if res.Outcome != vsched.Completed {
		v.Fail("C14.expiry.blocked", w.p.Shape+"/"+w.phase, "execution did not finish: %v in phase %s (read %d messages)", res.Outcome, w.phase, len(w.got))
		return res, v
	}
	if w.rerr != nil {
		v.Fail("C14.expiry.read-error", w.p.Shape, "unreliable Read failed: %v", w.rerr)
		return res, v
	}
	for _, m := range w.got {
		if !contains(w.must, m) && !contains(w.may, m) {
			kind := "partial-or-mixed"
			v.Fail("C14.expiry.forgotten", fmt.Sprintf("%s/%s/handed-up-after-expiry", w.p.Shape, kind), "%s: %q was handed up %v after the last segment of the incomplete message (expiry %v, sweep every %v): the incomplete message was not forgotten", w.p.name(), m, w.p.Gap, expiry, sweep)
		}
	}
	for _, m := range w.must {
		if !contains(w.got, m) {
			v.Fail("C14.expiry.kept", w.p.Shape+"/complete-message-lost", "%s: %q was not handed up although all its segments arrived within the expiry time", w.p.name(), m)
		}
	}
	var o []string
	for _, m := range w.got {
		o = append(o, string(m))
	}
	v.Outcome = strings.Join(o, ",")
	return res, v
}

func main() {
	vlib.Main(&vlib.Harness{
		Property:  "C14",
		Scenarios: scenarios,
		Config:    config,
		Run:       run,
		Rule:      "mode S: the real QUIC transport (datagram goroutine + expiry sweep on its 1 s ticker) on a fake quic.Connection under the controlled scheduler and virtual clock; connection ages {0, 2.5 s (thorough: +0.9 s, 12 s, 31 s)} x gaps between an incomplete message and a later segment with the same sequence number {0.5 s, 9 s, 12.1 s, 30 s (thorough: +5 s, 12.001 s, 100 s)} x shapes {stale number reused, slow segment, two messages with refresh}; schedule deviations <= 1 (thorough 2) in transport/quic + internal/segment; oracle: reference with the documented expiry (kept below 10 s, forgotten from 10 s + 2 sweeps, either in between)",
		Assumptions: []string{"the WebTransport transport has the same sweep loop but needs a concrete *webtransport.Session and is not driven here"},
	})
}
