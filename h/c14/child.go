package main

// Sacrificial child processes: cases that can kill the process (everything that goes through the
// transport's datagram goroutine, whose recover re-panics) are evaluated in a child started as
// os.Args[0] -c14child. The child reads one JSON case per line and answers one JSON result per
// line. If it dies, the case in flight is the culprit; the parent records the violation (with the
// panicking function parsed from the child's stack trace) and starts a new child.

import (
	"bufio"
	"bytes"
	"encoding/json"
	"fmt"
	"os"
	"os/exec"
	"regexp"
	"strings"
	"sync"
	"sync/atomic"
	"time"
)

type childResult struct {
	V []viol `json:"v"`
}

func childMain() {
	initSeams()
	in := bufio.NewReaderSize(os.Stdin, 1<<20)
	out := bufio.NewWriter(os.Stdout)
	for {
		line, err := in.ReadBytes('\n')
		if len(bytes.TrimSpace(line)) > 0 {
			var c ccase
			if jerr := json.Unmarshal(line, &c); jerr != nil {
				fmt.Fprintln(os.Stderr, "c14child: bad case:", jerr)
				os.Exit(3)
			}
			b, _ := json.Marshal(childResult{V: eval(&c)})
			out.Write(b)
			out.WriteByte('\n')
			out.Flush()
		}
		if err != nil {
			return
		}
	}
}

type child struct {
	cmd    *exec.Cmd
	in     *bufio.Writer
	inPipe interface{ Close() error }
	out    *bufio.Reader
	stderr *tailBuffer
}

// tailBuffer keeps the first 64 KiB written to it (a Go panic trace starts with the message).
type tailBuffer struct {
	mu sync.Mutex
	b  bytes.Buffer
}

func (t *tailBuffer) Write(p []byte) (int, error) {
	t.mu.Lock()
	if t.b.Len() < 64<<10 {
		t.b.Write(p)
	}
	t.mu.Unlock()
	return len(p), nil
}
func (t *tailBuffer) String() string { t.mu.Lock(); defer t.mu.Unlock(); return t.b.String() }

func startChild() (*child, error) {
	cmd := exec.Command(os.Args[0], "-c14child")
	cmd.Env = append(os.Environ(), "GOTRACEBACK=single")
	stdin, err := cmd.StdinPipe()
	if err != nil {
		return nil, err
	}
	stdout, err := cmd.StdoutPipe()
	if err != nil {
		return nil, err
	}
	tb := &tailBuffer{}
	cmd.Stderr = tb
	if err := cmd.Start(); err != nil {
		return nil, err
	}
	return &child{cmd: cmd, in: bufio.NewWriter(stdin), inPipe: stdin, out: bufio.NewReaderSize(stdout, 1<<20), stderr: tb}, nil
}

func (c *child) stop() {
	c.inPipe.Close()
	done := make(chan struct{})
	go func() { c.cmd.Wait(); close(done) }()
	select {
	case <-done:
	case <-time.After(5 * time.Second):
		c.cmd.Process.Kill()
		<-done
	}
}

var frameRe = regexp.MustCompile(`(?m)^(github\.com/aptpod/iscp-go/[^\s(]+(?:\([^)]*\))?[^\s(]*)\(`)

// deathSite extracts the library function that panicked from a Go crash trace: the first library
// frame that is not a closure (the transport's deferred re-panic closure comes first).
func deathSite(trace string) string {
	first := ""
	for _, m := range frameRe.FindAllStringSubmatch(trace, -1) {
		f := strings.TrimPrefix(m[1], modPrefix)
		if strings.Contains(f, "internal/vh/") {
			continue
		}
		if first == "" {
			first = f
		}
		if !regexp.MustCompile(`\.func\d+(\.\d+)*$`).MatchString(f) {
			return f
		}
	}
	if first != "" {
		return first
	}
	return "unknown"
}

func firstLines(s string, n int) string {
	l := strings.SplitN(s, "\n", n+1)
	if len(l) > n {
		l = l[:n]
	}
	return strings.Join(l, " | ")
}

// one evaluates a single case in c; died reports that the child is gone (and must be replaced).
func (c *child) one(cs *ccase) (vs []viol, died bool) {
	b, _ := json.Marshal(cs)
	c.in.Write(b)
	c.in.WriteByte('\n')
	werr := c.in.Flush()
	type res struct {
		line []byte
		err  error
	}
	ch := make(chan res, 1)
	go func() {
		l, err := c.out.ReadBytes('\n')
		ch <- res{l, err}
	}()
	var r res
	if werr == nil {
		select {
		case r = <-ch:
		case <-time.After(120 * time.Second): // watchdog only
			c.cmd.Process.Kill()
			c.cmd.Wait()
			return []viol{{fmt.Sprintf("C14.%s:child-process-hangs@quic-transport", clause(cs.Family)), "no answer within 120 s; killed"}}, true
		}
	} else {
		r.err = werr
	}
	if r.err == nil {
		var cr childResult
		if err := json.Unmarshal(r.line, &cr); err == nil {
			return cr.V, false
		}
		r.err = fmt.Errorf("unparsable answer %q", r.line)
	}
	// the child died (or its pipe broke): the case in flight is the culprit
	c.cmd.Process.Kill()
	werr2 := c.cmd.Wait()
	trace := c.stderr.String()
	q := ""
	if cs.Family == "malformed-datagram" {
		q = "/datagram-with-header"
		for _, s := range cs.Steps {
			if s.Raw != "" && len(rawBytes(s.Raw)) < 8 {
				q = "/datagram-shorter-than-8-bytes"
			}
		}
	}
	return []viol{{fmt.Sprintf("C14.%s:process-killed-by-panic-in-%s%s@quic-transport", clause(cs.Family), deathSite(trace), q),
		fmt.Sprintf("%s: the process running the transport died (%v): %s", describe(cs, cs.Steps, len(cs.Steps)), werr2, firstLines(trace, 3))}}, true
}

const maxHangVerdicts = 16

var hangVerdicts, skippedAfterHangs int64

// runInChildren evaluates cases[i] for all i in child processes, in parallel.
func runInChildren(cases []ccase, workers int, onResult func(i int, vs []viol)) (spawned int64) {
	var next int64 = -1
	var wg sync.WaitGroup
	for w := 0; w < workers; w++ {
		wg.Add(1)
		go func() {
			defer wg.Done()
			var ch *child
			defer func() {
				if ch != nil {
					ch.stop()
				}
			}()
			for {
				i := int(atomic.AddInt64(&next, 1))
				if i >= len(cases) {
					return
				}
				if atomic.LoadInt64(&hangVerdicts) >= maxHangVerdicts {
					// every hang costs a 30 s (or 120 s) watchdog: enough of them are a verdict, the rest is skipped
					atomic.AddInt64(&skippedAfterHangs, 1)
					continue
				}
				if ch == nil {
					var err error
					ch, err = startChild()
					if err != nil {
						onResult(i, []viol{{"C14.harness:cannot-start-child", err.Error()}})
						continue
					}
					atomic.AddInt64(&spawned, 1)
				}
				vs, died := ch.one(&cases[i])
				if died {
					ch = nil
				}
				for _, v := range vs {
					if strings.Contains(v.Sig, "hangs") {
						atomic.AddInt64(&hangVerdicts, 1)
						break
					}
				}
				onResult(i, vs)
			}
		}()
	}
	wg.Wait()
	return spawned
}
