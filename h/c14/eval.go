package main

// Case representation and evaluation. eval(c) is deterministic and self-contained, so a case
// can be re-run from a replay file, in this process (level "segment") or in a sacrificial child
// process (level "quic", where a panic in the transport's receive goroutine kills the process).

import (
	"bytes"
	"encoding/hex"
	"errors"
	"fmt"
	"runtime"
	"strings"
	"sync/atomic"
	"time"

	"github.com/aptpod/iscp-go/internal/segment"
)

type msgSpec struct {
	Seq  uint32 `json:"seq"`
	Size int    `json:"size"`
	Fill int    `json:"fill"`
}

// content of a message: position- and message-dependent, never repeating within 251 bytes.
func (m msgSpec) bytes() []byte {
	b := make([]byte, m.Size)
	for i := range b {
		b[i] = byte(1 + (i*7+m.Fill*101)%251)
	}
	return b
}

type step struct {
	M      int    `json:"m,omitempty"`      // deliver segment S of message M
	S      int    `json:"s,omitempty"`      //
	Raw    string `json:"raw,omitempty"`    // deliver these bytes (hex; "-" = empty datagram) instead
	Adv    int64  `json:"adv,omitempty"`    // advance the package clock by this many ns
	Expire bool   `json:"expire,omitempty"` // call RemoveExpired and compare the pending messages
}

type ccase struct {
	Family  string    `json:"family"`
	Level   string    `json:"level"`   // "segment" (ReadBuffers.Receive) | "quic" (transport on a fake connection)
	Payload int       `json:"payload"` // segment payload size set through the injected accessor (0 = the real one)
	Sender  string    `json:"sender"`  // "lib" = segment.SendTo / Write of the transport, "ref" = reference split
	Msgs    []msgSpec `json:"msgs,omitempty"`
	Steps   []step    `json:"steps,omitempty"`
	InOrder bool      `json:"in_order,omitempty"`  // steps = all segments of all messages in order (huge messages)
	Reverse bool      `json:"reverse,omitempty"`   // ... in reverse order
	Then    *msgSpec  `json:"then,omitempty"`      // afterwards this message is delivered completely, in order, and must be handed up
	FailAt  int       `json:"fail_at,omitempty"`   // sender-error: the k-th SendDatagram (1-based) fails
	AutoSeq bool      `json:"auto_seq,omitempty"`  // quic: do not set the sequence counter; Msgs[i].Seq is the expected number
	Expiry  int64     `json:"expiry_ns,omitempty"` // ReadBufferExpiry
}

type viol struct {
	Sig    string `json:"sig"`
	Detail string `json:"detail"`
}

const modPrefix = "github.com/aptpod/iscp-go/"

// panicSite: innermost library function on the stack of the panic being recovered.
func panicSite() string {
	pcs := make([]uintptr, 64)
	n := runtime.Callers(3, pcs)
	fr := runtime.CallersFrames(pcs[:n])
	for {
		f, more := fr.Next()
		if strings.HasPrefix(f.Function, modPrefix) && !strings.Contains(f.Function, "/internal/vh/") {
			return strings.TrimPrefix(f.Function, modPrefix)
		}
		if !more {
			break
		}
	}
	return "non-library-code"
}

func guard(f func()) (pan, msg string) {
	defer func() {
		if r := recover(); r != nil {
			pan, msg = panicSite(), fmt.Sprint(r)
		}
	}()
	f()
	return
}

// ---- package seams ----

var (
	clockNs     atomic.Int64
	clockBase   = time.Date(2026, 1, 1, 0, 0, 0, 0, time.UTC)
	realPayload int
	curPayload  int
)

func initSeams() {
	realPayload = segment.VerifMaxPayloadSize()
	curPayload = realPayload
	segment.VerifSetTimeNow(func() time.Time { return clockBase.Add(time.Duration(clockNs.Load())) })
}

// setPayload sets the segment payload size (0 = real). Not concurrency-safe: called between phases.
func setPayload(n int) {
	if n == 0 {
		n = realPayload
	}
	if n != curPayload {
		segment.VerifSetMaxPayloadSize(n)
		curPayload = n
	}
}

// ---- senders ----

type capture struct {
	dgs    [][]byte
	failAt int
}

var errSendFailed = errors.New("verif: SendDatagram fails on request")

func (c *capture) SendDatagram(b []byte) error {
	if c.failAt > 0 && len(c.dgs)+1 == c.failAt {
		return errSendFailed
	}
	c.dgs = append(c.dgs, append([]byte(nil), b...))
	return nil
}

func hdr(d []byte) string {
	if len(d) < 8 {
		return fmt.Sprintf("short(%x)", d)
	}
	return fmt.Sprintf("seq=%d max=%d idx=%d +%dB", uint32(d[0])<<24|uint32(d[1])<<16|uint32(d[2])<<8|uint32(d[3]), int(d[4])<<8|int(d[5]), int(d[6])<<8|int(d[7]), len(d)-8)
}

// checkSenderFormat: the datagrams of one message obey the documented format.
func checkSenderFormat(fam, level string, m msgSpec, msg []byte, dgs [][]byte, payload int) []viol {
	bad := func(what, detail string) []viol {
		return []viol{{fmt.Sprintf("C14.sender-format:%s@%s", what, level), fmt.Sprintf("[%s] message seq=%d size=%d payload-size=%d: %s", fam, m.Seq, m.Size, payload, detail)}}
	}
	if len(dgs) == 0 {
		return bad("emits-no-datagram", "accepted but nothing sent")
	}
	if len(dgs) > 65536 {
		return bad("emits-more-than-65536-segments", fmt.Sprint(len(dgs)))
	}
	seen := make([]bool, len(dgs))
	parts := make([][]byte, len(dgs))
	for i, d := range dgs {
		if len(d) < 8 {
			return bad("datagram-shorter-than-header", fmt.Sprintf("datagram %d: %x", i, d))
		}
		seq := uint32(d[0])<<24 | uint32(d[1])<<16 | uint32(d[2])<<8 | uint32(d[3])
		max := int(d[4])<<8 | int(d[5])
		idx := int(d[6])<<8 | int(d[7])
		if seq != m.Seq {
			return bad("header-sequence-number-wrong", fmt.Sprintf("datagram %d: %s", i, hdr(d)))
		}
		if max != len(dgs)-1 {
			return bad("header-max-index-wrong", fmt.Sprintf("datagram %d of %d: %s", i, len(dgs), hdr(d)))
		}
		if idx >= len(dgs) || seen[idx] {
			return bad("header-index-wrong", fmt.Sprintf("datagram %d of %d: %s", i, len(dgs), hdr(d)))
		}
		if len(d)-8 > payload {
			return bad("segment-larger-than-payload-size", fmt.Sprintf("datagram %d: %s", i, hdr(d)))
		}
		seen[idx] = true
		parts[idx] = d[8:]
	}
	if !bytes.Equal(bytes.Join(parts, nil), msg) {
		return bad("payloads-do-not-concatenate-to-message", fmt.Sprintf("%d datagrams", len(dgs)))
	}
	return nil
}

// libSend runs segment.SendTo on a capturing sender.
func libSend(m msgSpec, msg []byte, failAt int) (dgs [][]byte, n int, err error, pan, pmsg string) {
	c := &capture{failAt: failAt}
	pan, pmsg = guard(func() { n, err = segment.SendTo(c, m.Seq, msg) })
	return c.dgs, n, err, pan, pmsg
}

// prepared: the datagrams of the messages of a case.
type prepared struct {
	msgs [][]byte
	dgs  [][][]byte
}

// prepareSegment builds the datagrams of every message of a segment-level case.
func prepareSegment(c *ccase) (p prepared, vs []viol) {
	payload := curPayload
	all := c.Msgs
	if c.Then != nil {
		all = append(append([]msgSpec{}, c.Msgs...), *c.Then)
	}
	for _, m := range all {
		msg := m.bytes()
		var dgs [][]byte
		if c.Sender == "ref" {
			dgs, _ = refSplit(m.Seq, msg, payload)
		} else {
			var n int
			var err error
			var pan, pmsg string
			dgs, n, err, pan, pmsg = libSend(m, msg, 0)
			if pan != "" {
				return p, []viol{{fmt.Sprintf("C14.%s:panic-in-%s@segment", clause(c.Family), pan), fmt.Sprintf("SendTo(seq=%d, %d bytes): %s", m.Seq, m.Size, pmsg)}}
			}
			if err != nil {
				return p, []viol{{fmt.Sprintf("C14.%s:sender-refuses-message-within-limit@segment", clause(c.Family)), fmt.Sprintf("SendTo(seq=%d, %d bytes, payload size %d): %v", m.Seq, m.Size, payload, err)}}
			}
			if v := checkSenderFormat(c.Family, "segment", m, msg, dgs, payload); v != nil {
				return p, v
			}
			total := 0
			for _, d := range dgs {
				total += len(d)
			}
			if n != total {
				vs = append(vs, viol{"C14.sender-format:returned-size-wrong@segment", fmt.Sprintf("SendTo(seq=%d, %d bytes) returned %d, sent %d bytes", m.Seq, m.Size, n, total)})
			}
		}
		p.msgs = append(p.msgs, msg)
		p.dgs = append(p.dgs, dgs)
	}
	return p, vs
}

func rawBytes(s string) []byte {
	if s == "-" {
		return []byte{}
	}
	b, err := hex.DecodeString(s)
	if err != nil {
		panic("bad raw datagram in case: " + s)
	}
	return b
}

func rawString(b []byte) string {
	if len(b) == 0 {
		return "-"
	}
	return hex.EncodeToString(b)
}

// expandSteps resolves InOrder/Reverse.
func expandSteps(c *ccase, p prepared) []step {
	if !c.InOrder && !c.Reverse {
		return c.Steps
	}
	var st []step
	for m := range c.Msgs {
		for s := range p.dgs[m] {
			st = append(st, step{M: m, S: s})
		}
	}
	if c.Reverse {
		for i, j := 0, len(st)-1; i < j; i, j = i+1, j-1 {
			st[i], st[j] = st[j], st[i]
		}
	}
	return st
}

func short(b []byte) string {
	if len(b) > 40 {
		return fmt.Sprintf("%x...(%d bytes)", b[:40], len(b))
	}
	return fmt.Sprintf("%x", b)
}

func describe(c *ccase, steps []step, upto int) string {
	var sb strings.Builder
	fmt.Fprintf(&sb, "[%s] ", c.Family)
	for i, m := range c.Msgs {
		fmt.Fprintf(&sb, "msg%d{seq=%d size=%d} ", i, m.Seq, m.Size)
	}
	sb.WriteString("arrival:")
	if len(steps) > 24 {
		fmt.Fprintf(&sb, " (%d steps)", len(steps))
	} else {
		for i, s := range steps {
			if i > upto {
				break
			}
			switch {
			case s.Raw != "":
				fmt.Fprintf(&sb, " raw(%s)", s.Raw)
			case s.Adv != 0:
				fmt.Fprintf(&sb, " +%v", time.Duration(s.Adv))
			case s.Expire:
				sb.WriteString(" RemoveExpired")
			default:
				fmt.Fprintf(&sb, " m%d.s%d", s.M, s.S)
			}
		}
	}
	return sb.String()
}

// clause maps an enumeration family to the clause of the property it decides (the signature names
// the clause; the family is in the detail).
func clause(family string) string {
	switch family {
	case "perm-loss", "ref-sender", "interleave-2", "interleave-3", "sequence-wrap", "sender-error":
		return "reassembly"
	}
	return family
}

func rawQual(fam string, d []byte) string {
	if fam != "malformed-datagram" {
		return ""
	}
	if len(d) < 8 {
		return "/datagram-shorter-than-8-bytes"
	}
	return "/datagram-with-header"
}

// evalSegment drives ReadBuffers.Receive and the reference receiver with the same arrival sequence
// and compares what is handed up after every datagram.
func evalSegment(c *ccase, p prepared) (vs []viol) {
	expiry := time.Duration(c.Expiry)
	if expiry == 0 {
		expiry = 10 * time.Second
	}
	rb := &segment.ReadBuffers{ReadBuffer: map[uint32]*segment.ReadBuffer{}, ReadBufferExpiry: expiry}
	ref := newRefRx(expiry)
	steps := expandSteps(c, p)
	var thenSteps []step
	if c.Then != nil {
		ti := len(p.dgs) - 1
		for s := range p.dgs[ti] {
			thenSteps = append(thenSteps, step{M: ti, S: s})
		}
	}
	usesClock := false
	for _, s := range steps {
		if s.Adv != 0 || s.Expire {
			usesClock = true
		}
	}
	if usesClock {
		clockNs.Store(0)
	}
	fail := func(i int, what, format string, a ...any) []viol {
		return append(vs, viol{fmt.Sprintf("C14.%s:%s@segment", clause(c.Family), what), describe(c, steps, i) + ": " + fmt.Sprintf(format, a...)})
	}
	run := func(steps []step) []viol {
		for i, s := range steps {
			switch {
			case s.Adv != 0:
				clockNs.Add(s.Adv)
				continue
			case s.Expire:
				if pan, pmsg := guard(rb.RemoveExpired); pan != "" {
					return fail(i, "panic-in-"+pan, "%s", pmsg)
				}
				ref.expire(time.Duration(clockNs.Load()))
				want := ref.pending()
				for _, q := range want {
					if _, ok := rb.ReadBuffer[q]; !ok {
						return fail(i, "partial-message-forgotten-before-expiry", "seq %d is gone after RemoveExpired at +%v (expiry %v)", q, time.Duration(clockNs.Load()), expiry)
					}
				}
				if len(rb.ReadBuffer) != len(want) {
					return fail(i, "partial-message-survives-expiry", "after RemoveExpired at +%v (expiry %v) %d partial messages are kept, expected %v", time.Duration(clockNs.Load()), expiry, len(rb.ReadBuffer), want)
				}
				continue
			}
			var d []byte
			if s.Raw != "" {
				d = rawBytes(s.Raw)
			} else {
				d = p.dgs[s.M][s.S]
			}
			var now time.Duration
			if usesClock {
				now = time.Duration(clockNs.Load())
			}
			want, wantDone, malformed := ref.recv(d, now)
			var got []byte
			var done bool
			var err error
			pan, pmsg := guard(func() { got, done, err = rb.Receive(d) })
			q := rawQual(c.Family, d)
			switch {
			case pan != "":
				return fail(i, "panic-in-"+pan+q, "Receive(%s) panicked: %s", short(d), pmsg)
			case err != nil && !malformed:
				return fail(i, "error-on-well-formed-datagram", "Receive(%s) = %v", hdr(d), err)
			case err != nil && done:
				return fail(i, "message-and-error"+q, "Receive(%s) = %x, true, %v", short(d), got, err)
			case done && !wantDone:
				return fail(i, "partial-or-mixed-message-handed-up"+q, "Receive(%s) hands up %s although no message is complete", hdr(d), short(got))
			case !done && wantDone:
				return fail(i, "complete-message-not-handed-up"+q, "all segments are in after %s but nothing is handed up (expected %s)", hdr(d), short(want))
			case done && !bytes.Equal(got, want):
				return fail(i, "wrong-bytes-handed-up"+q, "after %s: got %s, expected %s", hdr(d), short(got), short(want))
			}
		}
		return nil
	}
	if v := run(steps); v != nil {
		return v
	}
	// the follow-up message is delivered only if its sequence number is free again (the earlier
	// message with that number completed): otherwise the two would legitimately mix
	if c.Then != nil && ref.bufs[c.Then.Seq] == nil {
		steps = append(append([]step{}, steps...), thenSteps...)
		if v := run(thenSteps); v != nil {
			return v
		}
	}
	return vs
}

// evalSenderBoundary: a message at the segment-count limit is either refused up front or can be
// reassembled.
func evalSenderBoundary(c *ccase) (vs []viol) {
	m := c.Msgs[0]
	msg := m.bytes()
	payload := curPayload
	dgs, _, err, pan, pmsg := libSend(m, msg, 0)
	if pan != "" {
		return []viol{{fmt.Sprintf("C14.%s:panic-in-%s@segment", clause(c.Family), pan), pmsg}}
	}
	needs := (len(msg) + payload - 1) / payload
	where := fmt.Sprintf("message of %d bytes = %d*%d%+d with payload size %d", m.Size, m.Size/payload, payload, m.Size%payload, payload)
	if err != nil {
		if len(dgs) != 0 {
			return []viol{{fmt.Sprintf("C14.%s:refused-after-sending-%s@segment", clause(c.Family), "datagrams"), fmt.Sprintf("%s: SendTo fails (%v) after emitting %d datagrams", where, err, len(dgs))}}
		}
		if m.Size/payload < 65535 { // fits 65535 segments even with the library's len/payload+1 split
			return []viol{{fmt.Sprintf("C14.%s:sender-refuses-message-within-limit@segment", clause(c.Family)), fmt.Sprintf("%s (%d segments suffice): %v", where, needs, err)}}
		}
		return nil
	}
	if needs > 65536 {
		return []viol{{fmt.Sprintf("C14.%s:oversized-message-not-refused@segment", clause(c.Family)), fmt.Sprintf("%s needs %d segments, SendTo sent %d datagrams without error", where, needs, len(dgs))}}
	}
	if v := checkSenderFormat(c.Family, "segment", m, msg, dgs, payload); v != nil {
		return v
	}
	p := prepared{msgs: [][]byte{msg}, dgs: [][][]byte{dgs}}
	maxIdx := len(dgs) - 1
	for _, v := range evalSegment(c, p) {
		v.Sig = strings.Replace(v.Sig, "complete-message-not-handed-up", fmt.Sprintf("accepted-message-never-reassembles(max-index-%d)", maxIdx), 1)
		v.Detail = where + ": sender accepts it (" + fmt.Sprint(len(dgs)) + " datagrams, max index " + fmt.Sprint(maxIdx) + "), receiver: " + v.Detail
		vs = append(vs, v)
	}
	return vs
}

// evalSendError: the k-th SendDatagram fails; SendTo reports the error, what was sent is a prefix
// of the normal emission, and the receiver hands up nothing from it.
func evalSendError(c *ccase) (vs []viol) {
	m := c.Msgs[0]
	msg := m.bytes()
	full, _, err0, pan, pmsg := libSend(m, msg, 0)
	if pan != "" || err0 != nil {
		return []viol{{fmt.Sprintf("C14.%s:sender-fails-without-fault@segment", clause(c.Family)), fmt.Sprint(err0, pan, pmsg)}}
	}
	part, _, err, pan, pmsg := libSend(m, msg, c.FailAt)
	if pan != "" {
		return []viol{{fmt.Sprintf("C14.%s:panic-in-%s@segment", clause(c.Family), pan), pmsg}}
	}
	if err == nil {
		return []viol{{fmt.Sprintf("C14.%s:send-error-swallowed@segment", clause(c.Family)), fmt.Sprintf("size %d: SendDatagram #%d failed but SendTo returned nil", m.Size, c.FailAt)}}
	}
	if len(part) != c.FailAt-1 {
		return []viol{{fmt.Sprintf("C14.%s:sending-continues-after-error@segment", clause(c.Family)), fmt.Sprintf("size %d: SendDatagram #%d failed, %d datagrams were sent", m.Size, c.FailAt, len(part))}}
	}
	for i := range part {
		if !bytes.Equal(part[i], full[i]) {
			return []viol{{fmt.Sprintf("C14.%s:prefix-differs@segment", clause(c.Family)), fmt.Sprintf("size %d: datagram %d", m.Size, i)}}
		}
	}
	cc := *c
	cc.Steps = nil
	for s := range part {
		cc.Steps = append(cc.Steps, step{M: 0, S: s})
	}
	return evalSegment(&cc, prepared{msgs: [][]byte{msg}, dgs: [][][]byte{full}})
}

// eval runs one case in this process.
func eval(c *ccase) []viol {
	setPayload(c.Payload)
	if c.Level == "quic" {
		return evalQuic(c)
	}
	switch c.Family {
	case "sender-boundary":
		return evalSenderBoundary(c)
	case "sender-error":
		return evalSendError(c)
	}
	p, vs := prepareSegment(c)
	want := len(c.Msgs)
	if c.Then != nil {
		want++
	}
	if len(p.dgs) < want {
		return vs
	}
	return append(vs, evalSegment(c, p)...)
}
