package main

// The same arrival sequences through the QUIC transport's unreliable path, on a fake
// quic.Connection (no networking). A panic in the transport's datagram goroutine cannot be
// recovered (its recover re-panics), so evalQuic only ever runs in a child process (see child.go).

import (
	"bytes"
	"context"
	"errors"
	"fmt"
	"sync"
	"time"

	tquic "github.com/aptpod/iscp-go/transport/quic"
	quic "github.com/quic-go/quic-go"
)

type fakeSendStream struct{ quic.SendStream }

type fakeConn struct {
	quic.Connection // nil: any method the transport is not expected to use panics
	rx              chan []byte
	closed          chan struct{}
	once            sync.Once
	mu              sync.Mutex
	sent            [][]byte
}

func newFakeConn(n int) *fakeConn {
	return &fakeConn{rx: make(chan []byte, n), closed: make(chan struct{})}
}

var errFakeClosed = errors.New("verif: fake connection closed")

func (f *fakeConn) OpenUniStream() (quic.SendStream, error) { return fakeSendStream{}, nil }
func (f *fakeConn) AcceptUniStream(ctx context.Context) (quic.ReceiveStream, error) {
	select {
	case <-ctx.Done():
		return nil, ctx.Err()
	case <-f.closed:
		return nil, errFakeClosed
	}
}
func (f *fakeConn) CloseWithError(quic.ApplicationErrorCode, string) error {
	f.once.Do(func() { close(f.closed) })
	return nil
}
func (f *fakeConn) SendDatagram(b []byte) error {
	f.mu.Lock()
	f.sent = append(f.sent, append([]byte(nil), b...))
	f.mu.Unlock()
	return nil
}
func (f *fakeConn) ReceiveDatagram(ctx context.Context) ([]byte, error) {
	select {
	case b := <-f.rx:
		return b, nil
	default:
	}
	select {
	case b := <-f.rx:
		return b, nil
	case <-ctx.Done():
		return nil, ctx.Err()
	case <-f.closed:
		return nil, errFakeClosed
	}
}
func (f *fakeConn) take() [][]byte {
	f.mu.Lock()
	defer f.mu.Unlock()
	s := f.sent
	f.sent = nil
	return s
}

const markerSeq = 0x7ffffffe

var markerPayload = []byte("\x00VERIF-END-OF-CASE\x00")

func evalQuic(c *ccase) (vs []viol) {
	fam := clause(c.Family)
	capRx := len(c.Steps) + 64
	if c.InOrder || c.Reverse {
		capRx = 1 << 17
	}
	conn := newFakeConn(capRx)
	var t *tquic.Transport
	var err error
	if pan, pmsg := guard(func() { t, err = tquic.New(tquic.Config{Connection: conn}) }); pan != "" || err != nil {
		return []viol{{fmt.Sprintf("C14.%s:transport-construction-fails@quic-transport", fam), fmt.Sprint(pan, pmsg, err)}}
	}
	defer t.Close()
	un, ok := t.AsUnreliable()
	if !ok {
		return []viol{{fmt.Sprintf("C14.%s:no-unreliable-path@quic-transport", fam), ""}}
	}
	// --- sending side
	all := c.Msgs
	if c.Then != nil {
		all = append(append([]msgSpec{}, c.Msgs...), *c.Then)
	}
	var p prepared
	for mi, m := range all {
		msg := m.bytes()
		var dgs [][]byte
		if c.Sender == "ref" {
			dgs, _ = refSplit(m.Seq, msg, curPayload)
		} else {
			// AutoSeq: only the first message positions the counter (and not at all if it expects 0, the
			// number a fresh transport must start with); later messages get the transport's own numbering
			if !c.AutoSeq || (mi == 0 && m.Seq != 0) {
				t.VerifSetSequenceNumber(m.Seq - 1)
			}
			var werr error
			if pan, pmsg := guard(func() { werr = un.Write(msg) }); pan != "" {
				return []viol{{fmt.Sprintf("C14.%s:panic-in-%s@quic-transport", fam, pan), pmsg}}
			}
			if werr != nil {
				return []viol{{fmt.Sprintf("C14.%s:sender-refuses-message-within-limit@quic-transport", fam), fmt.Sprintf("Write(%d bytes): %v", m.Size, werr)}}
			}
			dgs = conn.take()
			if v := checkSenderFormat(fam, "quic-transport", m, msg, dgs, curPayload); v != nil {
				return v
			}
		}
		p.msgs = append(p.msgs, msg)
		p.dgs = append(p.dgs, dgs)
	}
	// --- receiving side: feed the arrival sequence, then an end marker
	steps := expandSteps(c, p)
	ref := newRefRx(10 * time.Second)
	var want [][]byte
	short8 := false
	feed := func(steps []step) {
		for _, s := range steps {
			var d []byte
			if s.Raw != "" {
				d = rawBytes(s.Raw)
			} else if s.M < len(p.dgs) && s.S < len(p.dgs[s.M]) {
				d = p.dgs[s.M][s.S]
			} else {
				continue
			}
			if len(d) < 8 {
				short8 = true
			}
			if m, done, _ := ref.recv(d, 0); done {
				want = append(want, m)
			}
			conn.rx <- append([]byte(nil), d...)
		}
	}
	feed(steps)
	if c.Then != nil && ref.bufs[c.Then.Seq] == nil {
		var ts []step
		for s := range p.dgs[len(p.dgs)-1] {
			ts = append(ts, step{M: len(p.dgs) - 1, S: s})
		}
		feed(ts)
		steps = append(append([]step{}, steps...), ts...)
	}
	conn.rx <- refDatagram(markerSeq, 0, 0, markerPayload)
	q := ""
	if fam == "malformed-datagram" {
		q = "/datagram-with-header"
		if short8 {
			q = "/datagram-shorter-than-8-bytes"
		}
	}
	var got [][]byte
	type rd struct {
		m   []byte
		err error
	}
	for {
		ch := make(chan rd, 1)
		go func() {
			m, err := un.Read()
			ch <- rd{m, err}
		}()
		var r rd
		select {
		case r = <-ch:
		case <-time.After(30 * time.Second): // watchdog only: the harness must not hang
			return append(vs, viol{fmt.Sprintf("C14.%s:unreliable-read-hangs%s@quic-transport", fam, q), describe(c, steps, len(steps)) + ": end marker never handed up"})
		}
		if r.err != nil {
			// The transport's datagram goroutine closes the read channel in a deferred call. If it did so
			// while panicking, its next deferred call re-panics and this process is about to die: the
			// verdict then belongs to the parent (process death), not to a racing answer from here. The
			// orderly error path is recognisable: it closes the connection first.
			select {
			case <-conn.closed:
			case <-time.After(10 * time.Second): // not reached on any known path
				return append(vs, viol{fmt.Sprintf("C14.%s:datagram-goroutine-exits-silently%s@quic-transport", fam, q), describe(c, steps, len(steps)) + fmt.Sprintf(": Read fails with %v although the connection was not closed", r.err)})
			}
			return append(vs, viol{fmt.Sprintf("C14.%s:transport-closed-instead-of-discard%s@quic-transport", fam, q),
				describe(c, steps, len(steps)) + fmt.Sprintf(": unreliable Read fails with %v after %d messages; later messages are lost", r.err, len(got))})
		}
		if bytes.Equal(r.m, markerPayload) {
			break
		}
		got = append(got, r.m)
	}
	for i := 0; i < len(got) || i < len(want); i++ {
		switch {
		case i >= len(want):
			return append(vs, viol{fmt.Sprintf("C14.%s:partial-or-mixed-message-handed-up%s@quic-transport", fam, q), describe(c, steps, len(steps)) + fmt.Sprintf(": handed up %s which is not a complete message (or handed up twice)", short(got[i]))})
		case i >= len(got):
			return append(vs, viol{fmt.Sprintf("C14.%s:complete-message-not-handed-up%s@quic-transport", fam, q), describe(c, steps, len(steps)) + fmt.Sprintf(": %s was never handed up", short(want[i]))})
		case !bytes.Equal(got[i], want[i]):
			// distinguish "an extra bogus message before the right one" from plain corruption
			what := "wrong-bytes-handed-up"
			if i+1 < len(got) && bytes.Equal(got[i+1], want[i]) {
				what = "partial-or-mixed-message-handed-up"
			}
			return append(vs, viol{fmt.Sprintf("C14.%s:%s%s@quic-transport", fam, what, q), describe(c, steps, len(steps)) + fmt.Sprintf(": message %d handed up as %s, expected %s", i, short(got[i]), short(want[i]))})
		}
	}
	return vs
}
