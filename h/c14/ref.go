package main

// Reference model for C14, written from the documented datagram format:
//
//	header (8 bytes, big endian): sequence number (4) | max segment index (2) | segment index (2)
//	followed by the segment's payload; a message is its segments' payloads concatenated by index.
//
// It shares no code with internal/segment.

import (
	"encoding/binary"
	"sort"
	"time"
)

// refHeader builds a datagram.
func refDatagram(seq uint32, max, idx uint16, payload []byte) []byte {
	d := make([]byte, 8, 8+len(payload))
	binary.BigEndian.PutUint32(d[0:], seq)
	binary.BigEndian.PutUint16(d[4:], max)
	binary.BigEndian.PutUint16(d[6:], idx)
	return append(d, payload...)
}

// refSplit is the canonical reference sender: ceil(len/payload) segments (one, empty, for an empty
// message); ok=false if the message does not fit 65536 segments.
func refSplit(seq uint32, msg []byte, payload int) (dgs [][]byte, ok bool) {
	n := (len(msg) + payload - 1) / payload
	if n == 0 {
		n = 1
	}
	if n > 65536 {
		return nil, false
	}
	for i := 0; i < n; i++ {
		lo, hi := i*payload, (i+1)*payload
		if hi > len(msg) {
			hi = len(msg)
		}
		dgs = append(dgs, refDatagram(seq, uint16(n-1), uint16(i), msg[lo:hi]))
	}
	return dgs, true
}

type refBuf struct {
	n     int
	parts map[int][]byte // by segment index
	last  time.Duration  // virtual time of the last arrival
}

// refRx is the reference receiver.
type refRx struct {
	bufs   map[uint32]*refBuf
	expiry time.Duration
}

func newRefRx(expiry time.Duration) *refRx { return &refRx{bufs: map[uint32]*refBuf{}, expiry: expiry} }

// recv processes one datagram at virtual time now. It returns the completed message, if any.
// malformed reports that the datagram had to be discarded as malformed (too short, index beyond the
// announced count).
func (r *refRx) recv(d []byte, now time.Duration) (msg []byte, done bool, malformed bool) {
	if len(d) < 8 {
		return nil, false, true
	}
	seq := binary.BigEndian.Uint32(d[0:4])
	max := int(binary.BigEndian.Uint16(d[4:6]))
	idx := int(binary.BigEndian.Uint16(d[6:8]))
	if idx > max {
		return nil, false, true
	}
	b := r.bufs[seq]
	if b == nil {
		b = &refBuf{n: max + 1, parts: map[int][]byte{}}
		r.bufs[seq] = b
	}
	if idx >= b.n {
		return nil, false, true
	}
	b.last = now
	if _, dup := b.parts[idx]; dup {
		return nil, false, false // a repeated segment adds nothing
	}
	b.parts[idx] = d[8:]
	if len(b.parts) < b.n {
		return nil, false, false
	}
	delete(r.bufs, seq)
	out := []byte{}
	for i := 0; i < b.n; i++ {
		out = append(out, b.parts[i]...)
	}
	return out, true, false
}

// expire forgets the partial messages whose last segment arrived more than expiry ago.
func (r *refRx) expire(now time.Duration) {
	for k, b := range r.bufs {
		if now > b.last+r.expiry {
			delete(r.bufs, k)
		}
	}
}

func (r *refRx) pending() []uint32 {
	var k []uint32
	for s := range r.bufs {
		k = append(k, s)
	}
	sort.Slice(k, func(i, j int) bool { return k[i] < k[j] })
	return k
}
