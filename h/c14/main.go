// c14: bounded-exhaustive enumeration (mode I) deciding property C14 – datagram messages are
// reassembled exactly or not at all.
//
// Deciding technique: every arrival sequence (every ordering of every subset = every permutation x
// every loss subset) of the segments of small messages, every interleaving of several in-flight
// messages, sequence numbers around the 32-bit wrap, every short/odd datagram over a byte alphabet,
// expiry through the package clock, the sender's segment-count boundary – each compared, datagram
// by datagram, with a reference reassembler written from the documented header format (ref.go).
// The part "two goroutines call Receive concurrently" (mode S) is NOT covered here.
package main

import (
	"bytes"
	"encoding/json"
	"flag"
	"fmt"
	"os"
	"runtime"
	"sync"
	"sync/atomic"
	"syscall"
	"time"

	"github.com/aptpod/iscp-go/internal/vh/lib"
)

var flagChild = flag.Bool("c14child", false, "internal: evaluate cases from stdin in this (sacrificial) process")

// ---------- bookkeeping ----------

type found struct {
	n      int
	key    string
	detail string
	c      ccase
}

type runner struct {
	e    *vlib.Explore
	mu   sync.Mutex
	best map[string]*found
	nS   int64
}

func caseKey(c *ccase) string { b, _ := json.Marshal(c); return string(b) }

// record keeps, per signature, the count and the smallest violating case (deterministic whatever
// the order in which workers finish).
func (r *runner) record(c *ccase, vs []viol) {
	if len(vs) == 0 {
		return
	}
	key := caseKey(c)
	r.mu.Lock()
	defer r.mu.Unlock()
	for _, v := range vs {
		f := r.best[v.Sig]
		if f == nil {
			r.best[v.Sig] = &found{1, key, v.Detail, *c}
			continue
		}
		f.n++
		if len(key) < len(f.key) || (len(key) == len(f.key) && key < f.key) {
			f.key, f.detail, f.c = key, v.Detail, *c
		}
	}
}

func (r *runner) flush() {
	for sig, f := range r.best {
		r.e.Violation(sig, f.detail, f.c)
		for i := 1; i < f.n; i++ {
			r.e.Violation(sig, "", nil)
		}
	}
}

func (r *runner) sample(c *ccase) {
	if n := atomic.AddInt64(&r.nS, 1); (n+int64(r.e.Seed))%50021 == 1 {
		r.e.Sample(c)
	}
}

func parallel(n int, f func(i int)) {
	var wg sync.WaitGroup
	var next int64 = -1
	for w := 0; w < runtime.NumCPU(); w++ {
		wg.Add(1)
		go func() {
			defer wg.Done()
			for {
				i := int(atomic.AddInt64(&next, 1))
				if i >= n {
					return
				}
				f(i)
			}
		}()
	}
	wg.Wait()
}

// ---------- enumeration helpers ----------

// arrangements calls f with every ordering of every subset of items (the empty one included):
// "every permutation x every loss subset" without repetitions.
func arrangements(items []step, f func([]step)) {
	used := make([]bool, len(items))
	cur := make([]step, 0, len(items))
	var rec func()
	rec = func() {
		f(cur)
		for i := range items {
			if !used[i] {
				used[i] = true
				cur = append(cur, items[i])
				rec()
				cur = cur[:len(cur)-1]
				used[i] = false
			}
		}
	}
	rec()
}

// interleavings calls f with every merge of the given sequences that keeps each sequence's order.
func interleavings(seqs [][]step, f func([]step)) {
	pos := make([]int, len(seqs))
	total := 0
	for _, s := range seqs {
		total += len(s)
	}
	cur := make([]step, 0, total)
	var rec func()
	rec = func() {
		if len(cur) == total {
			f(cur)
			return
		}
		for i, s := range seqs {
			if pos[i] < len(s) {
				cur = append(cur, s[pos[i]])
				pos[i]++
				rec()
				pos[i]--
				cur = cur[:len(cur)-1]
			}
		}
	}
	rec()
}

// reducedArrivals: for messages with too many segments for the full enumeration: in order,
// reversed, every rotation, every single loss.
func reducedArrivals(items []step, f func([]step)) {
	n := len(items)
	f(items)
	rev := make([]step, n)
	for i := range items {
		rev[n-1-i] = items[i]
	}
	f(rev)
	for r := 1; r < n; r++ {
		f(append(append([]step{}, items[r:]...), items[:r]...))
	}
	for l := 0; l < n; l++ {
		f(append(append([]step{}, items[:l]...), items[l+1:]...))
		f(append(append([]step{}, rev[:l]...), rev[l+1:]...))
	}
}

// nseg: number of datagrams the library's sender uses (len/payload+1 beyond one payload).
// It is measured from the library's sender at start-up (measureSegments), so that the enumeration
// does not assume the split; the formula is only the fallback.
func nsegLib(size, payload int) int {
	if n, ok := measured[[2]int{size, payload}]; ok {
		return n
	}
	if size <= payload {
		return 1
	}
	return size/payload + 1
}

var measured = map[[2]int]int{}

func measureSegments(payload, maxSize int) {
	for size := 0; size <= maxSize; size++ {
		m := msgSpec{0, size, 1}
		if dgs, _, err, pan, _ := libSend(m, m.bytes(), 0); err == nil && pan == "" && len(dgs) > 0 {
			measured[[2]int{size, payload}] = len(dgs)
		}
	}
}

func nsegRef(size, payload int) int {
	n := (size + payload - 1) / payload
	if n == 0 {
		n = 1
	}
	return n
}

func segSteps(m, n int) []step {
	s := make([]step, n)
	for i := range s {
		s[i] = step{M: m, S: i}
	}
	return s
}

const P = 4 // segment payload size used for the enumeration

var wrapSeqs = []uint32{0, 1, 0xffffffff}

func main() {
	flag.Parse()
	if *flagChild {
		childMain()
		return
	}
	e := vlib.StartExplore("C14")
	initSeams()
	if e.Replay != nil {
		var c ccase
		if err := json.Unmarshal(e.Replay, &c); err != nil {
			fmt.Println("bad replay case:", err)
			e.FinishReplay(false, "")
		}
		var vs []viol
		if c.Level == "quic" {
			ch, err := startChild()
			if err != nil {
				fmt.Println("cannot start child:", err)
				e.FinishReplay(false, "")
			}
			var died bool
			vs, died = ch.one(&c)
			if !died {
				ch.stop()
			}
		} else {
			vs = eval(&c)
		}
		for _, v := range vs {
			if v.Sig == e.ReplaySig || e.ReplaySig == "" {
				e.FinishReplay(true, v.Detail)
			}
		}
		for _, v := range vs {
			fmt.Printf("other violation on replay: %s\n  %s\n", v.Sig, v.Detail)
		}
		e.FinishReplay(false, "")
	}

	r := &runner{e: e, best: map[string]*found{}}
	t0 := time.Now()
	phase := func(name string) {
		var self, kids syscall.Rusage
		syscall.Getrusage(syscall.RUSAGE_SELF, &self)
		syscall.Getrusage(syscall.RUSAGE_CHILDREN, &kids)
		cpu := func(r syscall.Rusage) float64 {
			return float64(r.Utime.Sec+r.Stime.Sec) + float64(r.Utime.Usec+r.Stime.Usec)/1e6
		}
		fmt.Fprintf(os.Stderr, "[C14] %-28s done at %.1fs wall (cpu: self %.1fs, children %.1fs)\n", name, time.Since(t0).Seconds(), cpu(self), cpu(kids))
	}
	T := e.Thorough()
	setPayload(P)
	measureSegments(P, 16*P)

	// a segment-level family whose cases share the prepared datagrams of their messages
	type block struct {
		base ccase
		gen  func(emit func([]step))
	}
	var blocks []block
	add := func(base ccase, gen func(emit func([]step))) { blocks = append(blocks, block{base, gen}) }

	maxSize, fullN := 6*P+1, 5
	if T {
		maxSize, fullN = 8*P+1, 9
	}

	// F1 perm-loss: library sender -> library receiver, one message
	for size := 0; size <= maxSize; size++ {
		for _, seq := range wrapSeqs {
			n := nsegLib(size, P)
			items := segSteps(0, n)
			base := ccase{Family: "perm-loss", Level: "segment", Payload: P, Sender: "lib", Msgs: []msgSpec{{seq, size, 1}}, Then: &msgSpec{seq, 6, 9}}
			if n <= fullN {
				add(base, func(emit func([]step)) { arrangements(items, emit) })
			} else {
				add(base, func(emit func([]step)) { reducedArrivals(items, emit) })
			}
		}
	}
	// F2 ref-sender: canonical split (no trailing empty segment) -> library receiver
	refN := 4
	if T {
		refN = 6
	}
	for size := 0; size <= 6*P+1; size++ {
		for _, seq := range []uint32{0, 0xffffffff} {
			n := nsegRef(size, P)
			items := segSteps(0, n)
			base := ccase{Family: "ref-sender", Level: "segment", Payload: P, Sender: "ref", Msgs: []msgSpec{{seq, size, 2}}}
			if n <= refN {
				add(base, func(emit func([]step)) { arrangements(items, emit) })
			} else {
				add(base, func(emit func([]step)) { reducedArrivals(items, emit) })
			}
		}
	}
	// F3 two in-flight messages of <=3 segments each: every arrival sequence of the union
	sizes3 := []int{0, P, P + 1, 2*P - 1, 2 * P, 3*P - 1} // 1,1,2,2,3,3 datagrams
	seqPairs := [][2]uint32{{0, 1}, {0xffffffff, 0}, {1, 0xffffffff}}
	for _, sa := range sizes3 {
		for _, sb := range sizes3 {
			for _, sp := range seqPairs {
				items := append(segSteps(0, nsegLib(sa, P)), segSteps(1, nsegLib(sb, P))...)
				base := ccase{Family: "interleave-2", Level: "segment", Payload: P, Sender: "lib", Msgs: []msgSpec{{sp[0], sa, 1}, {sp[1], sb, 2}}}
				add(base, func(emit func([]step)) { arrangements(items, emit) })
			}
		}
	}
	// F4 three in-flight messages (thorough): union <= 7 segments: every arrival sequence;
	// larger unions: every order-preserving interleaving x every loss subset
	if T {
		s3 := []int{P, 2*P - 1, 3*P - 1, 2 * P}
		for _, sa := range s3 {
			for _, sb := range s3 {
				for _, sc := range s3 {
					na, nb, nc := nsegLib(sa, P), nsegLib(sb, P), nsegLib(sc, P)
					base := ccase{Family: "interleave-3", Level: "segment", Payload: P, Sender: "lib", Msgs: []msgSpec{{0xffffffff, sa, 1}, {0, sb, 2}, {1, sc, 3}}}
					if na+nb+nc <= 7 {
						items := append(append(segSteps(0, na), segSteps(1, nb)...), segSteps(2, nc)...)
						add(base, func(emit func([]step)) { arrangements(items, emit) })
					} else {
						seqs := [][]step{segSteps(0, na), segSteps(1, nb), segSteps(2, nc)}
						add(base, func(emit func([]step)) {
							interleavings(seqs, func(full []step) {
								for mask := 0; mask < 1<<len(full); mask++ {
									sub := make([]step, 0, len(full))
									for i, s := range full {
										if mask&(1<<i) == 0 {
											sub = append(sub, s)
										}
									}
									emit(sub)
								}
							})
						})
					}
				}
			}
		}
	}
	// F5 repeated datagrams: every word of length <= n+1 over the segments of one message
	for _, size := range []int{P + 1, 3*P - 1, 4*P - 1} {
		n := nsegLib(size, P)
		if n == 4 && !T {
			continue
		}
		base := ccase{Family: "duplicate-datagram", Level: "segment", Payload: P, Sender: "lib", Msgs: []msgSpec{{7, size, 1}}}
		add(base, func(emit func([]step)) {
			var rec func(cur []step)
			rec = func(cur []step) {
				if len(cur) > 0 {
					emit(cur)
				}
				if len(cur) == n+1 {
					return
				}
				for s := 0; s < n; s++ {
					rec(append(cur, step{M: 0, S: s}))
				}
			}
			rec(make([]step, 0, n+1))
		})
	}
	// F6 index beyond the announced count, at every position of an in-order arrival
	for _, size := range []int{P + 1, 3*P - 1} {
		n := nsegLib(size, P)
		base := ccase{Family: "index-beyond-count", Level: "segment", Payload: P, Sender: "lib", Msgs: []msgSpec{{5, size, 1}}}
		add(base, func(emit func([]step)) {
			for _, idx := range []int{n, n + 1, 0xffff} {
				bogus := step{Raw: rawString(refDatagram(5, uint16(n-1), uint16(idx), []byte("XXXX")))}
				for pos := 0; pos <= n; pos++ {
					st := append(append(append([]step{}, segSteps(0, n)[:pos]...), bogus), segSteps(0, n)[pos:]...)
					emit(st)
				}
			}
		})
	}
	// F7 every datagram of length 0..9 over {00,01,ff}, then a complete message that must get through
	alpha := []byte{0x00, 0x01, 0xff}
	var raws [][]byte
	for l := 0; l <= 9; l++ {
		total := 1
		for i := 0; i < l; i++ {
			total *= 3
		}
		for x := 0; x < total; x++ {
			b := make([]byte, l)
			y := x
			for i := range b {
				b[i] = alpha[y%3]
				y /= 3
			}
			raws = append(raws, b)
		}
	}
	then := &msgSpec{0x7fffffff, 6, 4}
	for part := 0; part < 64; part++ {
		part := part
		base := ccase{Family: "malformed-datagram", Level: "segment", Payload: P, Sender: "lib", Then: then}
		add(base, func(emit func([]step)) {
			for i := part; i < len(raws); i += 64 {
				emit([]step{{Raw: rawString(raws[i])}})
			}
		})
	}

	var famCount sync.Map
	parallel(len(blocks), func(bi int) {
		b := blocks[bi]
		p, vs := prepareSegment(&b.base)
		want := len(b.base.Msgs)
		if b.base.Then != nil {
			want++
		}
		if len(vs) > 0 || len(p.dgs) < want {
			r.record(&b.base, vs)
			e.Case(b.base.Family, caseKey(&b.base))
			if len(p.dgs) < want {
				return
			}
		}
		var n int64
		b.gen(func(st []step) {
			c := b.base
			c.Steps = st
			n++
			if vs := evalSegment(&c, p); len(vs) > 0 {
				c.Steps = append([]step{}, st...)
				r.record(&c, vs)
			}
			if n%4099 == 1 {
				c.Steps = append([]step{}, st...)
				r.sample(&c)
			}
		})
		cnt, _ := famCount.LoadOrStore(b.base.Family, new(int64))
		atomic.AddInt64(cnt.(*int64), n)
	})
	famCount.Range(func(k, v any) bool { e.CaseN(k.(string), *v.(*int64)); return true })

	phase("segment-level enumeration")
	// F8 sender errors: the k-th SendDatagram fails
	for size := 0; size <= 4*P+1; size++ {
		for k := 1; k <= nsegLib(size, P); k++ {
			c := ccase{Family: "sender-error", Level: "segment", Payload: P, Sender: "lib", Msgs: []msgSpec{{3, size, 1}}, FailAt: k}
			e.Case(c.Family, caseKey(&c))
			r.record(&c, eval(&c))
		}
	}

	// F9 expiry through the package clock (sequential: the clock is a package variable)
	const E = int64(10e9)
	for _, size := range []int{P + 1, 3*P - 1, 4*P - 1} {
		n := nsegLib(size, P)
		for mask := 1; mask < 1<<n-1; mask++ { // non-empty proper subset arrives first
			var first, rest []step
			for s := 0; s < n; s++ {
				if mask&(1<<s) != 0 {
					first = append(first, step{M: 0, S: s})
				} else {
					rest = append(rest, step{M: 0, S: s})
				}
			}
			for _, adv := range []int64{E - 1, E + 1, 2 * E} {
				for _, seq := range wrapSeqs {
					st := append(append([]step{}, first...), step{Adv: adv}, step{Expire: true})
					st = append(st, rest...)
					st = append(st, first...) // after a real expiry the message completes only now
					c := ccase{Family: "expiry", Level: "segment", Payload: P, Sender: "lib", Msgs: []msgSpec{{seq, size, 1}}, Steps: st, Expiry: E}
					e.Case(c.Family, caseKey(&c))
					r.record(&c, eval(&c))
				}
			}
			// RemoveExpired without time passing forgets nothing
			st := append(append([]step{}, first...), step{Expire: true})
			st = append(st, rest...)
			c := ccase{Family: "expiry", Level: "segment", Payload: P, Sender: "lib", Msgs: []msgSpec{{9, size, 1}}, Steps: st, Expiry: E}
			e.Case(c.Family, caseKey(&c))
			r.record(&c, eval(&c))
		}
	}
	// two partial messages of different age: only the older one is forgotten
	for _, d1 := range []int64{1, E / 2, E - 1} {
		st := []step{{M: 0, S: 0}, {Adv: d1}, {M: 1, S: 1}, {Adv: E + 1 - d1}, {Expire: true}, {M: 1, S: 0}, {M: 0, S: 1}, {Adv: E + 1}, {Expire: true}, {M: 0, S: 0}}
		c := ccase{Family: "expiry", Level: "segment", Payload: P, Sender: "lib", Msgs: []msgSpec{{0xffffffff, P + 1, 1}, {0, P + 2, 2}}, Steps: st, Expiry: E}
		e.Case(c.Family, caseKey(&c))
		r.record(&c, eval(&c))
	}

	phase("sender errors, expiry")
	// F10 the same through the QUIC transport's unreliable path (fake connection, child processes)
	var qc []ccase
	qN := 4
	if T {
		qN = 7
	}
	for size := 0; size <= 6*P+1; size++ {
		n := nsegLib(size, P)
		items := segSteps(0, n)
		base := ccase{Family: "perm-loss", Level: "quic", Payload: P, Sender: "lib", Msgs: []msgSpec{{0, size, 1}}, AutoSeq: true, Then: &msgSpec{1, 6, 9}}
		emit := func(st []step) { c := base; c.Steps = append([]step{}, st...); qc = append(qc, c) }
		if n <= qN {
			arrangements(items, emit)
		} else {
			reducedArrivals(items, emit)
		}
	}
	qsizes := []int{P, 2*P - 1, 3*P - 1}
	if T {
		qsizes = sizes3
	}
	for _, sa := range qsizes {
		for _, sb := range qsizes {
			for _, sp := range seqPairs {
				items := append(segSteps(0, nsegLib(sa, P)), segSteps(1, nsegLib(sb, P))...)
				base := ccase{Family: "interleave-2", Level: "quic", Payload: P, Sender: "lib", Msgs: []msgSpec{{sp[0], sa, 1}, {sp[1], sb, 2}}}
				if sp[0]+1 == sp[1] && sp[0] == 0 {
					base.AutoSeq = true // the transport's own numbering: first message 0, second 1
				}
				arrangements(items, func(st []step) { c := base; c.Steps = append([]step{}, st...); qc = append(qc, c) })
			}
		}
	}
	// wrap-around of the transport's own counter: messages numbered 2^32-1 and then (automatically) 0
	for _, sa := range qsizes {
		for _, sb := range qsizes {
			items := append(segSteps(0, nsegLib(sa, P)), segSteps(1, nsegLib(sb, P))...)
			base := ccase{Family: "sequence-wrap", Level: "quic", Payload: P, Sender: "lib", Msgs: []msgSpec{{0xffffffff, sa, 1}, {0, sb, 2}}, AutoSeq: true}
			arrangements(items, func(st []step) { c := base; c.Steps = append([]step{}, st...); qc = append(qc, c) })
		}
	}
	for _, raw := range raws {
		if !T && len(raw) > 4 && bytes.IndexByte(raw, 0x01) >= 0 {
			continue // quick: lengths 0..4 over {00,01,ff}, lengths 5..9 over {00,ff} (each short one costs a process)
		}
		qc = append(qc, ccase{Family: "malformed-datagram", Level: "quic", Payload: P, Sender: "lib", Steps: []step{{Raw: rawString(raw)}}, Then: then})
	}
	for _, size := range []int{P + 1, 3*P - 1} {
		n := nsegLib(size, P)
		for _, idx := range []int{n, 0xffff} {
			for pos := 0; pos <= n; pos++ {
				bogus := step{Raw: rawString(refDatagram(0, uint16(n-1), uint16(idx), []byte("XXXX")))}
				st := append(append(append([]step{}, segSteps(0, n)[:pos]...), bogus), segSteps(0, n)[pos:]...)
				qc = append(qc, ccase{Family: "index-beyond-count", Level: "quic", Payload: P, Sender: "lib", Msgs: []msgSpec{{0, size, 1}}, AutoSeq: true, Steps: st})
			}
		}
	}
	spawned := runInChildren(qc, runtime.NumCPU(), func(i int, vs []viol) {
		r.record(&qc[i], vs)
		r.sample(&qc[i])
	})
	qfam := map[string]int64{}
	for i := range qc {
		qfam[qc[i].Family+"@quic-transport"]++
	}
	for k, n := range qfam {
		e.CaseN(k, n)
	}

	phase("quic transport (children)")
	// F11 the sender's refusal boundary: max segment index 65534 / 65535 / 65536, with the
	// enumeration payload size and with the real one (sequential: large messages)
	for _, payload := range []int{P, 0} {
		setPayload(payload)
		pp := curPayload
		for _, size := range []int{65535*pp - 1, 65535 * pp, 65536*pp - 1, 65536 * pp, 65536*pp + 1} {
			for _, rev := range []bool{false, true} {
				c := ccase{Family: "sender-boundary", Level: "segment", Payload: payload, Sender: "lib", Msgs: []msgSpec{{0xffffffff, size, 1}}, InOrder: !rev, Reverse: rev}
				e.Case(c.Family, caseKey(&c))
				r.record(&c, eval(&c))
			}
		}
		runtime.GC()
	}
	setPayload(P)
	phase("sender boundary")

	r.flush()
	rule := fmt.Sprintf("segment payload size %d (injected accessor). Library sender -> library receiver, compared datagram by datagram with a reference reassembler written from the documented header seq(4)|maxIndex(2)|index(2): "+
		"message sizes 0..%d x sequence numbers {0,1,2^32-1}: every ordering of every subset of the segments (= every permutation x every loss subset) for <= %d segments, in-order/reverse/rotations/single losses beyond, each followed by a second message re-using the sequence number; "+
		"reference (canonical) sender -> library receiver likewise; two in-flight messages (<=3 segments each, adjacent sequence numbers incl. the wrap 2^32-1 -> 0): every arrival sequence of the union; %s"+
		"repeated datagrams: every word of length <= n+1 over the segments; index beyond the announced count at every position; every datagram of length 0..9 over {00,01,ff} followed by a complete message; "+
		"k-th SendDatagram failing; expiry through the package clock (expiry-1ns, +1ns, x2; two messages of different age); sender boundary sizes {65535p-1, 65535p, 65536p-1, 65536p, 65536p+1} for p=%d and the real p=%d, in order and reversed; "+
		"and perm-loss (<= %d segments), two-message arrival sequences, counter wrap, the odd datagrams (thorough: all 29524; quick: lengths 0..4 over {00,01,ff} and 5..9 over {00,ff}) and index-beyond-count again through transport/quic's unreliable path on a fake quic.Connection, every such case in a sacrificial child process (%d children were started). "+
		"NOT covered here: the mode-S part of C14 (two goroutines calling Receive/RemoveExpired concurrently); webtransport's unreliable path (same segment code, needs a real session); expiry through the transport's real-time ticker.",
		P, maxSize, fullN, map[bool]string{true: "three in-flight messages: every arrival sequence for unions <= 7 segments, every order-preserving interleaving x every loss subset for 8..9; ", false: ""}[T], P, realPayload, qN, spawned)
	skipped := atomic.LoadInt64(&skippedAfterHangs)
	if skipped > 0 {
		rule += fmt.Sprintf(" %d cases of the quic transport family were skipped after %d hang verdicts (each costs a 30 s watchdog).", skipped, atomic.LoadInt64(&hangVerdicts))
	}
	e.Finish(rule, skipped == 0, map[string]any{"payload_size": P, "real_payload_size": realPayload, "child_processes": spawned, "skipped_after_hangs": skipped},
		[]string{"QUIC neither duplicates nor corrupts DATAGRAM frames; the duplicate-datagram family goes beyond the stated fault model (reported under its own signature)",
			"two in-flight messages never share a sequence number unless the first one completed or expired",
			"the fake quic.Connection delivers datagrams in the enumerated order; an end-marker message makes 'nothing more is handed up' observable without timing"})
}
