// c19: the multi-transport routes writes to the selected member and merges all reads (modes I + S).
package main

import (
	"context"
	"fmt"
	"sort"
	"strings"
	"time"

	"github.com/aptpod/iscp-go/internal/vh/lib"
	"github.com/aptpod/iscp-go/internal/vsched"
	"github.com/aptpod/iscp-go/transport"
	"github.com/aptpod/iscp-go/transport/multi"
)

type params struct {
	Members []string
	Initial string
	Sched   string   // event | nic | rr | lastused
	Events  []string // ids (event), NIC names (nic); for polling schedulers: number of ticks = len(Events)
	Reads   []string // members on which a message arrives (one per step, "" none; "a+a+b" = a burst delivered at once)
	P       int
	FailClose string // member whose Close returns an error
	Backlog   int    // messages the members deliver before the application starts to read (the merge queue holds 1024)
	StallSelect string // (with Stall) member selected while the Write is stuck; a second Write follows
	Stall     string // member whose Write stalls (back pressure) until it is closed; Close is called while a Write is stuck in it
}

func (p params) name() string {
	if p.Backlog > 0 {
		return fmt.Sprintf("%s/init=%q/%s/%s/reads=%s/P%d/backlog=%d", strings.Join(p.Members, ""), p.Initial, p.Sched, strings.Join(p.Events, ","), strings.Join(p.Reads, ","), p.P, p.Backlog)
	}
	if p.StallSelect != "" {
		return fmt.Sprintf("%s/init=%q/P%d/stall=%s/then-select=%s", strings.Join(p.Members, ""), p.Initial, p.P, p.Stall, p.StallSelect)
	}
	if p.Stall != "" {
		return fmt.Sprintf("%s/init=%q/%s/%s/reads=%s/P%d/stall=%s", strings.Join(p.Members, ""), p.Initial, p.Sched, strings.Join(p.Events, ","), strings.Join(p.Reads, ","), p.P, p.Stall)
	}
	return fmt.Sprintf("%s/init=%q/%s/%s/reads=%s/P%d/fc=%s", strings.Join(p.Members, ""), p.Initial, p.Sched, strings.Join(p.Events, ","), strings.Join(p.Reads, ","), p.P, p.FailClose)
}

func seqs(alpha []string, maxLen int) [][]string {
	out := [][]string{{}}
	var rec func(cur []string)
	rec = func(cur []string) {
		if len(cur) == maxLen {
			return
		}
		for _, a := range alpha {
			n := append(append([]string{}, cur...), a)
			out = append(out, n)
			rec(n)
		}
	}
	rec(nil)
	return out
}

func scenarios(tier string) []vlib.Scenario {
	var out []vlib.Scenario
	add := func(p params) { out = append(out, vlib.Scenario{Name: p.name(), P: p}) }
	memberSets := [][]string{{"a", "b"}, {"a", "b", "c"}}
	maxLen := 2
	if tier == "thorough" {
		maxLen = 3
	}
	for _, ms := range memberSets {
		ids := append(append([]string{}, ms...), "", "x")
		for _, init := range ids {
			for _, ev := range seqs(ids, maxLen) {
				if len(ms) == 3 && len(ev) == maxLen && tier != "thorough" && init != "a" {
					continue
				}
				add(params{Members: ms, Initial: init, Sched: "event", Events: ev, Reads: []string{"b", "a"}})
			}
		}
		// NIC events incl. a NIC nobody mapped
		for _, ev := range seqs([]string{"nicA", "nicB", "nicUnknown"}, maxLen) {
			add(params{Members: ms, Initial: "a", Sched: "nic", Events: ev, Reads: []string{"a"}})
		}
		for _, sch := range []string{"rr", "lastused"} {
			for _, init := range []string{"a", "b"} {
				for _, rd := range seqs(ms, 2) {
					add(params{Members: ms, Initial: init, Sched: sch, Events: []string{"t", "t", "t"}, Reads: rd})
				}
			}
		}
	}
	// bursts: several messages on one member (and across members) before the consumer gets to read
	for _, ms := range memberSets {
		for _, burst := range []string{"a+a", "a+a+a", "a+b+a", "b+b+a+a"} {
			add(params{Members: ms, Initial: "a", Sched: "event", Events: []string{"b"}, Reads: []string{burst, "b+b"}})
		}
		// a member whose Close fails must not keep the others open
		for _, fc := range ms {
			add(params{Members: ms, Initial: "a", Sched: "event", Events: []string{"b"}, Reads: []string{"a"}, FailClose: fc})
		}
	}
	add(params{Members: []string{"a", "b"}, Initial: "a", Sched: "event", Events: []string{"b", "a"}, Reads: []string{"a", "b"}, P: 2})
	// a reader that starts late: more messages than the merge queue holds are waiting, none may be lost
	add(params{Members: []string{"a", "b"}, Initial: "a", Sched: "event", Events: []string{"b"}, Reads: []string{"a"}, Backlog: 1100})
	// Close while a Write is stuck inside the selected member
	add(params{Members: []string{"a", "b"}, Initial: "a", Sched: "event", Events: []string{"a"}, Reads: []string{"b"}, Stall: "a"})
	add(params{Members: []string{"a", "b", "c"}, Initial: "a", Sched: "event", Events: []string{"b"}, Reads: []string{"a"}, Stall: "b", P: 1})
	add(params{Members: []string{"a", "b"}, Initial: "a", Sched: "event", Events: []string{"a"}, Reads: []string{"b"}, Stall: "a", StallSelect: "b"})
	add(params{Members: []string{"a", "b"}, Initial: "a", Sched: "event", Events: []string{"a"}, Reads: []string{"b"}, Stall: "a", StallSelect: "b", P: 1})
	add(params{Members: []string{"a", "b"}, Initial: "a", Sched: "lastused", Events: []string{"t", "t"}, Reads: []string{"b", "a"}, P: 1})
	if tier == "thorough" {
		add(params{Members: []string{"a", "b", "c"}, Initial: "b", Sched: "event", Events: []string{"c", "x", "a"}, Reads: []string{"a", "b", "c"}, P: 2})
		add(params{Members: []string{"a", "b"}, Initial: "a", Sched: "rr", Events: []string{"t", "t", "t"}, Reads: []string{"b", "a"}, P: 2})
	}
	return out
}

func config(sc vlib.Scenario, tier string) vsched.Config {
	p := sc.P.(params)
	cfg := vsched.Config{Preempt: 1, Switch: 1, SelCase: 1, Stall: 1, Timer: -1, Horizon: 60 * time.Second, MaxSteps: 200000}
	cfg.Budget[vsched.BudP] = p.P
	cfg.Scope = func(site string) bool { return strings.HasPrefix(site, "transport/multi.") || strings.HasPrefix(site, "internal/ch.") }
	return cfg
}

type member struct {
	stalled bool
	id     string
	failClose bool
	n      int
	inbox  [][]byte
	log    []string
	closed bool
	rx, tx uint64
}

func (m *member) Read() ([]byte, error) {
	vsched.WaitUntil("member-read:"+m.id, func() bool { return len(m.inbox) > 0 || m.closed })
	if len(m.inbox) > 0 {
		b := m.inbox[0]
		m.inbox = m.inbox[1:]
		m.rx += uint64(len(b))
		return b, nil
	}
	return nil, transport.ErrAlreadyClosed
}
func (m *member) Write(b []byte) error {
	vsched.Yield("h:member-write")
	if m.stalled {
		vsched.WaitUntil("member-write-stalled:"+m.id, func() bool { return m.closed })
	}
	if m.closed {
		return transport.ErrAlreadyClosed
	}
	m.log = append(m.log, string(b))
	m.tx += uint64(len(b))
	return nil
}
func (m *member) Close() error {
	vsched.Yield("h:member-close")
	m.closed = true
	if m.failClose {
		return fmt.Errorf("fake: close of %s failed", m.id)
	}
	return nil
}
func (m *member) CloseWithStatus(transport.CloseStatus) error         { return m.Close() }
func (m *member) RxBytesCounterValue() uint64                         { return m.rx }
func (m *member) TxBytesCounterValue() uint64                         { return m.tx }
func (m *member) AsUnreliable() (transport.UnreliableTransport, bool) { return nil, false }
func (m *member) Name() transport.Name                                { return transport.Name("fake-" + m.id) }
func (m *member) NegotiationParams() transport.NegotiationParams {
	return transport.NegotiationParams{TransportID: transport.TransportID(m.id), TransportGroupID: "g", TransportGroupTotalCount: m.n}
}

type nicListener struct{ ch chan string }

func (n *nicListener) Subscribe() <-chan string { return n.ch }

type step struct {
	write   string
	applied []string // ids the scheduler had emitted before this write (valid or not)
	landed  string
	err     error
	neg     string
}

type world struct {
	stuckErr  error
	secondErr error
	secondDone, secondInTime, secondLanded bool
	stuckDone bool
	p        params
	members  map[string]*member
	newErr   error
	steps    []step
	readsGot []string
	readsSent []string
	closeErr error
	closedAll bool
	rxSum, txSum uint64
	rxWant, txWant uint64
	phase    string
	emitted  []string
}

func (w *world) main() {
	w.members = map[string]*member{}
	tm := multi.TransportMap{}
	for _, id := range w.p.Members {
		m := &member{id: id, n: len(w.p.Members), failClose: id == w.p.FailClose}
		w.members[id] = m
		tm[transport.TransportID(id)] = m
	}
	cfg := multi.TransportConfig{TransportMap: tm, InitialTransportID: transport.TransportID(w.p.Initial)}
	var evCh chan transport.TransportID
	var nic *nicListener
	switch w.p.Sched {
	case "event":
		evCh = make(chan transport.TransportID)
		cfg.SchedulerMode = multi.SchedulerModeEvent
		cfg.EventScheduler = &multi.EventScheduler{Subscriber: multi.EventSchedulerFunc(func(ctx context.Context) <-chan transport.TransportID { return evCh })}
	case "nic":
		nic = &nicListener{ch: make(chan string)}
		cfg.SchedulerMode = multi.SchedulerModeEvent
		cfg.EventScheduler = &multi.EventScheduler{Subscriber: &multi.NICEventSubscriber{NICManager: nic, NICTransportID: map[string]transport.TransportID{"nicA": "a", "nicB": "b"}}}
	case "rr":
		var ids []transport.TransportID
		for _, id := range w.p.Members {
			ids = append(ids, transport.TransportID(id))
		}
		cfg.SchedulerMode = multi.SchedulerModePolling
		cfg.PollingScheduler = &multi.PollingScheduler{Poller: multi.NewRoundRobinPoller(ids), Interval: time.Second}
	case "lastused":
		cfg.SchedulerMode = multi.SchedulerModePolling
		cfg.PollingScheduler = &multi.PollingScheduler{Poller: multi.NewLastReadPoller(), Interval: time.Second}
	}
	tr, err := multi.NewTransport(cfg)
	if err != nil {
		w.newErr = err
		return
	}
	w.phase = "run"
	if w.p.Backlog > 0 {
		for k := 0; k < w.p.Backlog; k++ {
			mid := w.p.Members[k%len(w.p.Members)]
			msg := fmt.Sprintf("backlog-%d-%s", k, mid)
			w.members[mid].inbox = append(w.members[mid].inbox, []byte(msg))
			w.readsSent = append(w.readsSent, msg)
			w.rxWant += uint64(len(msg))
		}
		vsched.Quiesce()
	}
	// reader
	vsched.Go("h:reader", func() {
		for {
			b, err := tr.Read()
			if err != nil {
				return
			}
			w.readsGot = append(w.readsGot, string(b))
		}
	})
	doWrite := func(i int) {
		s := step{write: fmt.Sprintf("w%d", i), applied: append([]string{}, w.emitted...)}
		before := map[string]int{}
		for id, m := range w.members {
			before[id] = len(m.log)
		}
		s.err = tr.Write([]byte(s.write))
		for id, m := range w.members {
			if len(m.log) > before[id] {
				s.landed += id
			}
		}
		// the other accessors must not crash either
		tr.AsUnreliable()
		s.neg = string(tr.NegotiationParams().TransportID)
		w.steps = append(w.steps, s)
	}
	doWrite(0)
	n := len(w.p.Events)
	if len(w.p.Reads) > n {
		n = len(w.p.Reads)
	}
	for i := 0; i < n; i++ {
		if i < len(w.p.Reads) && w.p.Reads[i] != "" {
			for k, mid := range strings.Split(w.p.Reads[i], "+") {
				msg := fmt.Sprintf("r%d.%d-%s", i, k, mid)
				w.members[mid].inbox = append(w.members[mid].inbox, []byte(msg))
				w.readsSent = append(w.readsSent, msg)
				w.rxWant += uint64(len(msg))
			}
			vsched.Quiesce()
		}
		if i < len(w.p.Events) {
			ev := w.p.Events[i]
			switch w.p.Sched {
			case "event":
				k := vsched.PreSend(evCh, "h:event")
				evCh <- transport.TransportID(ev)
				k.Done()
				w.emitted = append(w.emitted, ev)
			case "nic":
				k := vsched.PreSend(nic.ch, "h:nic")
				nic.ch <- ev
				k.Done()
				w.emitted = append(w.emitted, map[string]string{"nicA": "a", "nicB": "b"}[ev])
			default:
				vsched.Sleep(time.Second+time.Millisecond, "h:tick") // just after the scheduler's tick
				w.emitted = append(w.emitted, "tick")
			}
			vsched.Quiesce()
		}
		doWrite(i + 1)
	}
	vsched.Quiesce()
	if w.p.Stall != "" {
		w.members[w.p.Stall].stalled = true
		vsched.Go("h:stuck-writer", func() { w.stuckErr = tr.Write([]byte("stuck")); w.stuckDone = true })
		vsched.Quiesce()
	}
	if w.p.Stall != "" && w.p.StallSelect != "" {
		// while that Write is stuck the scheduler selects another member: a new Write goes there, the accessors answer
		k := vsched.PreSend(evCh, "h:event")
		evCh <- transport.TransportID(w.p.StallSelect)
		k.Done()
		vsched.Quiesce()
		vsched.Go("h:second-writer", func() {
			w.secondErr = tr.Write([]byte("second"))
			tr.AsUnreliable()
			tr.NegotiationParams()
			w.secondDone = true
		})
		vsched.Sleep(5*time.Second, "h:second-writer-deadline")
		w.secondInTime = w.secondDone
		for _, l := range w.members[w.p.StallSelect].log {
			if string(l) == "second" {
				w.secondLanded = true
			}
		}
	}
	w.phase = "close"
	w.rxSum, w.txSum = tr.RxBytesCounterValue(), tr.TxBytesCounterValue()
	for _, m := range w.members {
		w.txWant += m.tx
	}
	w.closeErr = tr.Close()
	w.closedAll = true
	for _, m := range w.members {
		if !m.closed {
			w.closedAll = false
		}
	}
	vsched.Quiesce()
	w.phase = "done"
}

func run(sc vlib.Scenario, cfg vsched.Config) (*vsched.Result, vlib.Verdict) {
	w := &world{p: sc.P.(params)}
	res := vsched.Run(cfg, w.main)
	var v vlib.Verdict
	dev := res.Used[vsched.BudP] > 0
	isMember := func(id string) bool { _, ok := w.members[id]; return ok }
	if res.Outcome == vsched.Panicked {
		v.Fail("C19.panic", fmt.Sprintf("%s/sched=%s/initial-member=%v", res.Panic.Site, w.p.Sched, isMember(w.p.Initial)), "panic (initial id %q, scheduler %s, events %v): %s", w.p.Initial, w.p.Sched, w.p.Events, res.Panic.Value)
		return res, v
	}
	if w.newErr != nil {
		if isMember(w.p.Initial) {
			v.Fail("C19.config", "valid-config-rejected", "NewTransport rejected a valid configuration (initial id %q): %v", w.p.Initial, w.newErr)
		}
		v.Outcome = "rejected"
		return res, v
	}
	if !isMember(w.p.Initial) {
		v.Outcome = "accepted-nonmember-initial"
		// accepted: then it must be ignored safely (checked by the absence of panics) - but routing is unspecified
	}
	if res.Outcome != vsched.Completed {
		v.Fail("C19.blocked", w.phase, "the scenario did not complete (phase %s): %v", w.phase, res.Outcome)
		return res, v
	}
	if w.p.StallSelect != "" && (!w.secondInTime || !w.secondLanded || w.secondErr != nil) {
		v.Fail("C19.route", fmt.Sprintf("write-behind-stalled-member/returned=%v/landed=%v", w.secondInTime, w.secondLanded), "a Write is stuck in member %s, the scheduler then selected %s: the next Write (and the accessors) returned within 5 s: %v (error %v), reached %s: %v", w.p.Stall, w.p.StallSelect, w.secondInTime, w.secondErr, w.p.StallSelect, w.secondLanded)
	}
	// routing: reference "current id" model
	if isMember(w.p.Initial) && (w.p.Sched == "event" || w.p.Sched == "nic") {
		for _, s := range w.steps {
			// with deviations the application of an emitted id may lag: any prefix of the emitted ids is acceptable
			ok := false
			var accept []string
			for j := len(s.applied); j >= 0; j-- {
				cur := w.p.Initial
				for _, id := range s.applied[:j] {
					if isMember(id) {
						cur = id
					}
				}
				accept = append(accept, cur)
				if s.landed == cur {
					ok = true
				}
				if !dev {
					break
				}
			}
			if s.err != nil || !ok {
				v.Fail("C19.route", fmt.Sprintf("sched=%s/dev=%v/err=%v", w.p.Sched, dev, s.err != nil), "write %s after scheduler ids %v landed on %q (err %v), the selected member is %v", s.write, s.applied, s.landed, s.err, accept)
			}
		}
	}
	if isMember(w.p.Initial) && w.p.Sched == "rr" && !dev {
		// tick k selects members[(k-1) % n]
		for i, s := range w.steps {
			want := w.p.Initial
			if i > 0 {
				want = w.p.Members[(i-1)%len(w.p.Members)]
			}
			if s.landed != want {
				v.Fail("C19.route", "sched=rr", "round robin: write %d landed on %q, want %q", i, s.landed, want)
			}
		}
	}
	if isMember(w.p.Initial) && w.p.Sched == "lastused" && !dev {
		for i, s := range w.steps {
			want := w.p.Initial
			// at tick i the poller reports the member read last (reads happen before the tick of the same step)
			for k := 0; k < i && k < len(w.p.Events); k++ {
				last := ""
				for r := 0; r <= k && r < len(w.p.Reads); r++ {
					if w.p.Reads[r] != "" {
						last = w.p.Reads[r]
					}
				}
				if last != "" {
					want = last
				}
			}
			if s.landed != want {
				v.Fail("C19.route", "sched=lastused", "last-used poller: write %d landed on %q, want %q (reads %v)", i, s.landed, want, w.p.Reads)
			}
		}
	}
	// every message read from any member exactly once
	got := append([]string{}, w.readsGot...)
	want := append([]string{}, w.readsSent...)
	sort.Strings(got)
	sort.Strings(want)
	if strings.Join(got, ",") != strings.Join(want, ",") {
		v.Fail("C19.read", fmt.Sprintf("dev=%v", dev), "Read returned %v, the members delivered %v", w.readsGot, w.readsSent)
	}
	if !w.closedAll {
		v.Fail("C19.close", fmt.Sprintf("member-left-open/failing-close=%v", w.p.FailClose != ""), "Close did not close every member (member whose Close fails: %q)", w.p.FailClose)
	}
	if w.txSum != w.txWant || w.rxSum != w.rxWant {
		v.Fail("C19.counters", "sum", "counters tx=%d rx=%d, sums over members tx=%d rx=%d", w.txSum, w.rxSum, w.txWant, w.rxWant)
	}
	var lands []string
	for _, s := range w.steps {
		lands = append(lands, s.landed)
	}
	v.Outcome += strings.Join(lands, ">")
	return res, v
}

func main() {
	vlib.Main(&vlib.Harness{
		Property:  "C19",
		Scenarios: scenarios,
		Config:    config,
		Run:       run,
		Rule:      "modes I+S: member sets {a,b},{a,b,c} x initial id in members+{\"\",x} x scheduler {event (sequences of ids over members+{\"\",x} up to length 2/3), NIC subscriber (NICs incl. an unmapped one), polling with round-robin and last-used pollers on the virtual clock} interleaved with writes, AsUnreliable, NegotiationParams and reads arriving on any member; reference current-id model; Close and counters; deviations <= P in transport/multi",
		Assumptions: []string{"after each scheduler event the harness waits for quiescence before the next write, so 'the member selected at that moment' is well defined when no schedule deviation is spent"},
	})
}
