// Package sim is the simulated world of the mode-E harnesses: in-memory links, a dialer
// and a protocol-complete scripted broker, all written directly against the vsched API.
package sim

import (
	"fmt"

	"github.com/aptpod/iscp-go/internal/vsched"
	"github.com/aptpod/iscp-go/transport"
)

type pipe struct {
	q      [][]byte
	eof    bool // writer side closed gracefully
	broken bool // link cut
	n      uint64
}

// Link is one transport incarnation: two FIFO queues.
type Link struct {
	Idx    int
	c2s    pipe
	s2c    pipe
	Client *End
	Server *End
	Cut    bool
	// unreliable side channel
	uc2s, us2c pipe
	HasUnrel   bool
	// HoldClientWrites: the client's reliable writes block (back pressure) until it is reset
	HoldClientWrites bool
	WriteResetErr    error
	// FailedClientWrites counts the client's reliable writes that failed on the severed link
	FailedClientWrites int
	Params     transport.NegotiationParams
}

// End is one side of a link; it implements transport.Transport.
type End struct {
	l      *Link
	rd, wr *pipe
	closed bool
	name   string
	unrel  *End
	isUn   bool
}

// (Link.WriteResetErr, when set, is what a client-side Write on the severed link fails with: the WebSocket back-ends
// report close-status errors or raw socket errors there, not the library's "connection closed")
func NewLink(idx int, unreliable bool, params transport.NegotiationParams) *Link {
	l := &Link{Idx: idx, HasUnrel: unreliable, Params: params}
	l.Client = &End{l: l, rd: &l.s2c, wr: &l.c2s, name: fmt.Sprintf("client#%d", idx)}
	l.Server = &End{l: l, rd: &l.c2s, wr: &l.s2c, name: fmt.Sprintf("server#%d", idx)}
	if unreliable {
		l.Client.unrel = &End{l: l, rd: &l.us2c, wr: &l.uc2s, name: fmt.Sprintf("client-u#%d", idx), isUn: true}
		l.Server.unrel = &End{l: l, rd: &l.uc2s, wr: &l.us2c, name: fmt.Sprintf("server-u#%d", idx), isUn: true}
	}
	return l
}

// CutNow severs the link: undelivered messages are lost, both sides see errors.
// Delivered reports whether everything the server wrote has been read by the client.
func (l *Link) Delivered() bool { return len(l.s2c.q) == 0 }

func (l *Link) CutNow() {
	if l.Cut {
		return
	}
	l.Cut = true
	for _, p := range []*pipe{&l.c2s, &l.s2c, &l.uc2s, &l.us2c} {
		p.broken = true
		p.q = nil
	}
	vsched.TraceNote("link #%d cut", l.Idx)
}

func (e *End) Read() ([]byte, error) {
	if e.closed {
		return nil, transport.ErrAlreadyClosed
	}
	vsched.WaitUntil("read:"+e.name, func() bool {
		return len(e.rd.q) > 0 || e.rd.eof || e.rd.broken || e.closed
	})
	if e.closed {
		return nil, transport.ErrAlreadyClosed
	}
	if len(e.rd.q) > 0 {
		m := e.rd.q[0]
		e.rd.q = e.rd.q[1:]
		return m, nil
	}
	if e.rd.broken {
		return nil, fmt.Errorf("sim: link #%d reset: %w", e.l.Idx, transport.ErrAlreadyClosed)
	}
	return nil, transport.EOF
}

func (e *End) Write(b []byte) error {
	vsched.Yield("h:write:" + e.name)
	if e == e.l.Client && e.l.HoldClientWrites {
		vsched.WaitUntil("write-held:"+e.name, func() bool { return !e.l.HoldClientWrites || e.closed || e.wr.broken })
	}
	if e.closed {
		return transport.ErrAlreadyClosed
	}
	if e.wr.broken || e.wr.eof {
		if e == e.l.Client {
			e.l.FailedClientWrites++
		}
		if e.l.WriteResetErr != nil && e == e.l.Client {
			return fmt.Errorf("sim: link #%d reset: %w", e.l.Idx, e.l.WriteResetErr)
		}
		return fmt.Errorf("sim: link #%d reset: %w", e.l.Idx, transport.ErrAlreadyClosed)
	}
	c := make([]byte, len(b))
	copy(c, b)
	e.wr.q = append(e.wr.q, c)
	e.wr.n += uint64(len(b))
	return nil
}

func (e *End) Close() error {
	vsched.Yield("h:close:" + e.name)
	if e.closed {
		return transport.ErrAlreadyClosed
	}
	e.closed = true
	e.wr.eof = true
	if e.unrel != nil {
		e.unrel.closed = true
		e.unrel.wr.eof = true
	}
	return nil
}

func (e *End) IsClosed() bool { return e.closed }

// CloseWithStatus makes the end usable under transport/reconnect (the status is not modelled).
func (e *End) CloseWithStatus(transport.CloseStatus) error { return e.Close() }

func (e *End) RxBytesCounterValue() uint64 { return 0 }
func (e *End) TxBytesCounterValue() uint64 { return e.wr.n }
func (e *End) AsUnreliable() (transport.UnreliableTransport, bool) {
	if e.unrel == nil {
		return nil, false
	}
	return e.unrel, true
}
func (e *End) IsUnreliable()                                  {}
func (e *End) NegotiationParams() transport.NegotiationParams { return e.l.Params }
func (e *End) Name() transport.Name                           { return transport.Name("sim") }

// Pending reports the number of undelivered messages towards this end.
func (e *End) Pending() int { return len(e.rd.q) }
