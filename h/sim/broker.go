package sim

import (
	"bytes"
	"fmt"
	"sort"
	"time"

	"github.com/aptpod/iscp-go/encoding"
	"github.com/aptpod/iscp-go/encoding/protobuf"
	"github.com/aptpod/iscp-go/internal/vsched"
	"github.com/aptpod/iscp-go/message"
	"github.com/aptpod/iscp-go/transport"
	uuid "github.com/google/uuid"
)

// Event is one message seen or sent by the broker.
type Event struct {
	T    time.Duration
	Conn int    // incarnation
	Dir  string // "rx" | "tx" | "dial" | "cut" | "closed"
	Msg  message.Message
	Note string
	Un   bool // arrived on the unreliable side channel
}

// Point is one decoded data point at the broker.
type Point struct {
	ID      message.DataID
	Elapsed time.Duration
	Payload string
}

// ChunkRec is one upstream chunk received by the broker, decoded through the alias table the broker handed out.
type ChunkRec struct {
	Conn     int
	Seq      uint32
	Points   []Point
	NGroups  int
	DataIDs  []message.DataID
	BadAlias bool
	AfterClose bool
	T        time.Duration
	Un       bool
}

// UpStream is the broker's view of one upstream.
type UpStream struct {
	ID        uuid.UUID
	Ord       int
	QoS       message.QoS
	Alias     map[int]uint32            // per incarnation
	DataAlias map[uint32]message.DataID // alias -> id (as handed out)
	RevAlias  map[message.DataID]uint32
	Chunks    []*ChunkRec
	Close     *message.UpstreamCloseRequest
	CloseConn int
	Resumes   []int // incarnations on which a resume request arrived
	AcksSent  []*message.UpstreamChunkResult
	Held      []*message.UpstreamChunkResult
	Open      *message.UpstreamOpenRequest
	nextAlias uint32
}

// DownStream is the broker's view of one downstream.
type DownStream struct {
	ID       uuid.UUID
	Ord      int
	Alias    uint32
	Open     *message.DownstreamOpenRequest
	Acks     []*message.DownstreamChunkAck
	AckConn  []int
	MetaAcks []*message.DownstreamMetadataAck
	Close    *message.DownstreamCloseRequest
	Resumes  []int
	AcksAtClose int
}

// BConn is one accepted transport incarnation on the broker side.
type BConn struct {
	Idx     int
	DialNo  int // which dial attempt (0-based, counting refused ones) created this incarnation
	Link    *Link
	tr      *encoding.Transport
	utr     *encoding.Transport
	Connect *message.ConnectRequest
	Silent  bool // stopped answering (still reads)
	upAlias map[uint32]*UpStream
	dnAlias map[uint32]*DownStream
	nextUpAlias uint32
	Disconnect *message.Disconnect
	Dead    bool
	rxCount map[string]int
}

// Script customises the broker. Every hook may be nil (default behaviour: a well-behaved broker).
type Script struct {
	// AcceptDial decides whether dial number n (0-based) succeeds, and after which virtual delay.
	AcceptDial func(n int, cfg transport.DialConfig) (ok bool, delay time.Duration)
	// Fault is consulted at every message boundary; it returns what to do.
	Fault func(c *BConn, when string, m message.Message) FaultKind
	// ConnectResult is the result code of the connect response.
	ConnectResult func(c *BConn, req *message.ConnectRequest) message.ResultCode
	// AnswerPing: false = ignore this ping.
	AnswerPing func(c *BConn, p *message.Ping) (answer bool, delay time.Duration)
	// AssignDataAlias: should the open response assign aliases for the listed data ids?
	AssignDataAlias func(u *UpStream) bool
	// UpOpenResult / UpResumeResult / UpCloseResult codes.
	UpOpenResult   func(c *BConn, req *message.UpstreamOpenRequest) message.ResultCode
	UpResumeResult func(c *BConn, u *UpStream, attempt int) message.ResultCode
	UpCloseResult  func(c *BConn, u *UpStream) message.ResultCode
	// AckChunk decides what to do with the ack of a chunk: now, hold (released at quiescence).
	AckChunk func(c *BConn, u *UpStream, ch *ChunkRec) AckMode
	// ChunkResult code for a chunk.
	ChunkResult func(u *UpStream, ch *ChunkRec) message.ResultCode
	// AliasInAck: data-id aliases to announce in the ack of this chunk (ids seen in full form).
	AliasInAck func(u *UpStream, ch *ChunkRec) bool
	// ReleaseHeld is called at quiescence with the held results of a stream; it sends them in whatever shape it likes.
	ReleaseHeld func(b *Broker, c *BConn, u *UpStream)
	// AfterSend is called after a message was written to the client (e.g. to cut the link once it was delivered).
	AfterSend func(b *Broker, c *BConn, m message.Message)
	DownOpenResult   func(c *BConn, req *message.DownstreamOpenRequest) message.ResultCode
	DownResumeResult func(c *BConn, d *DownStream, attempt int) message.ResultCode
	// OnMessage is called for every received message before default processing; return true to skip the default.
	OnMessage func(b *Broker, c *BConn, m message.Message) bool
	// OnIdle is called by the background thread at quiescence (after held acks were released); return true if it did something.
	OnIdle func(b *Broker) bool
	// CallAck decides the ack for an upstream call.
	CallAck func(c *BConn, call *message.UpstreamCall) (send bool, code message.ResultCode)
	MetaAck func(c *BConn, m *message.UpstreamMetadata) (send bool, code message.ResultCode)
	Unreliable bool // links offer an unreliable side channel
	AckDelay   time.Duration
	// AliasFromZero: upstream aliases are numbered 0,1,2.. per incarnation (default: 11,12.. / 21,22..)
	AliasFromZero bool
	// ReuseUpAlias: an upstream alias freed by a close is handed out again (the lowest free one from 1)
	ReuseUpAlias bool
}

type FaultKind int

const (
	NoFault FaultKind = iota
	FaultCut               // sever the link now
	FaultSilent            // stop answering from now on (keeps reading)
	FaultDrop              // drop this message (do not process / do not send)
)

type AckMode int

const (
	AckNow AckMode = iota
	AckHold
	AckNever
	AckDelay // sent after Script.AckDelay of virtual time (default 1s)
)

// Broker is the scripted peer.
type Broker struct {
	S       *Script
	Conns   []*BConn
	Dials   int
	DialLog []transport.DialConfig
	Events  []Event
	Ups     []*UpStream
	Downs   []*DownStream
	upByID  map[uuid.UUID]*UpStream
	dnByID  map[uuid.UUID]*DownStream
	Calls   []*message.UpstreamCall
	Metas   []*message.UpstreamMetadata
	Pongs   []*message.Pong
	Pings   []Event
	resumeAttempts map[uuid.UUID]int
	stop    bool
	bgStarted bool
	Strays  []Event // messages that could not be attributed (unknown alias etc.)
}

func NewBroker(s *Script) *Broker {
	if s == nil {
		s = &Script{}
	}
	return &Broker{S: s, upByID: map[uuid.UUID]*UpStream{}, dnByID: map[uuid.UUID]*DownStream{}, resumeAttempts: map[uuid.UUID]int{}}
}

// StreamUUID gives deterministic stream ids.
func StreamUUID(kind byte, n int) uuid.UUID {
	var u uuid.UUID
	u[0] = kind
	u[15] = byte(n)
	u[14] = byte(n >> 8)
	return u
}

func (b *Broker) ev(c *BConn, dir string, m message.Message, note string) {
	idx := -1
	if c != nil {
		idx = c.Idx
	}
	b.Events = append(b.Events, Event{T: vsched.Now(), Conn: idx, Dir: dir, Msg: m, Note: note})
}

// Dialer returns the transport.Dialer to register with the library.
func (b *Broker) Dialer() transport.Dialer {
	return transport.DialerFunc(func(cfg transport.DialConfig) (transport.Transport, error) {
		n := b.Dials
		b.Dials++
		b.DialLog = append(b.DialLog, cfg)
		ok, delay := true, time.Duration(0)
		if b.S.AcceptDial != nil {
			ok, delay = b.S.AcceptDial(n, cfg)
		}
		if delay > 0 {
			vsched.Sleep(delay, "h:dial-delay")
		} else {
			vsched.Yield("h:dial")
		}
		if !ok {
			b.ev(nil, "dial", nil, fmt.Sprintf("dial %d refused", n))
			return nil, fmt.Errorf("sim: dial refused")
		}
		l := NewLink(len(b.Conns), b.S.Unreliable, cfg.NegotiationParams())
		c := &BConn{Idx: len(b.Conns), DialNo: n, Link: l, upAlias: map[uint32]*UpStream{}, dnAlias: map[uint32]*DownStream{}, rxCount: map[string]int{}}
		c.tr = encoding.NewTransport(&encoding.TransportConfig{Transport: l.Server, Encoding: protobuf.NewEncoding()})
		if l.Server.unrel != nil {
			c.utr = encoding.NewTransport(&encoding.TransportConfig{Transport: l.Server.unrel, Encoding: protobuf.NewEncoding()})
		}
		b.Conns = append(b.Conns, c)
		b.ev(c, "dial", nil, fmt.Sprintf("dial %d accepted", n))
		vsched.Go("h:broker-conn", func() { b.serve(c) })
		if c.utr != nil {
			vsched.Go("h:broker-uconn", func() { b.serveUnreliable(c) })
		}
		if !b.bgStarted {
			b.bgStarted = true
			vsched.Go("h:broker-bg", b.background)
		}
		return l.Client, nil
	})
}

// Stop ends the background thread.
func (b *Broker) Stop() { b.stop = true }

func (b *Broker) background() {
	for !b.stop {
		vsched.QuiesceP(1)
		if b.stop {
			return
		}
		did := false
		for _, c := range b.Conns {
			if c.Dead || c.Silent {
				continue
			}
			for _, u := range b.Ups {
				if len(u.Held) == 0 {
					continue
				}
				if _, ok := u.Alias[c.Idx]; !ok {
					continue
				}
				did = true
				if b.S.ReleaseHeld != nil {
					b.S.ReleaseHeld(b, c, u)
				} else {
					b.SendAck(c, u, u.Held, nil)
					u.Held = nil
				}
			}
		}
		if b.S.OnIdle != nil && b.S.OnIdle(b) {
			did = true
		}
		if !did {
			// nothing to do: wait until something changes
			n := len(b.Events)
			vsched.WaitUntil("broker-bg", func() bool { return b.stop || len(b.Events) != n })
		}
	}
}

// Send transmits a message to the client (subject to the fault hook).
func (b *Broker) Send(c *BConn, m message.Message) bool {
	if c.Dead {
		return false
	}
	if b.fault(c, "tx", m) {
		return false
	}
	if c.Silent {
		return false
	}
	if err := c.tr.Write(m); err != nil {
		b.ev(c, "tx", m, "write failed: "+err.Error())
		return false
	}
	b.ev(c, "tx", m, "")
	if b.S.AfterSend != nil {
		b.S.AfterSend(b, c, m)
	}
	return true
}

// SendUnreliable transmits on the side channel (falls back to the reliable one).
func (b *Broker) SendUnreliable(c *BConn, m message.Message) bool {
	if c.utr == nil {
		return b.Send(c, m)
	}
	if c.Dead || c.Silent {
		return false
	}
	if err := c.utr.Write(m); err != nil {
		return false
	}
	b.Events = append(b.Events, Event{T: vsched.Now(), Conn: c.Idx, Dir: "tx", Msg: m, Un: true})
	return true
}

// fault applies the fault hook; it returns true when the message must not be processed/sent.
func (b *Broker) fault(c *BConn, dir string, m message.Message) bool {
	if b.S.Fault == nil {
		return false
	}
	switch b.S.Fault(c, dir, m) {
	case FaultCut:
		b.Cut(c)
		return true
	case FaultSilent:
		c.Silent = true
		b.ev(c, "silent", m, dir)
		return dir == "tx"
	case FaultDrop:
		b.ev(c, "drop", m, dir)
		return true
	}
	return false
}

// Cut severs incarnation c.
func (b *Broker) Cut(c *BConn) {
	if c.Dead {
		return
	}
	c.Dead = true
	c.Link.CutNow()
	b.ev(c, "cut", nil, "")
}

// CloseConn closes incarnation c gracefully from the broker side.
func (b *Broker) CloseConn(c *BConn) {
	if c.Dead {
		return
	}
	c.Dead = true
	c.Link.Server.Close()
	b.ev(c, "closed", nil, "")
}

func (b *Broker) serveUnreliable(c *BConn) {
	for {
		m, err := c.utr.Read()
		if err != nil {
			return
		}
		b.Events = append(b.Events, Event{T: vsched.Now(), Conn: c.Idx, Dir: "rx", Msg: m, Un: true})
		if ch, ok := m.(*message.UpstreamChunk); ok {
			b.handleChunk(c, ch, true)
		}
	}
}

func (b *Broker) serve(c *BConn) {
	for {
		m, err := c.tr.Read()
		if err != nil {
			if !c.Dead {
				b.ev(c, "closed", nil, "read: "+err.Error())
				c.Dead = true
				c.Link.Server.Close()
			}
			return
		}
		name := fmt.Sprintf("%T", m)
		c.rxCount[name]++
		b.ev(c, "rx", m, "")
		if b.fault(c, "rx", m) {
			if c.Dead {
				return
			}
			continue
		}
		if b.S.OnMessage != nil && b.S.OnMessage(b, c, m) {
			continue
		}
		b.handle(c, m)
		if c.Dead {
			// keep draining nothing: link is gone
			return
		}
	}
}

func (b *Broker) nextAlias(c *BConn) uint32 {
	if b.S.ReuseUpAlias {
		for a := uint32(1); ; a++ {
			if _, used := c.upAlias[a]; !used {
				return a
			}
		}
	}
	c.nextUpAlias++
	if b.S.AliasFromZero {
		return c.nextUpAlias - 1
	}
	return c.nextUpAlias + uint32(10*(c.Idx+1))
}

// HandleDefault processes m with the default behaviour (used by scripts that delay a message).
func (b *Broker) HandleDefault(c *BConn, m message.Message) { b.handle(c, m) }

func (b *Broker) handle(c *BConn, m message.Message) {
	switch m := m.(type) {
	case *message.ConnectRequest:
		c.Connect = m
		code := message.ResultCodeSucceeded
		if b.S.ConnectResult != nil {
			code = b.S.ConnectResult(c, m)
		}
		b.Send(c, &message.ConnectResponse{RequestID: m.RequestID, ProtocolVersion: m.ProtocolVersion, ResultCode: code, ResultString: "connect"})
	case *message.Ping:
		b.Pings = append(b.Pings, Event{T: vsched.Now(), Conn: c.Idx, Dir: "rx", Msg: m})
		ans, delay := true, time.Duration(0)
		if b.S.AnswerPing != nil {
			ans, delay = b.S.AnswerPing(c, m)
		}
		if !ans {
			return
		}
		if delay > 0 {
			id := m.RequestID
			vsched.AfterFunc(delay, "h:pong-delay", func() {
				vsched.Spawn("h:pong", func() { b.Send(c, &message.Pong{RequestID: id}) })
			})
			return
		}
		b.Send(c, &message.Pong{RequestID: m.RequestID})
	case *message.Pong:
		b.Pongs = append(b.Pongs, m)
	case *message.Disconnect:
		c.Disconnect = m
		b.CloseConn(c)
	case *message.UpstreamOpenRequest:
		code := message.ResultCodeSucceeded
		if b.S.UpOpenResult != nil {
			code = b.S.UpOpenResult(c, m)
		}
		if code != message.ResultCodeSucceeded {
			b.Send(c, &message.UpstreamOpenResponse{RequestID: m.RequestID, ResultCode: code, ResultString: "refused"})
			return
		}
		u := &UpStream{ID: StreamUUID('u', len(b.Ups)+1), Ord: len(b.Ups), QoS: m.QoS, Alias: map[int]uint32{}, DataAlias: map[uint32]message.DataID{}, RevAlias: map[message.DataID]uint32{}, Open: m}
		b.Ups = append(b.Ups, u)
		b.upByID[u.ID] = u
		al := b.nextAlias(c)
		u.Alias[c.Idx] = al
		c.upAlias[al] = u
		resp := &message.UpstreamOpenResponse{RequestID: m.RequestID, AssignedStreamID: u.ID, AssignedStreamIDAlias: al, ResultCode: code, ResultString: "OK", ServerTime: time.Unix(1700000000, 0).UTC(), DataIDAliases: map[uint32]*message.DataID{}}
		if b.S.AssignDataAlias == nil || b.S.AssignDataAlias(u) {
			for _, id := range m.DataIDs {
				if _, ok := u.RevAlias[*id]; ok {
					continue
				}
				u.nextAlias++
				a := u.nextAlias
				u.DataAlias[a] = *id
				u.RevAlias[*id] = a
				idc := *id
				resp.DataIDAliases[a] = &idc
			}
		}
		b.Send(c, resp)
	case *message.UpstreamResumeRequest:
		u := b.upByID[m.StreamID]
		if u == nil {
			b.Send(c, &message.UpstreamResumeResponse{RequestID: m.RequestID, ResultCode: message.ResultCodeStreamNotFound, ResultString: "unknown stream"})
			return
		}
		u.Resumes = append(u.Resumes, c.Idx)
		att := b.resumeAttempts[u.ID]
		b.resumeAttempts[u.ID]++
		code := message.ResultCodeSucceeded
		if b.S.UpResumeResult != nil {
			code = b.S.UpResumeResult(c, u, att)
		}
		if code != message.ResultCodeSucceeded {
			b.Send(c, &message.UpstreamResumeResponse{RequestID: m.RequestID, ResultCode: code, ResultString: "resume refused"})
			return
		}
		al := b.nextAlias(c)
		u.Alias[c.Idx] = al
		c.upAlias[al] = u
		b.Send(c, &message.UpstreamResumeResponse{RequestID: m.RequestID, AssignedStreamIDAlias: al, ResultCode: code, ResultString: "OK"})
	case *message.UpstreamChunk:
		b.handleChunk(c, m, false)
	case *message.UpstreamCloseRequest:
		u := b.upByID[m.StreamID]
		if u == nil {
			b.Strays = append(b.Strays, Event{T: vsched.Now(), Conn: c.Idx, Dir: "rx", Msg: m, Note: "close of unknown upstream"})
			b.Send(c, &message.UpstreamCloseResponse{RequestID: m.RequestID, ResultCode: message.ResultCodeStreamNotFound, ResultString: "unknown"})
			return
		}
		code := message.ResultCodeSucceeded
		if b.S.UpCloseResult != nil {
			code = b.S.UpCloseResult(c, u)
		}
		if code == message.ResultCodeSucceeded {
			u.Close = m
			u.CloseConn = c.Idx
			delete(c.upAlias, u.Alias[c.Idx])
		}
		b.Send(c, &message.UpstreamCloseResponse{RequestID: m.RequestID, ResultCode: code, ResultString: "closed"})
	case *message.UpstreamMetadata:
		b.Metas = append(b.Metas, m)
		send, code := true, message.ResultCodeSucceeded
		if b.S.MetaAck != nil {
			send, code = b.S.MetaAck(c, m)
		}
		if send {
			b.Send(c, &message.UpstreamMetadataAck{RequestID: m.RequestID, ResultCode: code, ResultString: "meta"})
		}
	case *message.UpstreamCall:
		b.Calls = append(b.Calls, m)
		send, code := true, message.ResultCodeSucceeded
		if b.S.CallAck != nil {
			send, code = b.S.CallAck(c, m)
		}
		if send {
			b.Send(c, &message.UpstreamCallAck{CallID: m.CallID, ResultCode: code, ResultString: "call"})
		}
	case *message.DownstreamOpenRequest:
		code := message.ResultCodeSucceeded
		if b.S.DownOpenResult != nil {
			code = b.S.DownOpenResult(c, m)
		}
		if code != message.ResultCodeSucceeded {
			b.Send(c, &message.DownstreamOpenResponse{RequestID: m.RequestID, ResultCode: code, ResultString: "refused"})
			return
		}
		d := &DownStream{ID: StreamUUID('d', len(b.Downs)+1), Ord: len(b.Downs), Alias: m.DesiredStreamIDAlias, Open: m}
		b.Downs = append(b.Downs, d)
		b.dnByID[d.ID] = d
		c.dnAlias[d.Alias] = d
		b.Send(c, &message.DownstreamOpenResponse{RequestID: m.RequestID, AssignedStreamID: d.ID, ResultCode: code, ResultString: "OK", ServerTime: time.Unix(1700000000, 0).UTC()})
	case *message.DownstreamResumeRequest:
		d := b.dnByID[m.StreamID]
		if d == nil {
			b.Send(c, &message.DownstreamResumeResponse{RequestID: m.RequestID, ResultCode: message.ResultCodeStreamNotFound, ResultString: "unknown stream"})
			return
		}
		d.Resumes = append(d.Resumes, c.Idx)
		att := b.resumeAttempts[d.ID]
		b.resumeAttempts[d.ID]++
		code := message.ResultCodeSucceeded
		if b.S.DownResumeResult != nil {
			code = b.S.DownResumeResult(c, d, att)
		}
		if code == message.ResultCodeSucceeded {
			c.dnAlias[m.DesiredStreamIDAlias] = d
		}
		b.Send(c, &message.DownstreamResumeResponse{RequestID: m.RequestID, ResultCode: code, ResultString: "resume"})
	case *message.DownstreamChunkAck:
		d := c.dnAlias[m.StreamIDAlias]
		if d == nil {
			b.Strays = append(b.Strays, Event{T: vsched.Now(), Conn: c.Idx, Dir: "rx", Msg: m, Note: "ack for unknown downstream alias"})
			return
		}
		if d.Close != nil {
			b.Strays = append(b.Strays, Event{T: vsched.Now(), Conn: c.Idx, Dir: "rx", Msg: m, Note: "downstream ack after close request"})
		}
		d.Acks = append(d.Acks, m)
		d.AckConn = append(d.AckConn, c.Idx)
		b.Send(c, &message.DownstreamChunkAckComplete{StreamIDAlias: m.StreamIDAlias, AckID: m.AckID, ResultCode: message.ResultCodeSucceeded, ResultString: "OK"})
	case *message.DownstreamMetadataAck:
		for _, d := range b.Downs {
			d.MetaAcks = append(d.MetaAcks, m)
		}
	case *message.DownstreamCloseRequest:
		d := b.dnByID[m.StreamID]
		if d == nil {
			b.Send(c, &message.DownstreamCloseResponse{RequestID: m.RequestID, ResultCode: message.ResultCodeStreamNotFound, ResultString: "unknown"})
			return
		}
		d.Close = m
		d.AcksAtClose = len(d.Acks)
		delete(c.dnAlias, d.Alias)
		b.Send(c, &message.DownstreamCloseResponse{RequestID: m.RequestID, ResultCode: message.ResultCodeSucceeded, ResultString: "closed"})
	default:
		b.Strays = append(b.Strays, Event{T: vsched.Now(), Conn: c.Idx, Dir: "rx", Msg: m, Note: "unexpected message type"})
	}
}

func (b *Broker) handleChunk(c *BConn, m *message.UpstreamChunk, un bool) {
	u := c.upAlias[m.StreamIDAlias]
	if u == nil {
		// maybe closed already: find by alias history
		for _, x := range b.Ups {
			if a, ok := x.Alias[c.Idx]; ok && a == m.StreamIDAlias {
				u = x
			}
		}
		if u == nil {
			b.Strays = append(b.Strays, Event{T: vsched.Now(), Conn: c.Idx, Dir: "rx", Msg: m, Note: "chunk for unknown upstream alias"})
			return
		}
	}
	rec := &ChunkRec{Conn: c.Idx, Seq: m.StreamChunk.SequenceNumber, NGroups: len(m.StreamChunk.DataPointGroups), T: vsched.Now(), Un: un, AfterClose: u.Close != nil}
	for _, id := range m.DataIDs {
		rec.DataIDs = append(rec.DataIDs, *id)
	}
	for _, g := range m.StreamChunk.DataPointGroups {
		var id message.DataID
		switch t := g.DataIDOrAlias.(type) {
		case *message.DataID:
			id = *t
		case message.DataIDAlias:
			v, ok := u.DataAlias[uint32(t)]
			if !ok {
				rec.BadAlias = true
				id = message.DataID{Name: fmt.Sprintf("?alias%d", uint32(t))}
			} else {
				id = v
			}
		}
		for _, p := range g.DataPoints {
			rec.Points = append(rec.Points, Point{ID: id, Elapsed: p.ElapsedTime, Payload: string(p.Payload)})
		}
	}
	u.Chunks = append(u.Chunks, rec)
	mode := AckNow
	if b.S.AckChunk != nil {
		mode = b.S.AckChunk(c, u, rec)
	}
	code := message.ResultCodeSucceeded
	if b.S.ChunkResult != nil {
		code = b.S.ChunkResult(u, rec)
	}
	res := &message.UpstreamChunkResult{SequenceNumber: rec.Seq, ResultCode: code, ResultString: fmt.Sprintf("r%d", rec.Seq)}
	var aliases map[uint32]*message.DataID
	if b.S.AliasInAck != nil && b.S.AliasInAck(u, rec) {
		aliases = map[uint32]*message.DataID{}
		for _, id := range rec.DataIDs {
			if _, ok := u.RevAlias[id]; ok {
				continue
			}
			u.nextAlias++
			a := u.nextAlias
			u.DataAlias[a] = id
			u.RevAlias[id] = a
			idc := id
			aliases[a] = &idc
		}
	}
	switch mode {
	case AckNow:
		b.SendAck(c, u, []*message.UpstreamChunkResult{res}, aliases)
	case AckHold:
		u.Held = append(u.Held, res)
		if len(aliases) > 0 {
			b.SendAck(c, u, nil, aliases)
		}
	case AckNever:
	case AckDelay:
		d := b.S.AckDelay
		if d == 0 {
			d = time.Second
		}
		vsched.AfterFunc(d, "h:late-ack", func() {
			vsched.Spawn("h:late-ack", func() { b.SendAck(c, u, []*message.UpstreamChunkResult{res}, aliases) })
		})
	}
}

// SendAck sends one UpstreamChunkAck for stream u on incarnation c.
func (b *Broker) SendAck(c *BConn, u *UpStream, rs []*message.UpstreamChunkResult, aliases map[uint32]*message.DataID) bool {
	al, ok := u.Alias[c.Idx]
	if !ok {
		return false
	}
	if b.Send(c, &message.UpstreamChunkAck{StreamIDAlias: al, Results: rs, DataIDAliases: aliases}) {
		u.AcksSent = append(u.AcksSent, rs...)
		return true
	}
	return false
}

// Live returns the newest incarnation that is not dead (nil if none).
func (b *Broker) Live() *BConn {
	for i := len(b.Conns) - 1; i >= 0; i-- {
		if !b.Conns[i].Dead {
			return b.Conns[i]
		}
	}
	return nil
}

// SortedPoints renders a multiset of points canonically.
func SortedPoints(ps []Point) []string {
	out := make([]string, len(ps))
	for i, p := range ps {
		out[i] = fmt.Sprintf("%s/%s@%d=%q", p.ID.Name, p.ID.Type, p.Elapsed, p.Payload)
	}
	sort.Strings(out)
	return out
}

// UnreadFromClient decodes, in order, what the client wrote on the reliable channel of c's link and the broker never
// read (the broker stops reading at the Disconnect; a real peer's socket would still receive these bytes).
func (c *BConn) UnreadFromClient() []message.Message {
	var out []message.Message
	enc := protobuf.NewEncoding()
	for _, b := range c.Link.c2s.q {
		if _, m, err := enc.DecodeFrom(bytes.NewReader(b)); err == nil {
			out = append(out, m)
		}
	}
	return out
}
