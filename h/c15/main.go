// c15: keep-alive on the virtual clock (mode E). The broker answers the first k pings, then
// falls silent or delays its pongs around the timeout; detection time is checked exactly.
package main

import (
	"fmt"
	"strings"
	"time"

	"github.com/aptpod/iscp-go/internal/vcontext"
	"github.com/aptpod/iscp-go/internal/vh/kit"
	"github.com/aptpod/iscp-go/internal/vh/lib"
	"github.com/aptpod/iscp-go/internal/vh/sim"
	"github.com/aptpod/iscp-go/internal/vsched"
	"github.com/aptpod/iscp-go/iscp"
	"github.com/aptpod/iscp-go/message"
)

type params struct {
	Interval time.Duration // 0 = library default
	Timeout  time.Duration
	K        int    // pings answered before the fault (-1: never faulty)
	Mode     string // silent | late (pong after timeout+1ms) | justintime (pong after timeout-1ms, forever) | prompt
	Traffic  bool
	BPings   bool // the broker sends pings of its own
	LateReply bool // an application request gives up (200 ms) and its answer arrives 1.5 s later; the pongs stay prompt
	Burst    int  // the broker sends this many pings at once while the client's transport write is stalled (back pressure)
	HandlerStall bool // after the redial the application's OnReconnected handler takes several keep-alive rounds while the (healthy) broker forwards ten calls
	Unread   int // a downstream the application has given up (close request unanswered) still receives this many chunks at once (more than the wire connection queues) while the broker keeps answering pings
	P        int
}

func (p params) name() string {
	if p.HandlerStall {
		return fmt.Sprintf("i%v/t%v/k%d/%s/handlerstall/P%d", p.Interval, p.Timeout, p.K, p.Mode, p.P)
	}
	if p.Unread > 0 {
		return fmt.Sprintf("i%v/t%v/k%d/%s/unread%d/P%d", p.Interval, p.Timeout, p.K, p.Mode, p.Unread, p.P)
	}
	if p.LateReply {
		return fmt.Sprintf("i%v/t%v/k%d/%s/traffic%v/latereply/P%d", p.Interval, p.Timeout, p.K, p.Mode, p.Traffic, p.P)
	}
	if p.Burst > 0 {
		return fmt.Sprintf("i%v/t%v/k%d/%s/traffic%v/burst%d/P%d", p.Interval, p.Timeout, p.K, p.Mode, p.Traffic, p.Burst, p.P)
	}
	return fmt.Sprintf("i%v/t%v/k%d/%s/traffic%v/bping%v/P%d", p.Interval, p.Timeout, p.K, p.Mode, p.Traffic, p.BPings, p.P)
}

func (p params) eff() (time.Duration, time.Duration) {
	i, t := p.Interval, p.Timeout
	if i == 0 {
		i = 10 * time.Second
	}
	if t == 0 {
		t = time.Second
	}
	return i, t
}

func scenarios(tier string) []vlib.Scenario {
	var out []vlib.Scenario
	add := func(p params) { out = append(out, vlib.Scenario{Name: p.name(), P: p}) }
	cfgs := [][2]time.Duration{{time.Second, time.Second}, {2 * time.Second, time.Second}, {10 * time.Second, time.Second}, {time.Second, 3 * time.Second}, {0, 0}, {1500 * time.Millisecond, 2500 * time.Millisecond}}
	for _, c := range cfgs {
		for _, traffic := range []bool{false, true} {
			for k := 0; k <= 3; k++ {
				add(params{Interval: c[0], Timeout: c[1], K: k, Mode: "silent", Traffic: traffic})
				add(params{Interval: c[0], Timeout: c[1], K: k, Mode: "late", Traffic: traffic})
			}
			add(params{Interval: c[0], Timeout: c[1], K: -1, Mode: "justintime", Traffic: traffic})
			add(params{Interval: c[0], Timeout: c[1], K: -1, Mode: "prompt", Traffic: traffic, BPings: true})
		}
	}
	add(params{Interval: time.Second, Timeout: time.Second, K: 1, Mode: "silent", Traffic: true, P: 1})
	add(params{Interval: time.Second, Timeout: time.Second, K: -1, Mode: "prompt", BPings: true, P: 1})
	// an answer that arrives after its caller gave up must not disturb the keep-alive of a healthy peer
	add(params{Interval: time.Second, Timeout: time.Second, K: -1, Mode: "prompt", LateReply: true})
	add(params{Interval: time.Second, Timeout: time.Second, K: -1, Mode: "prompt", LateReply: true, P: 1})
	// a peer that stops answering but keeps pinging
	for _, c := range cfgs[:4] {
		add(params{Interval: c[0], Timeout: c[1], K: 1, Mode: "silent", BPings: true})
	}
	// a peer that hangs: it stops answering and stops reading, so the client's writes stall too
	for _, c := range cfgs[:4] {
		for k := 0; k <= 2; k++ {
			add(params{Interval: c[0], Timeout: c[1], K: k, Mode: "hung"})
		}
	}
	add(params{Interval: time.Second, Timeout: time.Second, K: 1, Mode: "hung", Traffic: true, P: 1})
	// bursts of broker pings against a stalled client write (the ping hand-over queue holds 8)
	for _, n := range []int{3, 12, 40} {
		add(params{Interval: time.Second, Timeout: time.Second, K: -1, Mode: "prompt", Burst: n})
	}
	add(params{Interval: time.Second, Timeout: time.Second, K: -1, Mode: "prompt", Burst: 12, P: 1})
	// a slow application handler after the redial must not cost the healthy new connection
	// application traffic the application does not consume must not starve the keep-alive of a live peer
	add(params{Interval: time.Second, Timeout: time.Second, K: -1, Mode: "prompt", Unread: 1100})
	add(params{Interval: time.Second, Timeout: time.Second, K: 1, Mode: "silent", HandlerStall: true})
	add(params{Interval: time.Second, Timeout: time.Second, K: 1, Mode: "silent", HandlerStall: true, P: 1})
	if tier == "thorough" {
		for _, c := range cfgs[:4] {
			for k := 0; k <= 2; k++ {
				add(params{Interval: c[0], Timeout: c[1], K: k, Mode: "silent", Traffic: true, P: 1})
				add(params{Interval: c[0], Timeout: c[1], K: k, Mode: "late", Traffic: false, P: 1})
			}
			add(params{Interval: c[0], Timeout: c[1], K: -1, Mode: "justintime", Traffic: true, BPings: true, P: 1})
		}
		add(params{Interval: time.Second, Timeout: time.Second, K: 1, Mode: "silent", Traffic: true, P: 2})
	}
	return out
}

func config(sc vlib.Scenario, tier string) vsched.Config {
	p := sc.P.(params)
	cfg := vsched.Config{Preempt: 1, Switch: 1, SelCase: 1, Stall: 1, Timer: 1, Horizon: 200 * time.Second, MaxSteps: 800000}
	cfg.Budget[vsched.BudP] = p.P
	if p.P == 0 {
		cfg.Timer = -1
	}
	cfg.Scope = func(site string) bool {
		return strings.Contains(site, "keepAliveLoop") || strings.Contains(site, "sendPing") || strings.Contains(site, "readPingLoop") || strings.Contains(site, "wire.(*ClientConn).sendRequest") || strings.Contains(site, "wire.(*ClientConn).Close")
	}
	return cfg
}

type world struct {
	kit.World
	p         params
	answered  int
	silentAt  time.Duration
	faulted   bool
	faultConn int
	bpingIDs  []uint32
	horizon   time.Duration
	dialTimes []time.Duration
	discBefore int
}

func (w *world) script() *sim.Script {
	s := &sim.Script{}
	_, timeout := w.p.eff()
	if w.p.Unread > 0 {
		// the broker never answers the close request of the downstream and keeps forwarding chunks to it
		s.OnMessage = func(b *sim.Broker, c *sim.BConn, m message.Message) bool {
			_, ok := m.(*message.DownstreamCloseRequest)
			return ok
		}
	}
	if w.p.LateReply {
		s.OnMessage = func(b *sim.Broker, c *sim.BConn, m message.Message) bool {
			if _, ok := m.(*message.UpstreamMetadata); ok {
				vsched.AfterFunc(1500*time.Millisecond, "h:late-reply", func() {
					vsched.Spawn("h:late-reply", func() { b.HandleDefault(c, m) })
				})
				return true
			}
			return false
		}
	}
	s.AnswerPing = func(c *sim.BConn, p *message.Ping) (bool, time.Duration) {
		if c.Idx != 0 {
			return true, 0 // redialled incarnations are healthy
		}
		switch w.p.Mode {
		case "prompt":
			return true, 0
		case "justintime":
			return true, timeout - time.Millisecond
		}
		if w.answered < w.p.K {
			w.answered++
			w.silentAt = vsched.Now()
			if w.p.Mode == "hung" && w.answered == w.p.K {
				c.Link.HoldClientWrites = true // from now on nothing is read any more
			}
			return true, 0
		}
		if !w.faulted {
			w.faulted = true
		}
		if w.p.Mode == "late" {
			return true, timeout + time.Millisecond
		}
		return false, 0
	}
	return s
}

func (w *world) main() {
	interval, timeout := w.p.eff()
	var opts []iscp.ConnOption
	if w.p.Interval != 0 {
		opts = append(opts, iscp.WithConnPingInterval(w.p.Interval))
	} else {
		opts = append(opts, iscp.WithConnPingInterval(0))
	}
	if w.p.Timeout != 0 {
		opts = append(opts, iscp.WithConnPingTimeout(w.p.Timeout))
	} else {
		opts = append(opts, iscp.WithConnPingTimeout(0))
	}
	if w.p.HandlerStall {
		opts = append(opts, iscp.WithConnReconnectedEventHandler(iscp.ReconnectedEventHandlerFunc(func(*iscp.ReconnectedEvent) {
			w.Reconn = append(w.Reconn, vsched.Now())
			if c := w.B.Live(); c != nil {
				for i := 0; i < 10; i++ {
					w.B.Send(c, &message.DownstreamCall{CallID: fmt.Sprintf("call-%d", i), SourceNodeID: "peer", Name: "n", Type: "t"})
				}
			}
			vsched.Sleep(4*(interval+timeout), "h:slow-handler") // touches nothing of the library
		})))
	}
	if err := w.Connect(w.script(), opts...); err != nil {
		return
	}
	if w.p.Mode == "hung" && w.p.K == 0 {
		if c := w.B.Live(); c != nil {
			c.Link.HoldClientWrites = true // hangs right after the handshake
		}
	}
	w.silentAt = vsched.Now()
	w.Phase = "running"
	bg := vcontext.Background()
	w.horizon = 10*interval + 2*timeout
	if w.p.Traffic {
		sctx, scancel := kit.Ctx(5 * time.Second)
		u, err := w.OpenUp(sctx, "u0", iscp.WithUpstreamFlushPolicyIntervalOnly(100*time.Millisecond), iscp.WithUpstreamQoS(message.QoSUnreliable))
		scancel()
		if err == nil {
			vsched.Go("h:traffic", func() {
				for i := 0; vsched.Now() < w.horizon; i++ {
					wctx, wcancel := kit.Ctx(time.Second)
					u.Write(wctx, kit.IDA, fmt.Sprint(i))
					wcancel()
					vsched.Sleep(250*time.Millisecond, "h:traffic")
				}
			})
		}
	}
	if w.p.BPings && w.p.Mode != "prompt" && w.p.Mode != "justintime" {
		// a peer that stops answering the client's pings but keeps sending its own
		vsched.Go("h:bping", func() {
			for i := 0; vsched.Now() < w.horizon; i++ {
				vsched.Sleep(300*time.Millisecond, "h:bping")
				if c := w.B.Live(); c != nil && c.Idx == 0 {
					id := uint32(3001 + 2*i)
					w.bpingIDs = append(w.bpingIDs, id)
					w.B.Send(c, &message.Ping{RequestID: message.RequestID(id)})
				}
			}
		})
	} else if w.p.BPings {
		vsched.Go("h:bping", func() {
			for i := 0; i < 4; i++ {
				vsched.Sleep(interval/3+time.Duration(i)*70*time.Millisecond, "h:bping")
				if c := w.B.Live(); c != nil {
					id := uint32(1001 + 2*i)
					w.bpingIDs = append(w.bpingIDs, id)
					w.B.Send(c, &message.Ping{RequestID: message.RequestID(id)})
				}
			}
		})
	}
	if w.p.LateReply {
		mctx, mcancel := kit.Ctx(200 * time.Millisecond)
		w.Conn.SendMetadata(mctx, &message.BaseTime{SessionID: "s", Name: "abandoned"})
		mcancel()
	}
	if w.p.Burst > 0 {
		vsched.Sleep(100*time.Millisecond, "h:before-burst")
		if c := w.B.Live(); c != nil {
			c.Link.HoldClientWrites = true
			for i := 0; i < w.p.Burst; i++ {
				id := uint32(2001 + 2*i)
				w.bpingIDs = append(w.bpingIDs, id)
				w.B.Send(c, &message.Ping{RequestID: message.RequestID(id)})
			}
			vsched.Quiesce()
			c.Link.HoldClientWrites = false
		}
	}
	if w.p.Unread > 0 {
		sctx, scancel := kit.Ctx(5 * time.Second)
		d, err := w.OpenDown(sctx, "d0", kit.Filter("src"))
		scancel()
		if err == nil {
			// the application gives the stream up (its close request stays unanswered): from here on nobody drains
			// what the wire connection queues for the stream's alias
			cctx, ccancel := kit.Ctx(300 * time.Millisecond)
			d.D.Close(cctx)
			ccancel()
		}
		if c := w.B.Live(); err == nil && c != nil && len(w.B.Downs) > 0 {
			for i := 0; i < w.p.Unread; i++ {
				w.B.Send(c, &message.DownstreamChunk{
					StreamIDAlias:   w.B.Downs[0].Alias,
					UpstreamOrAlias: &message.UpstreamInfo{SessionID: "s", SourceNodeID: "src", StreamID: sim.StreamUUID('x', 1)},
					StreamChunk: &message.StreamChunk{SequenceNumber: uint32(i + 1), DataPointGroups: []*message.DataPointGroup{
						{DataIDOrAlias: &message.DataID{Name: "a", Type: "t"}, DataPoints: []*message.DataPoint{{ElapsedTime: 1, Payload: []byte("unread")}}},
					}},
				})
			}
		}
	}
	vsched.Sleep(w.horizon, "h:horizon")
	w.Phase = "closing"
	w.discBefore = len(w.Disc)
	cctx, ccancel := kit.Ctx(5 * time.Second)
	w.Conn.Close(cctx)
	ccancel()
	_ = bg
	w.B.Stop()
	w.Phase = "done"
}

func run(sc vlib.Scenario, cfg vsched.Config) (*vsched.Result, vlib.Verdict) {
	w := &world{p: sc.P.(params)}
	res := vsched.Run(cfg, w.main)
	var v vlib.Verdict
	dev := res.Used[vsched.BudP] > 0 || res.Used[vsched.BudT] > 0
	if res.Outcome == vsched.Panicked {
		v.Fail("C15.panic", res.Panic.Site, "library panic: %s", res.Panic.Value)
		return res, v
	}
	if w.ConnErr != nil || w.B == nil {
		v.Inconclusive = "connect failed"
		return res, v
	}
	if res.Outcome != vsched.Completed {
		v.Inconclusive = "not-completed:" + w.Phase
		if w.Phase == "running" {
			// the harness only sleeps on the virtual clock in this phase: a library thread spins or the keep-alive wedged the scheduler
			v.Inconclusive = ""
			v.Fail("C15.blocked", w.p.Mode, "the scenario never reached its horizon (%v): %v", w.horizon, res.Outcome)
		}
		return res, v
	}
	w.Disc = w.Disc[:w.discBefore] // the notification caused by our own final Close does not count
	interval, timeout := w.p.eff()
	// announced parameters: configured values at whole-second resolution
	if c := w.B.Conns[0].Connect; c != nil {
		wantI, wantT := interval.Truncate(time.Second), timeout.Truncate(time.Second)
		if c.PingInterval != wantI || c.PingTimeout != wantT {
			v.Fail("C15.announce", fmt.Sprintf("interval=%v/timeout=%v", c.PingInterval == wantI, c.PingTimeout == wantT), "ConnectRequest announces ping interval %v / timeout %v, configured %v / %v", c.PingInterval, c.PingTimeout, interval, timeout)
		}
	}
	// dial times
	var redialAt time.Duration = -1
	for _, e := range w.B.Events {
		if e.Dir == "dial" && e.Conn > 0 && redialAt < 0 {
			redialAt = e.T
		}
	}
	switch w.p.Mode {
	case "silent", "late", "hung":
		bound := w.silentAt + interval + timeout
		if len(w.Disc) == 0 {
			v.Fail("C15.detect", fmt.Sprintf("never/%s/dev=%v", w.p.Mode, dev), "broker %s from %v on (after %d pongs) but the client never declared the connection lost within the horizon %v", w.p.Mode, w.silentAt, w.answered, w.horizon)
		} else {
			if w.Disc[0] > bound {
				v.Fail("C15.detect", fmt.Sprintf("late/%s/dev=%v", w.p.Mode, dev), "broker %s from %v on; disconnect declared at %v, later than silent-since + interval + timeout = %v", w.p.Mode, w.silentAt, w.Disc[0], bound)
			}
			if redialAt < 0 {
				v.Fail("C15.recover", "no-redial", "connection declared lost at %v but no new ConnectRequest was dialled", w.Disc[0])
			} else if redialAt > bound {
				v.Fail("C15.recover", fmt.Sprintf("late-redial/dev=%v", dev), "redial at %v, later than %v", redialAt, bound)
			}
		}
		if w.p.HandlerStall && (len(w.Disc) > 1 || len(w.B.Conns) > 2) {
			v.Fail("C15.false-positive", fmt.Sprintf("handlerstall/dev=%v", dev), "the redialled broker answered every ping at once, yet the client gave up that connection too while the application's OnReconnected handler was running (disconnects at %v, %d incarnations)", w.Disc, len(w.B.Conns))
		}
	case "justintime", "prompt":
		if len(w.Disc) > 0 {
			v.Fail("C15.false-positive", fmt.Sprintf("%s/traffic=%v/dev=%v", w.p.Mode, w.p.Traffic, dev), "every pong arrived within the timeout (%s) but the client gave up the connection at %v", w.p.Mode, w.Disc[0])
		}
	}
	// every ping is a request of its own: ids pairwise distinct per connection and of the client's parity
	seenID := map[string]bool{}
	for _, e := range w.B.Pings {
		id := uint32(e.Msg.(*message.Ping).RequestID)
		k := fmt.Sprintf("%d/%d", e.Conn, id)
		if seenID[k] {
			v.Fail("C15.ping-id", "reused", "ping request id %d was used twice on incarnation %d", id, e.Conn)
		}
		seenID[k] = true
		if id%2 != 0 {
			v.Fail("C15.ping-id", "odd", "ping request id %d is not of the client's parity", id)
		}
	}
	// broker pings answered by exactly one pong with the same id
	for _, id := range w.bpingIDs {
		n := 0
		for _, p := range w.B.Pongs {
			if uint32(p.RequestID) == id {
				n++
			}
		}
		if n != 1 && len(w.Disc) == 0 {
			v.Fail("C15.pong", fmt.Sprintf("count=%d/dev=%v", min(n, 2), dev), "broker ping %d was answered by %d pongs", id, n)
		}
	}
	for _, p := range w.B.Pongs {
		known := false
		for _, id := range w.bpingIDs {
			if uint32(p.RequestID) == id {
				known = true
			}
		}
		if !known {
			v.Fail("C15.pong", "unsolicited", "the client sent a pong with id %d that answers no broker ping", p.RequestID)
		}
	}
	d := "-"
	if len(w.Disc) > 0 {
		d = fmt.Sprint(w.Disc[0] - w.silentAt)
	}
	v.Outcome = fmt.Sprintf("%s disc-after=%s pings=%d", w.p.Mode, d, len(w.B.Pings))
	return res, v
}

func main() {
	vlib.Main(&vlib.Harness{
		Property:  "C15",
		Scenarios: scenarios,
		Config:    config,
		Run:       run,
		Rule:      "mode E on the virtual clock: (interval, timeout) in {(1s,1s),(2s,1s),(10s,1s),(1s,3s),defaults,(1.5s,2.5s)} x broker answers the first k in {0..3} pings then stays silent / answers timeout+1ms late; or answers every ping timeout-1ms late; or promptly while sending pings of its own; with and without a flushing upstream; detection bound silent-since + interval + timeout checked exactly; P<=1 (incl. early timer) in the keep-alive code",
		Assumptions: []string{"virtual time only advances at quiescence: no scheduling slack is needed or granted", "the repository's protobuf codec carries ping interval/timeout in whole seconds"},
	})
}

var _ = sim.NoFault
