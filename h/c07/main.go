// c07: streams sharing a connection are isolated (modes I + S on the sent storage, mode E on the connection).
package main

import (
	"context"
	"fmt"
	"sort"
	"strings"
	"time"

	"github.com/aptpod/iscp-go/internal/vcontext"
	"github.com/aptpod/iscp-go/internal/vh/kit"
	"github.com/aptpod/iscp-go/internal/vh/lib"
	"github.com/aptpod/iscp-go/internal/vh/sim"
	"github.com/aptpod/iscp-go/internal/vsched"
	"github.com/aptpod/iscp-go/iscp"
	"github.com/aptpod/iscp-go/message"
	uuid "github.com/google/uuid"
)

type params struct {
	Kind  string // store-seq | store-conc | conn
	Depth int
	NoPayload bool
	Ops   []int // store-conc: 4 op indexes (thread A: 0,1; thread B: 2,3)
	Close string // conn: which stream is closed mid-way: none upR upU down
	Refuse string // conn: the broker refuses the resume of this upstream (answer without alias, i.e. alias 0); aliases are numbered from 0
	F     int
	P     int
}

func (p params) name() string {
	switch p.Kind {
	case "store-seq":
		return fmt.Sprintf("store-seq/depth%d/nopayload%v", p.Depth, p.NoPayload)
	case "store-conc":
		return fmt.Sprintf("store-conc/%v/nopayload%v", p.Ops, p.NoPayload)
	case "options":
		return fmt.Sprintf("options/first-%s/P%d", p.Close, p.P)
	case "aliasreuse":
		return fmt.Sprintf("aliasreuse/P%d", p.P)
	}
	if p.Refuse != "" {
		return fmt.Sprintf("conn/close-%s/refuse-%s/F%d/P%d", p.Close, p.Refuse, p.F, p.P)
	}
	return fmt.Sprintf("conn/close-%s/F%d/P%d", p.Close, p.F, p.P)
}

// ---- store operations ----

var (
	sX = uuid.UUID{0xaa}
	sY = uuid.UUID{0xbb}
)

type sop struct {
	kind string // store remove list clear
	id   uuid.UUID
	seq  uint32
}

func (o sop) String() string {
	n := "X"
	if o.id == sY {
		n = "Y"
	}
	return fmt.Sprintf("%s(%s,%d)", o.kind, n, o.seq)
}

var allOps = func() []sop {
	var out []sop
	for _, id := range []uuid.UUID{sX, sY} {
		for _, seq := range []uint32{1, 2} {
			out = append(out, sop{"store", id, seq}, sop{"remove", id, seq})
		}
		out = append(out, sop{"list", id, 0}, sop{"clear", id, 0})
	}
	return out
}()

func content(o sop, n int) iscp.DataPointGroups {
	id := message.DataID{Name: fmt.Sprintf("%v-%d-%d", o.id[0], o.seq, n), Type: "t"}
	return iscp.DataPointGroups{{DataID: &id, DataPoints: iscp.DataPoints{{ElapsedTime: time.Duration(n), Payload: []byte{byte(n)}}}}}
}

func renderDPG(d iscp.DataPointGroups) string {
	var s []string
	for _, g := range d {
		for _, p := range g.DataPoints {
			s = append(s, fmt.Sprintf("%s@%d", g.DataID.Name, p.ElapsedTime))
		}
	}
	return strings.Join(s, "+")
}

// apply executes one operation and renders its observable result.
func apply(st iscp.VerifSentStorage, o sop, n int) string {
	ctx := vcontext.Background()
	switch o.kind {
	case "store":
		return fmt.Sprint("store:", st.Store(ctx, o.id, o.seq, content(o, n)) != nil)
	case "remove":
		d, err := st.Remove(ctx, o.id, o.seq)
		return fmt.Sprintf("remove:%v:%s", err != nil, renderDPG(d))
	case "list":
		m, err := st.List(ctx, o.id)
		var ks []string
		for k, d := range m {
			ks = append(ks, fmt.Sprintf("%d=%s", k, renderDPG(d)))
		}
		sort.Strings(ks)
		return fmt.Sprintf("list:%v:%s", err != nil, strings.Join(ks, ","))
	case "clear":
		return fmt.Sprint("clear:", st.Clear(ctx, o.id) != nil)
	}
	return "?"
}

func newStore(nopayload bool) iscp.VerifSentStorage {
	if nopayload {
		return iscp.VerifNewInmemSentStorageNoPayload()
	}
	return iscp.VerifNewInmemSentStorage()
}

func scenarios(tier string) []vlib.Scenario {
	var out []vlib.Scenario
	add := func(p params) { out = append(out, vlib.Scenario{Name: p.name(), P: p}) }
	depth := 4
	if tier == "thorough" {
		depth = 5
	}
	add(params{Kind: "store-seq", Depth: depth})
	add(params{Kind: "store-seq", Depth: depth, NoPayload: true})
	// two threads x two operations each: every combination where the threads touch different streams plus same-stream pairs
	n := len(allOps)
	for a := 0; a < n; a++ {
		for b := 0; b < n; b++ {
			for c := 0; c < n; c++ {
				for d := 0; d < n; d++ {
					oa, ob, oc, od := allOps[a], allOps[b], allOps[c], allOps[d]
					if tier != "thorough" {
						// quick: thread A works on X, thread B on Y (the isolation case) + a same-stream sample
						if !(oa.id == sX && ob.id == sX && oc.id == sY && od.id == sY) && !(a == 0 && c == 1 && b == 4 && d == 5) {
							continue
						}
					} else if oa.id != ob.id || oc.id != od.id {
						continue
					}
					add(params{Kind: "store-conc", Ops: []int{a, b, c, d}})
				}
			}
		}
	}
	for _, cl := range []string{"none", "upR", "upU", "down"} {
		add(params{Kind: "conn", Close: cl, F: 1})
	}
	add(params{Kind: "conn", Close: "none", F: 0, P: 1})
	// the options of one stream do not leak into a stream opened without them (before or after)
	add(params{Kind: "options", Close: "tuned"})
	add(params{Kind: "options", Close: "plain"})
	// the broker hands the alias of a stream that is being closed to a stream that is being opened at the same time
	add(params{Kind: "aliasreuse"})
	add(params{Kind: "aliasreuse", P: 1})
	add(params{Kind: "aliasreuse", P: 2})
	// a refused resume of one stream (response without alias) must not disturb the stream that holds alias 0
	add(params{Kind: "conn", Close: "none", Refuse: "upU", F: 1})
	add(params{Kind: "conn", Close: "none", Refuse: "upR", F: 1})
	// the resume of one stream stays unanswered and the application closes that stream meanwhile
	add(params{Kind: "conn", Close: "upU", Refuse: "unanswered:upU", F: 1})
	add(params{Kind: "conn", Close: "upR", Refuse: "unanswered:upR", F: 1})
	// ... or does nothing about it: the other streams resume and work all the same
	add(params{Kind: "conn", Close: "none", Refuse: "unanswered:upU", F: 1})
	add(params{Kind: "conn", Close: "none", Refuse: "unanswered:upR", F: 1})
	if tier == "thorough" {
		for _, cl := range []string{"none", "upR", "upU", "down"} {
			add(params{Kind: "conn", Close: cl, F: 2})
			add(params{Kind: "conn", Close: cl, F: 1, P: 1})
		}
	}
	return out
}

func config(sc vlib.Scenario, tier string) vsched.Config {
	p := sc.P.(params)
	cfg := vsched.Config{Preempt: 1, Switch: 1, SelCase: 1, Stall: 1, Timer: -1, Horizon: 120 * time.Second, MaxSteps: 50_000_000}
	cfg.Budget[vsched.BudP] = p.P
	cfg.Budget[vsched.BudF] = p.F
	if p.Kind == "store-conc" {
		cfg.Preempt, cfg.Switch, cfg.Stall = 0, 0, -1 // unbounded: every interleaving of the lock operations
		cfg.Budget[vsched.BudP] = 0
	}
	if p.Kind == "aliasreuse" {
		cfg.Scope = func(site string) bool {
			return strings.Contains(site, "SendUpstreamCloseRequest") || strings.Contains(site, "SendUpstreamOpenRequest") || strings.Contains(site, "(*ClientConn).openUpstream") || strings.Contains(site, "(*Conn).OpenUpstream")
		}
		return cfg
	}
	cfg.Scope = func(site string) bool {
		return strings.Contains(site, "inmemSentStorage") || strings.Contains(site, "readUpstreamChunkAckLoop") || strings.Contains(site, "readDownstreamChunkLoop") || strings.Contains(site, "(*Upstream).run") || strings.Contains(site, "SendUpstreamCloseRequest") || strings.Contains(site, "SendDownstreamCloseRequest")
	}
	return cfg
}

type world struct {
	arCloseErr, arOpenErr, arWriteErr, arFlushErr error
	arAcks, arChunks                              int
	liveBeforeClosing bool
	optCloseErr    error
	optCloseDur    time.Duration
	optAcksAtClose int
	afterOpen string
	kit.World
	p       params
	seqViol []string
	seqN    int64
	concRes [4]string
	concOrd []int
	cuts    int
	rxn     map[string]int
	closeRes string
	afterWrites map[string]string
	downRead []string
	misaddressed int
}

// ---- store-seq: every operation sequence up to depth d; isolation as a relational check ----

func (w *world) storeSeq() {
	depth := w.p.Depth
	cache := map[string][]string{}
	soloResults := func(ops []sop, ns []int) []string {
		key := fmt.Sprint(ops, ns)
		if r, ok := cache[key]; ok {
			return r
		}
		st := newStore(w.p.NoPayload)
		var out []string
		for i, o := range ops {
			out = append(out, apply(st, o, ns[i]))
		}
		cache[key] = out
		return out
	}
	seq := make([]int, 0, depth)
	var rec func()
	rec = func() {
		if len(seq) > 0 {
			w.seqN++
			st := newStore(w.p.NoPayload)
			var res []string
			ops := make([]sop, len(seq))
			for i, k := range seq {
				ops[i] = allOps[k]
				res = append(res, apply(st, ops[i], i))
			}
			for _, id := range []uuid.UUID{sX, sY} {
				var pOps []sop
				var pNs []int
				var pRes []string
				for i, o := range ops {
					if o.id == id {
						pOps = append(pOps, o)
						pNs = append(pNs, i)
						pRes = append(pRes, res[i])
					}
				}
				if len(pOps) == 0 || len(pOps) == len(ops) {
					continue
				}
				solo := soloResults(pOps, pNs)
				for i := range solo {
					if solo[i] != pRes[i] && len(w.seqViol) < 5 {
						w.seqViol = append(w.seqViol, fmt.Sprintf("%v: result of %v is %q, but %q when the other stream's operations are left out", ops, pOps[i], pRes[i], solo[i]))
					}
				}
			}
		}
		if len(seq) == depth {
			return
		}
		for k := range allOps {
			seq = append(seq, k)
			rec()
			seq = seq[:len(seq)-1]
		}
	}
	rec()
}

// ---- store-conc: two threads x two operations, all interleavings, linearizability by brute force ----

func (w *world) storeConc() {
	st := newStore(w.p.NoPayload)
	var wg vsched.WaitGroup
	for t := 0; t < 2; t++ {
		t := t
		wg.Add(1)
		vsched.Go("h:storethread", func() {
			defer wg.Done()
			for j := 0; j < 2; j++ {
				i := 2*t + j
				w.concRes[i] = apply(st, allOps[w.p.Ops[i]], i)
				w.concOrd = append(w.concOrd, i)
			}
		})
	}
	wg.Wait()
}

func (w *world) concOracle(v *vlib.Verdict) {
	// sequential reference: the store itself, run in every order that respects both program orders
	orders := [][]int{{0, 1, 2, 3}, {0, 2, 1, 3}, {0, 2, 3, 1}, {2, 0, 1, 3}, {2, 0, 3, 1}, {2, 3, 0, 1}}
	ok := false
	var seen []string
	for _, ord := range orders {
		st := newStore(w.p.NoPayload)
		var res [4]string
		for _, i := range ord {
			res[i] = apply(st, allOps[w.p.Ops[i]], i)
		}
		seen = append(seen, fmt.Sprint(res))
		if res == w.concRes {
			ok = true
		}
	}
	if !ok {
		var ops []string
		for _, k := range w.p.Ops {
			ops = append(ops, allOps[k].String())
		}
		iso := "same-stream"
		if allOps[w.p.Ops[0]].id != allOps[w.p.Ops[2]].id {
			iso = "different-streams"
		}
		v.Fail("C07.store-linearizable", iso, "threads A=[%s %s] B=[%s %s] observed %v, which no sequential order of the four operations produces", ops[0], ops[1], ops[2], ops[3], w.concRes)
	}
	v.Outcome = fmt.Sprint(w.concRes)
}

// ---- conn: reliable up + unreliable up + downstream on one connection ----

func (w *world) script() *sim.Script {
	s := &sim.Script{Unreliable: true, AliasFromZero: w.p.Refuse != ""}
	if w.p.Refuse != "" {
		s.UpResumeResult = func(c *sim.BConn, u *sim.UpStream, attempt int) message.ResultCode {
			if (w.p.Refuse == "upR" && u.Ord == 0) || (w.p.Refuse == "upU" && u.Ord == 1) {
				return message.ResultCodeStreamNotFound
			}
			return message.ResultCodeSucceeded
		}
	}
	if strings.HasPrefix(w.p.Refuse, "unanswered:") {
		s.UpResumeResult = nil
		s.OnMessage = func(b *sim.Broker, c *sim.BConn, m message.Message) bool {
			if r, ok := m.(*message.UpstreamResumeRequest); ok {
				for _, u := range b.Ups {
					if u.ID == r.StreamID && ((strings.HasSuffix(w.p.Refuse, "upR") && u.Ord == 0) || (strings.HasSuffix(w.p.Refuse, "upU") && u.Ord == 1)) {
						return true // never answered
					}
				}
			}
			return false
		}
	}
	w.rxn = map[string]int{}
	s.Fault = func(c *sim.BConn, dir string, m message.Message) sim.FaultKind {
		if w.Phase != "traffic" {
			return sim.NoFault
		}
		interesting := false
		switch m.(type) {
		case *message.UpstreamChunk:
			interesting = dir == "rx"
		case *message.UpstreamChunkAck, *message.UpstreamResumeResponse, *message.DownstreamResumeResponse:
			interesting = dir == "tx"
		}
		if !interesting {
			return sim.NoFault
		}
		key := dir + ":" + kit.MsgName(m)
		w.rxn[key]++
		if vsched.ChooseBudget(fmt.Sprintf("cut@%s#%d", key, w.rxn[key]), 2, vsched.BudF) == 1 {
			w.cuts++
			for _, u := range w.B.Ups {
				u.Held = nil
			}
			return sim.FaultCut
		}
		return sim.NoFault
	}
	s.AckChunk = func(c *sim.BConn, u *sim.UpStream, ch *sim.ChunkRec) sim.AckMode {
		if vsched.Choose(fmt.Sprintf("ack-%d-seq%d@%d", u.Ord, ch.Seq, c.Idx), 2) == 0 {
			return sim.AckNow
		}
		return sim.AckHold
	}
	return s
}

func (w *world) connMain() {
	if err := w.Connect(w.script()); err != nil {
		return
	}
	w.afterWrites = map[string]string{}
	sctx, scancel := kit.Ctx(20 * time.Second)
	defer scancel()
	upR, e1 := w.OpenUp(sctx, "upR", iscp.WithUpstreamFlushPolicyImmediately(), iscp.WithUpstreamQoS(message.QoSReliable), iscp.WithUpstreamCloseTimeout(3*time.Second))
	upU, e2 := w.OpenUp(sctx, "upU", iscp.WithUpstreamFlushPolicyImmediately(), iscp.WithUpstreamQoS(message.QoSUnreliable), iscp.WithUpstreamCloseTimeout(3*time.Second))
	dn, e3 := w.OpenDown(sctx, "down", kit.Filter("src"), iscp.WithDownstreamQoS(message.QoSReliable), iscp.WithDownstreamAckFlushInterval(100*time.Millisecond))
	if e1 != nil || e2 != nil || e3 != nil {
		w.Phase = "setup-failed"
		return
	}
	w.Phase = "traffic"
	wctx, wcancel := kit.Ctx(40 * time.Second)
	defer wcancel()
	upR.Write(wctx, kit.IDA, "R1")
	upU.Write(wctx, kit.IDB, "U1")
	// misaddressed acks: results for the other stream's sequence numbers under this stream's alias
	if c := w.B.Live(); c != nil && len(w.B.Ups) == 2 && vsched.Choose("misaddress-ack", 2) == 1 {
		w.misaddressed++
		if a, ok := w.B.Ups[1].Alias[c.Idx]; ok {
			w.B.Send(c, &message.UpstreamChunkAck{StreamIDAlias: a, Results: []*message.UpstreamChunkResult{{SequenceNumber: 2, ResultCode: message.ResultCodeSucceeded, ResultString: "misaddressed"}}})
		}
		w.B.Send(c, &message.UpstreamChunkAck{StreamIDAlias: 7777, Results: []*message.UpstreamChunkResult{{SequenceNumber: 1, ResultCode: message.ResultCodeSucceeded, ResultString: "nobody"}}})
	}
	// a chunk for the downstream and one for an alias nobody has
	if c := w.B.Live(); c != nil && len(w.B.Downs) == 1 {
		w.B.Send(c, dchunk(w.B.Downs[0].Alias+33, 1, "stray"))
		// metadata addressed to the downstream's alias but from a source node it did not subscribe
		w.B.Send(c, &message.DownstreamMetadata{RequestID: 7001, StreamIDAlias: w.B.Downs[0].Alias, SourceNodeID: "nobody", Metadata: &message.BaseTime{Name: "stray"}})
		w.B.Send(c, dchunk(w.B.Downs[0].Alias, 2, "D1"))
	}
	upR.Write(wctx, kit.IDA, "R2")
	vsched.Sleep(8*time.Second, "h:settle")
	// close one stream while the others carry traffic
	cctx, ccancel := kit.Ctx(10 * time.Second)
	switch w.p.Close {
	case "upR":
		w.closeRes = kit.ErrKind(upR.U.Close(cctx))
	case "upU":
		w.closeRes = kit.ErrKind(upU.U.Close(cctx))
	case "down":
		w.closeRes = kit.ErrKind(dn.D.Close(cctx))
	}
	ccancel()
	w.Phase = "after"
	// the other streams still work
	for _, u := range w.Ups {
		if (u.Name == "upR" && w.p.Close == "upR") || (u.Name == "upU" && w.p.Close == "upU") || kit.ReportedClosed(u.Closed) {
			continue
		}
		if strings.HasPrefix(w.p.Refuse, "unanswered:") && strings.HasSuffix(w.p.Refuse, u.Name) && w.cuts > 0 {
			continue // this stream's own resume is never answered
		}
		tag := "after-" + u.Name
		actx, acancel := kit.Ctx(10 * time.Second)
		err := u.Write(actx, kit.IDA, tag)
		acancel()
		vsched.Sleep(time.Second, "h:after")
		got := false
		for _, bu := range w.B.Ups {
			for _, c := range bu.Chunks {
				for _, p := range c.Points {
					if p.Payload == tag {
						got = true
					}
				}
			}
		}
		w.afterWrites[u.Name] = fmt.Sprintf("%s/%v", kit.ErrKind(err), got)
	}
	// ... and a further stream can be opened beside them
	if w.B.Live() != nil {
		octx, ocancel := kit.Ctx(10 * time.Second)
		_, err := w.OpenDown(octx, "down2", kit.Filter("src9"))
		ocancel()
		w.afterOpen = kit.ErrKind(err)
	}
	if w.p.Close != "down" && !kit.ReportedClosed(dn.Closed) {
		for {
			rctx, rcancel := kit.Ctx(time.Second)
			ch, err := dn.D.ReadDataPoints(rctx)
			rcancel()
			if err != nil {
				break
			}
			for _, g := range ch.DataPointGroups {
				for _, p := range g.DataPoints {
					w.downRead = append(w.downRead, string(p.Payload))
				}
			}
		}
	}
	w.liveBeforeClosing = w.B.Live() != nil // (the oracle must not look at the broker's view after the harness closed everything)
	w.Phase = "closing"
	for _, u := range w.Ups {
		xctx, xcancel := kit.Ctx(8 * time.Second)
		u.U.Close(xctx)
		xcancel()
	}
	xctx, xcancel := kit.Ctx(8 * time.Second)
	dn.D.Close(xctx)
	xcancel()
	yctx, ycancel := kit.Ctx(5 * time.Second)
	w.Conn.Close(yctx)
	ycancel()
	w.B.Stop()
	w.Phase = "done"
}

func dchunk(alias uint32, seq uint32, tag string) *message.DownstreamChunk {
	return &message.DownstreamChunk{
		StreamIDAlias:   alias,
		UpstreamOrAlias: &message.UpstreamInfo{SessionID: "s", SourceNodeID: "src", StreamID: sim.StreamUUID('x', 1)},
		StreamChunk: &message.StreamChunk{SequenceNumber: seq, DataPointGroups: []*message.DataPointGroup{
			{DataIDOrAlias: &message.DataID{Name: "a", Type: "t"}, DataPoints: []*message.DataPoint{{ElapsedTime: 1, Payload: []byte(tag)}}},
		}},
	}
}

func (w *world) connOracle(res *vsched.Result, v *vlib.Verdict) {
	dev := res.Used[vsched.BudP] > 0
	if len(w.B.Ups) < 2 {
		v.Inconclusive = "setup"
		return
	}
	// per-stream ledgers: only the stream's own points, under its own id
	for i, bu := range w.B.Ups {
		prefix := []string{"R", "U"}[i]
		for _, c := range bu.Chunks {
			for _, p := range c.Points {
				if !strings.HasPrefix(p.Payload, prefix) && !strings.HasPrefix(p.Payload, "after-up"+prefix) {
					v.Fail("C07.ledger", "foreign-point", "stream %d received point %q of another stream", i, p.Payload)
				}
			}
		}
	}
	// ack hooks see only results the broker addressed to that stream
	for i, u := range w.Ups {
		if i >= len(w.B.Ups) {
			break
		}
		sent := map[string]int{}
		for _, r := range w.B.Ups[i].AcksSent {
			sent[fmt.Sprintf("%d/%s", r.SequenceNumber, r.ResultString)]++
		}
		for _, r := range u.AckHook {
			k := fmt.Sprintf("%d/%s", r.SequenceNumber, r.ResultString)
			if r.ResultString == "misaddressed" && i == 1 {
				continue // addressed to this alias by the broker (for a sequence number it never sent): delivering it to this stream's hook is correct routing
			}
			if sent[k] == 0 {
				v.Fail("C07.ack-routing", fmt.Sprintf("%s/foreign-result", u.Name), "ack hook of %s saw result %s that the broker never addressed to it", u.Name, k)
			}
		}
	}
	// reliable stream: everything accepted reaches the broker (unless reported closed); not disturbed by the others
	// (the stream whose resume the broker never answers and which the application then closes is the
	// disturbed one, not the bystander: its Close fails and its unresumed points are not owed)
	if !kit.ReportedClosed(w.Ups[0].Closed) && w.liveBeforeClosing && res.Outcome == vsched.Completed && w.p.Refuse != "unanswered:upR" {
		have := map[string]bool{}
		for _, c := range w.B.Ups[0].Chunks {
			for _, p := range c.Points {
				have[p.Payload] = true
			}
		}
		for _, h := range w.Ups[0].SendHook {
			for _, g := range h.DataPointGroups {
				for _, p := range g.DataPoints {
					if !have[string(p.Payload)] {
						v.Fail("C07.reliable", fmt.Sprintf("lost/cuts=%d/dev=%v", w.cuts, dev), "reliable stream lost %q (close of %s, cuts %d) while sharing the connection", string(p.Payload), w.p.Close, w.cuts)
					}
				}
			}
		}
	}
	// closing one stream leaves the others working
	if res.Outcome == vsched.Completed && w.afterOpen != "" && w.afterOpen != "nil" && w.liveBeforeClosing {
		v.Fail("C07.close-isolation", fmt.Sprintf("open-downstream-after/%s/cuts=%d/dev=%v", w.afterOpen, w.cuts, dev), "after the traffic phase (stray chunk and metadata for the first downstream, close of %s) a further downstream could not be opened: %s", w.p.Close, w.afterOpen)
	}
	if res.Outcome == vsched.Completed {
		for name, r := range w.afterWrites {
			if r != "nil/true" {
				v.Fail("C07.close-isolation", fmt.Sprintf("%s-after-close-%s/%s/cuts=%d/dev=%v", name, w.p.Close, r, w.cuts, dev), "after closing %s, a write on %s gave %s (error/received)", w.p.Close, name, r)
			}
		}
		for _, u := range w.Ups {
			if w.p.Refuse != "" && !strings.HasSuffix(w.p.Refuse, u.Name) && kit.ReportedClosed(u.Closed) && w.cuts <= 1 {
				v.Fail("C07.close-isolation", "closed-with-refused-"+w.p.Refuse, "%s was reported closed although only the resume of %s was refused", u.Name, w.p.Refuse)
			}
			if kit.ReportedClosed(u.Closed) && w.cuts == 0 {
				v.Fail("C07.close-isolation", "stream-closed-with-other", "%s was reported closed although only %s was closed", u.Name, w.p.Close)
			}
		}
		if w.p.Close != "down" && w.cuts == 0 && len(w.Downs) > 0 && !kit.ReportedClosed(w.Downs[0].Closed) {
			if strings.Join(w.downRead, ",") != "D1" {
				v.Fail("C07.down-routing", fmt.Sprintf("read=%v", w.downRead), "downstream read %v, the broker addressed exactly [D1] to it", w.downRead)
			}
		}
	}
	v.Outcome = fmt.Sprintf("close=%s/%s cuts=%d after=%v down=%v mis=%d", w.p.Close, w.closeRes, w.cuts, w.afterWrites, w.downRead, w.misaddressed)
}

// optionsMain: stream "tuned" is opened with a 50 ms close timeout and a 300 ms ack timeout, stream "plain" with the
// defaults (order: parameter). The broker acknowledges plain's chunk after 2 s: plain's Close has to wait for it.
func (w *world) optionsMain() {
	s := &sim.Script{AckDelay: 2 * time.Second}
	s.AckChunk = func(c *sim.BConn, u *sim.UpStream, ch *sim.ChunkRec) sim.AckMode { return sim.AckDelay }
	if err := w.Connect(s); err != nil {
		return
	}
	ctx, cancel := kit.Ctx(30 * time.Second)
	defer cancel()
	var plain *kit.Up
	open := func(which string) {
		if which == "tuned" {
			w.OpenUp(ctx, "tuned", iscp.WithUpstreamFlushPolicyNone(), iscp.WithUpstreamQoS(message.QoSReliable), iscp.WithUpstreamCloseTimeout(50*time.Millisecond), iscp.WithUpstreamAckTimeout(300*time.Millisecond))
		} else {
			plain, _ = w.OpenUp(ctx, "plain", iscp.WithUpstreamFlushPolicyNone(), iscp.WithUpstreamQoS(message.QoSReliable))
		}
	}
	if w.p.Close == "tuned" {
		open("tuned")
		open("plain")
	} else {
		open("plain")
		open("tuned")
	}
	if plain == nil || len(w.Ups) != 2 {
		w.Phase = "setup-failed"
		return
	}
	w.Phase = "traffic"
	plain.Write(ctx, kit.IDA, "p1")
	plain.U.Flush(ctx)
	t0 := vsched.Now()
	cctx, ccancel := kit.Ctx(8 * time.Second)
	w.optCloseErr = plain.U.Close(cctx)
	ccancel()
	w.optCloseDur = vsched.Now() - t0
	w.optAcksAtClose = len(plain.AckHook)
	w.Phase = "closing"
	for _, u := range w.Ups {
		xctx, xcancel := kit.Ctx(3 * time.Second)
		u.U.Close(xctx)
		xcancel()
	}
	yctx, ycancel := kit.Ctx(5 * time.Second)
	w.Conn.Close(yctx)
	ycancel()
	w.B.Stop()
	w.Phase = "done"
}

// aliasReuseMain: stream A is closed while stream C is opened; the broker, having closed A, gives A's alias to C.
func (w *world) aliasReuseMain() {
	s := &sim.Script{ReuseUpAlias: true}
	if err := w.Connect(s); err != nil {
		return
	}
	ctx, cancel := kit.Ctx(30 * time.Second)
	defer cancel()
	b, _ := w.OpenUp(ctx, "B", iscp.WithUpstreamFlushPolicyNone(), iscp.WithUpstreamQoS(message.QoSReliable))
	a, _ := w.OpenUp(ctx, "A", iscp.WithUpstreamFlushPolicyNone(), iscp.WithUpstreamQoS(message.QoSReliable))
	if a == nil || b == nil {
		w.Phase = "setup-failed"
		return
	}
	w.Phase = "traffic"
	var wg vsched.WaitGroup
	wg.Add(1)
	vsched.Go("h:close-A", func() {
		defer wg.Done()
		cctx, ccancel := kit.Ctx(10 * time.Second)
		defer ccancel()
		w.arCloseErr = a.U.Close(cctx)
	})
	c, err := w.OpenUp(ctx, "C", iscp.WithUpstreamFlushPolicyNone(), iscp.WithUpstreamQoS(message.QoSReliable))
	wg.Wait()
	w.arOpenErr = err
	if c != nil {
		w.arWriteErr = c.Write(ctx, kit.IDA, "c1")
		fctx, fcancel := kit.Ctx(5 * time.Second)
		w.arFlushErr = c.U.Flush(fctx)
		fcancel()
		vsched.Quiesce()
		w.arAcks = len(c.AckHook)
		for _, u := range w.B.Ups {
			if u.Open.SessionID == "C" {
				w.arChunks = len(u.Chunks)
			}
		}
	}
	w.liveBeforeClosing = w.B.Live() != nil
	w.Phase = "closing"
	for _, u := range w.Ups {
		xctx, xcancel := kit.Ctx(3 * time.Second)
		u.U.Close(xctx)
		xcancel()
	}
	yctx, ycancel := kit.Ctx(5 * time.Second)
	w.Conn.Close(yctx)
	ycancel()
	w.B.Stop()
	w.Phase = "done"
}

func (w *world) main() {
	switch w.p.Kind {
	case "store-seq":
		w.storeSeq()
	case "store-conc":
		w.storeConc()
	case "options":
		w.optionsMain()
	case "aliasreuse":
		w.aliasReuseMain()
	default:
		w.connMain()
	}
}

func run(sc vlib.Scenario, cfg vsched.Config) (*vsched.Result, vlib.Verdict) {
	w := &world{p: sc.P.(params)}
	res := vsched.Run(cfg, w.main)
	var v vlib.Verdict
	if res.Outcome == vsched.Panicked {
		v.Fail("C07.panic", res.Panic.Site, "library panic: %s", res.Panic.Value)
		return res, v
	}
	switch w.p.Kind {
	case "aliasreuse":
		if w.ConnErr != nil || w.Phase == "setup-failed" {
			v.Inconclusive = "setup failed"
			return res, v
		}
		if res.Outcome != vsched.Completed {
			v.Fail("C07.blocked", "aliasreuse/"+w.Phase, "the alias-reuse scenario never finished (phase %s)", w.Phase)
			return res, v
		}
		// nothing disturbs the connection: A closes, C opens, and C's chunk is sent, acknowledged and reported
		if w.arCloseErr != nil || w.arOpenErr != nil || w.arWriteErr != nil || w.arFlushErr != nil || w.arChunks != 1 || w.arAcks != 1 {
			v.Fail("C07.alias-reuse", fmt.Sprintf("close=%s/open=%s/write=%s/flush=%s/chunks=%d/acks=%d", kit.ErrKind(w.arCloseErr), kit.ErrKind(w.arOpenErr), kit.ErrKind(w.arWriteErr), kit.ErrKind(w.arFlushErr), w.arChunks, w.arAcks),
				"stream A was closed while stream C was opened and the broker gave A's alias to C: Close=%v Open=%v, then C's Write=%v Flush=%v, %d of 1 chunks of C reached the broker and %d of 1 results were reported to C's hook", w.arCloseErr, w.arOpenErr, w.arWriteErr, w.arFlushErr, w.arChunks, w.arAcks)
		}
		v.Outcome = fmt.Sprintf("chunks=%d acks=%d", w.arChunks, w.arAcks)
	case "options":
		if w.ConnErr != nil || w.Phase == "setup-failed" {
			v.Inconclusive = "setup failed"
			return res, v
		}
		if res.Outcome != vsched.Completed {
			v.Fail("C07.blocked", "options/"+w.Phase, "the options scenario never finished (phase %s)", w.Phase)
			return res, v
		}
		if w.optCloseDur < 2*time.Second-10*time.Millisecond || w.optAcksAtClose != 1 {
			v.Fail("C07.options", fmt.Sprintf("close-of-plain-stream/first=%s/acks=%d", w.p.Close, w.optAcksAtClose), "the stream opened without options was closed after %v with %d of 1 results reported (error %v): its acknowledgement arrives after 2 s and the default close timeout is 10 s - the other stream's 50 ms close timeout / 300 ms ack timeout leaked into it", w.optCloseDur, w.optAcksAtClose, w.optCloseErr)
		}
		v.Outcome = fmt.Sprintf("close=%v dur=%v acks=%d", kit.ErrKind(w.optCloseErr), w.optCloseDur, w.optAcksAtClose)
	case "store-seq":
		for _, s := range w.seqViol {
			v.Fail("C07.store-isolation", fmt.Sprintf("nopayload=%v", w.p.NoPayload), "%s", s)
			break
		}
		v.Outcome = fmt.Sprintf("sequences=%d", w.seqN)
		storeSeqs += w.seqN
	case "store-conc":
		if res.Outcome != vsched.Completed {
			v.Fail("C07.store-deadlock", "store-conc", "store operations deadlocked: %v", res.Outcome)
		} else {
			w.concOracle(&v)
		}
	default:
		if w.ConnErr != nil || w.Phase == "setup-failed" {
			v.Inconclusive = "setup failed"
			return res, v
		}
		if res.Outcome != vsched.Completed {
			v.Inconclusive = "not-completed:" + w.Phase
			if w.Phase == "after" || w.Phase == "closing" || w.Phase == "traffic" {
				// an operation on one of the streams (or opening a further one) never returned
				where := ""
				for _, t := range res.Alive {
					if t.ID == 0 {
						where = kit.SiteFunc(t.Site) + "/" + t.Op
					}
				}
				v.Inconclusive = ""
				v.Fail("C07.blocked", fmt.Sprintf("%s@%s/cuts=%d", w.Phase, where, w.cuts), "the scenario never finished (phase %s, close of %s, %d cuts): the application thread is parked at %s", w.Phase, w.p.Close, w.cuts, where)
			}
		}
		w.connOracle(res, &v)
	}
	return res, v
}

var storeSeqs int64

var _ context.Context

func main() {
	vlib.Main(&vlib.Harness{
		Property:  "C07",
		Scenarios: scenarios,
		Config:    config,
		Run:       run,
		Rule:      "mode I: every sequence of {Store, Remove, List, Clear} x streams {X,Y} x sequence numbers {1,2} up to depth 4 (quick) / 5 (thorough) on both in-memory sent storages, relational oracle: each stream's results equal those of the projection of the sequence onto that stream; mode S: two threads x two storage operations, every interleaving of the lock operations, linearizability by brute force against the sequential orders; mode E: reliable + unreliable upstream + downstream on one connection with traffic, misaddressed acks/chunks, a link cut (budget F), closing one stream while the others work",
		Assumptions: []string{"the sent storage itself run sequentially is the reference for linearizability (its sequential behaviour is checked by the relational isolation oracle)"},
	})
}
