// Package kit holds what the mode-E harnesses share: a world (scripted broker + connected
// client with event recorders), stream helpers and small utilities.
package kit

import (
	"context"
	"errors"
	"fmt"
	"strings"
	"time"

	iscperrors "github.com/aptpod/iscp-go/errors"
	"github.com/aptpod/iscp-go/internal/vcontext"
	"github.com/aptpod/iscp-go/internal/vh/sim"
	"github.com/aptpod/iscp-go/internal/vsched"
	"github.com/aptpod/iscp-go/iscp"
	"github.com/aptpod/iscp-go/message"
	"github.com/aptpod/iscp-go/transport"
	uuid "github.com/google/uuid"
)

var (
	IDA = message.DataID{Name: "a", Type: "t"}
	IDB = message.DataID{Name: "b", Type: "t"}
)

// World is one execution's environment.
type World struct {
	B        *sim.Broker
	Conn     *iscp.Conn
	ConnErr  error
	Tokens   []string // tokens handed out by the token source, in order
	Disc     []time.Duration
	Reconn   []time.Duration
	Ups      []*Up
	Downs    []*Down
	Phase    string
	Log      []string
	// WrapDialer, when set, wraps the broker's dialer (e.g. in the reconnectable transport layer)
	WrapDialer func(transport.Dialer) transport.Dialer
}

// Up wraps an upstream with its recorders.
type Up struct {
	U        *iscp.Upstream
	SendHook []iscp.UpstreamChunk
	AckHook  []iscp.UpstreamChunkResult
	Closed   []error
	Resumed  int
	N        int
	Name     string
}

// Down wraps a downstream with its recorders.
type Down struct {
	D       *iscp.Downstream
	Closed  []error
	Resumed int
	Name    string
}

func (w *World) Logf(f string, a ...any) {
	w.Log = append(w.Log, fmt.Sprintf("%v ", vsched.Now())+fmt.Sprintf(f, a...))
}

// Connect creates the broker and connects the client. Extra options are appended.
func (w *World) Connect(script *sim.Script, opts ...iscp.ConnOption) error {
	w.B = sim.NewBroker(script)
	iscp.VerifRegisterDialer("sim", func() transport.Dialer {
		if w.WrapDialer != nil {
			return w.WrapDialer(w.B.Dialer())
		}
		return w.B.Dialer()
	})
	iscp.VerifDeterministicIDs()
	all := []iscp.ConnOption{
		iscp.WithConnPingInterval(time.Second), iscp.WithConnPingTimeout(time.Second),
		iscp.WithConnNodeID("node-1"),
		iscp.WithConnTokenSource(iscp.TokenSourceFunc(func() (iscp.Token, error) {
			t := fmt.Sprintf("tok-%d", len(w.Tokens)+1)
			w.Tokens = append(w.Tokens, t)
			return iscp.Token(t), nil
		})),
		iscp.WithConnDisconnectedEventHandler(iscp.DisconnectedEventHandlerFunc(func(*iscp.DisconnectedEvent) { w.Disc = append(w.Disc, vsched.Now()) })),
		iscp.WithConnReconnectedEventHandler(iscp.ReconnectedEventHandlerFunc(func(*iscp.ReconnectedEvent) { w.Reconn = append(w.Reconn, vsched.Now()) })),
	}
	all = append(all, opts...)
	c, err := iscp.Connect("sim:1", "sim", all...)
	w.Conn, w.ConnErr = c, err
	return err
}

// OpenUp opens an upstream with recorders.
func (w *World) OpenUp(ctx context.Context, name string, opts ...iscp.UpstreamOption) (*Up, error) {
	u := &Up{Name: name}
	all := []iscp.UpstreamOption{
		iscp.WithUpstreamSendDataPointsHooker(iscp.SendDataPointsHookerFunc(func(id uuid.UUID, c iscp.UpstreamChunk) { u.SendHook = append(u.SendHook, c) })),
		iscp.WithUpstreamReceiveAckHooker(iscp.ReceiveAckHookerFunc(func(id uuid.UUID, r iscp.UpstreamChunkResult) { u.AckHook = append(u.AckHook, r) })),
		iscp.WithUpstreamClosedEventHandler(iscp.UpstreamClosedEventHandlerFunc(func(ev *iscp.UpstreamClosedEvent) { u.Closed = append(u.Closed, ev.Err) })),
		iscp.WithUpstreamResumedEventHandler(iscp.UpstreamResumedEventHandlerFunc(func(ev *iscp.UpstreamResumedEvent) { u.Resumed++ })),
	}
	all = append(all, opts...)
	// the context handed to OpenUpstream governs the open call only: it is cancelled as soon as the call
	// returns (the usual `ctx, cancel := WithTimeout(...); defer cancel()` of an open helper)
	octx, ocancel := vcontext.WithCancel(ctx)
	up, err := w.Conn.OpenUpstream(octx, name, all...)
	ocancel()
	if err != nil {
		return nil, err
	}
	u.U = up
	w.Ups = append(w.Ups, u)
	return u, nil
}

// OpenDown opens a downstream with recorders.
func (w *World) OpenDown(ctx context.Context, name string, filters []*message.DownstreamFilter, opts ...iscp.DownstreamOption) (*Down, error) {
	d := &Down{Name: name}
	all := []iscp.DownstreamOption{
		iscp.WithDownstreamClosedEventHandler(iscp.DownstreamClosedEventHandlerFunc(func(ev *iscp.DownstreamClosedEvent) { d.Closed = append(d.Closed, ev.Err) })),
		iscp.WithDownstreamResumedEventHandler(iscp.DownstreamResumedEventHandlerFunc(func(ev *iscp.DownstreamResumedEvent) { d.Resumed++ })),
	}
	all = append(all, opts...)
	octx, ocancel := vcontext.WithCancel(ctx)
	dn, err := w.Conn.OpenDownstream(octx, filters, all...)
	ocancel()
	if err != nil {
		return nil, err
	}
	d.D = dn
	w.Downs = append(w.Downs, d)
	return d, nil
}

// Write writes one uniquely tagged point to the upstream.
func (u *Up) Write(ctx context.Context, id message.DataID, payload string) error {
	u.N++
	idc := id
	return u.U.WriteDataPoints(ctx, &idc, &message.DataPoint{ElapsedTime: time.Duration(u.N) * time.Millisecond, Payload: []byte(payload)})
}

// ReportedClosed tells whether a closed event with an error was delivered.
func ReportedClosed(closed []error) bool {
	for _, e := range closed {
		if e != nil {
			return true
		}
	}
	return false
}

// Ctx returns a context with a virtual-time timeout.
func Ctx(d time.Duration) (context.Context, context.CancelFunc) {
	return vcontext.WithTimeout(vcontext.Background(), d)
}

// ErrKind classifies an error for outcome labels and signatures.
func ErrKind(e error) string {
	switch {
	case e == nil:
		return "nil"
	case errors.Is(e, context.DeadlineExceeded):
		return "deadline"
	case errors.Is(e, context.Canceled):
		return "canceled"
	case errors.Is(e, iscperrors.ErrStreamClosed):
		return "stream-closed"
	case errors.Is(e, iscperrors.ErrConnectionClosed):
		return "conn-closed"
	case errors.Is(e, iscperrors.ErrISCP):
		return "iscp-other"
	}
	var fm iscperrors.FailedMessageError
	var fmp *iscperrors.FailedMessageError
	if errors.As(e, &fm) || errors.As(e, &fmp) {
		return "failed-message"
	}
	return "non-iscp"
}

// SiteFunc strips the "@file:line" part of a site.
func SiteFunc(s string) string {
	if i := strings.Index(s, "@"); i > 0 {
		return s[:i]
	}
	return s
}

// MsgName renders a message type without the package prefix.
func MsgName(m message.Message) string {
	return strings.TrimPrefix(fmt.Sprintf("%T", m), "*message.")
}

// Filter for downstream opens.
func Filter(node string) []*message.DownstreamFilter {
	return []*message.DownstreamFilter{{SourceNodeID: node, DataFilters: []*message.DataFilter{{Name: "#", Type: "#"}}}}
}
