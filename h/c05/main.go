// c05: a lost transport is survived (mode E, faults) + the connStatus lemma (mode S).
package main

import (
	"net"
	"syscall"
	iscperrors "github.com/aptpod/iscp-go/errors"
	"context"
	"errors"
	"fmt"
	"strings"
	"time"

	"github.com/aptpod/iscp-go/internal/vcontext"
	"github.com/aptpod/iscp-go/internal/vh/kit"
	"github.com/aptpod/iscp-go/internal/vh/lib"
	"github.com/aptpod/iscp-go/internal/vh/sim"
	"github.com/aptpod/iscp-go/internal/vsched"
	"github.com/aptpod/iscp-go/iscp"
	"github.com/aptpod/iscp-go/message"
	"github.com/aptpod/iscp-go/transport"
)

type params struct {
	Kind     string // "e" | "lemma"
	Streams  string // up | down | up+down | upR+upU
	InFlight string // none openup opendown meta call write read
	F        int
	P        int
	Refuse   bool // broker refuses the resume of the first stream (non-conflict code)
	CloseRefused bool // (with Refuse) the close request the library sends for the refused stream is refused as well (the broker does not know the stream)
	NoClose   bool // (with Refuse) the close request the library sends for the refused stream is never answered
	ResumeScope bool // schedule deviations in the stream supervisors' resume step (a second outage falls into it)
	OpenScope bool // schedule deviations in the open calls themselves (between the open response and the subscriptions)
	Zero     bool // the broker numbers stream aliases from 0
	WriteErr string // (with During) what a write on the dead link fails with: "" (the library's connection-closed error) | goingaway | raw
	During   bool // the link is cut first (redial takes 3 s) and the InFlight call is issued during the outage
	Conflict bool // broker answers the first resume attempt of every stream with RESUME_REQUEST_CONFLICT, the next with success
	Lemma    string
}

func (p params) name() string {
	if p.Kind == "lemma" {
		return "lemma/" + p.Lemma + fmt.Sprintf("/P%d", p.P)
	}
	if p.Conflict {
		return fmt.Sprintf("%s/%s/F%d/P%d/conflict", p.Streams, p.InFlight, p.F, p.P)
	}
	if p.During && p.WriteErr != "" {
		return fmt.Sprintf("%s/%s/F%d/P%d/during-outage/write-error-%s", p.Streams, p.InFlight, p.F, p.P, p.WriteErr)
	}
	if p.During {
		return fmt.Sprintf("%s/%s/F%d/P%d/during-outage", p.Streams, p.InFlight, p.F, p.P)
	}
	if p.CloseRefused {
		return fmt.Sprintf("%s/%s/F%d/P%d/refuse%v/closerefused", p.Streams, p.InFlight, p.F, p.P, p.Refuse)
	}
	if p.NoClose {
		return fmt.Sprintf("%s/%s/F%d/P%d/refuse%v/noclose", p.Streams, p.InFlight, p.F, p.P, p.Refuse)
	}
	if p.ResumeScope {
		return fmt.Sprintf("%s/%s/F%d/P%d/resumescope", p.Streams, p.InFlight, p.F, p.P)
	}
	if p.OpenScope {
		return fmt.Sprintf("%s/%s/F%d/P%d/openscope", p.Streams, p.InFlight, p.F, p.P)
	}
	if p.Zero {
		return fmt.Sprintf("%s/%s/F%d/P%d/refuse%v/alias0", p.Streams, p.InFlight, p.F, p.P, p.Refuse)
	}
	return fmt.Sprintf("%s/%s/F%d/P%d/refuse%v", p.Streams, p.InFlight, p.F, p.P, p.Refuse)
}

func scenarios(tier string) []vlib.Scenario {
	var out []vlib.Scenario
	add := func(p params) { out = append(out, vlib.Scenario{Name: p.name(), P: p}) }
	for _, l := range lemmas {
		p := 3
		if tier == "thorough" {
			p = 4
		}
		add(params{Kind: "lemma", Lemma: l.name, P: p})
	}
	streams := []string{"up", "down", "up+down", "upR+upU"}
	inflight := []string{"none", "openup", "opendown", "meta", "call", "write", "read"}
	for _, s := range streams {
		for _, f := range inflight {
			if f == "write" && s == "down" || f == "read" && !strings.Contains(s, "down") {
				continue
			}
			add(params{Kind: "e", Streams: s, InFlight: f, F: 1})
		}
	}
	add(params{Kind: "e", Streams: "up+down", InFlight: "none", F: 1, Refuse: true})
	add(params{Kind: "e", Streams: "up+down", InFlight: "none", F: 1, Conflict: true})
	add(params{Kind: "e", Streams: "upR+upU", InFlight: "none", F: 1, Conflict: true})
	add(params{Kind: "e", Streams: "upR+upU", InFlight: "none", F: 1, Refuse: true})
	add(params{Kind: "e", Streams: "up+down", InFlight: "none", F: 1, Refuse: true, CloseRefused: true})
	add(params{Kind: "e", Streams: "down", InFlight: "none", F: 1, Refuse: true, CloseRefused: true})
	add(params{Kind: "e", Streams: "up+down", InFlight: "none", F: 1, Refuse: true, NoClose: true})
	add(params{Kind: "e", Streams: "down", InFlight: "none", F: 1, Refuse: true, NoClose: true})
	add(params{Kind: "e", Streams: "upR+upU", InFlight: "none", F: 1, Refuse: true, Zero: true})
	add(params{Kind: "e", Streams: "upR+upU", InFlight: "none", F: 1, Refuse: true, Zero: true, P: 1})
	add(params{Kind: "e", Streams: "up+down", InFlight: "none", F: 1, P: 1})
	// a second outage that begins and ends while a supervisor is between "which connection" and "which outage count"
	add(params{Kind: "e", Streams: "down", InFlight: "none", F: 2, P: 1, ResumeScope: true})
	add(params{Kind: "e", Streams: "up", InFlight: "none", F: 2, P: 1, ResumeScope: true})
	// an outage that begins and ends while an open call is between its response and its subscriptions
	add(params{Kind: "e", Streams: "down", InFlight: "openup", F: 1, P: 1, OpenScope: true})
	add(params{Kind: "e", Streams: "up", InFlight: "opendown", F: 1, P: 1, OpenScope: true})
	// requests issued while the connection is down
	for _, f := range []string{"openup", "opendown", "meta", "call", "write"} {
		add(params{Kind: "e", Streams: "up+down", InFlight: f, F: 0, During: true})
	}
	add(params{Kind: "e", Streams: "up+down", InFlight: "meta", F: 1, During: true})
	// the write on the dead link fails with a close-status error or a raw socket error (as the WebSocket back-ends do),
	// not with the library's connection-closed error
	for _, f := range []string{"openup", "opendown", "meta", "call"} {
		for _, k := range []string{"goingaway", "raw"} {
			add(params{Kind: "e", Streams: "up+down", InFlight: f, F: 0, During: true, WriteErr: k})
		}
	}
	// a metadata item is already queued in the downstream when the link dies; it is read during the outage
	add(params{Kind: "e", Streams: "down", InFlight: "readmeta", F: 0, During: true})
	add(params{Kind: "e", Streams: "up+down", InFlight: "readmeta", F: 0, P: 1, During: true})
	add(params{Kind: "e", Streams: "up+down", InFlight: "openup", F: 0, P: 1, During: true})
	add(params{Kind: "e", Streams: "up", InFlight: "meta", F: 1, P: 1})
	add(params{Kind: "e", Streams: "up", InFlight: "call", F: 1, P: 1})
	if tier == "thorough" {
		for _, s := range streams {
			for _, f := range inflight {
				if f == "write" && s == "down" || f == "read" && !strings.Contains(s, "down") {
					continue
				}
				add(params{Kind: "e", Streams: s, InFlight: f, F: 2})
				if f == "none" || f == "meta" || f == "openup" {
					add(params{Kind: "e", Streams: s, InFlight: f, F: 1, P: 1})
				}
			}
		}
		add(params{Kind: "e", Streams: "up+down", InFlight: "call", F: 2, Refuse: true})
	}
	return out
}

func config(sc vlib.Scenario, tier string) vsched.Config {
	p := sc.P.(params)
	cfg := vsched.Config{Preempt: 1, Switch: 1, SelCase: 1, Stall: 1, Timer: -1, Horizon: 150 * time.Second, MaxSteps: 800000}
	cfg.Budget[vsched.BudP] = p.P
	cfg.Budget[vsched.BudF] = p.F
	if p.Kind == "lemma" {
		cfg.Horizon = 10 * time.Second
		cfg.Scope = nil
		return cfg
	}
	cfg.Scope = func(site string) bool {
		if p.ResumeScope {
			return strings.Contains(site, "OpenDownstream.func") || strings.Contains(site, "OpenUpstream.func") || strings.Contains(site, "(*Downstream).resume") || strings.Contains(site, "(*Upstream).resume")
		}
		if p.OpenScope {
			return strings.HasPrefix(site, "iscp.(*Conn).OpenUpstream") || strings.HasPrefix(site, "iscp.(*Conn).OpenDownstream") || strings.Contains(site, "SendUpstreamOpenRequest") || strings.Contains(site, "SendDownstreamOpenRequest")
		}
		for _, s := range []string{"iscp.(*connStatus)", "iscp.(*Conn).run", "iscp.(*Conn).reconnect", "iscp.(*Conn).send", "observeConnClose", "(*Upstream).run", "(*Downstream).run", "iscp.(*Conn).OpenUpstream.func", "iscp.(*Conn).OpenDownstream.func", "ConnectWithConfig.func"} {
			if strings.Contains(site, s) {
				return true
			}
		}
		return false
	}
	return cfg
}

type world struct {
	liveAtClose *sim.BConn
	cutAfter message.Message
	kit.World
	p        params
	cuts     int
	estCuts  int // cuts of incarnations whose connect handshake had completed
	rxn      map[string]int
	inflErr  error
	inflDone bool
	inflKind string
	works    map[string]string
	lateUp   *kit.Up
	lateDown *kit.Down
	preUps, preDowns int
	lemmaRes []string
	readRes  string
	callID   string
	discAt, reconnAt int // notification counts before the final Close
}

func (w *world) script() *sim.Script {
	s := &sim.Script{Unreliable: w.p.Streams == "upR+upU", AliasFromZero: w.p.Zero}
	w.rxn = map[string]int{}
	established := map[int]bool{}
	s.Fault = func(c *sim.BConn, dir string, m message.Message) sim.FaultKind {
		if _, ok := m.(*message.ConnectResponse); ok && dir == "tx" {
			defer func() { established[c.Idx] = true }()
		}
		if w.Phase != "fail" && w.Phase != "recover" {
			return sim.NoFault
		}
		interesting := false
		switch m.(type) {
		case *message.UpstreamOpenRequest:
			interesting = dir == "rx" && w.p.InFlight == "openup"
		case *message.UpstreamOpenResponse:
			interesting = dir == "tx" && w.p.InFlight == "openup"
		case *message.DownstreamOpenRequest:
			interesting = dir == "rx" && w.p.InFlight == "opendown"
		case *message.DownstreamOpenResponse:
			interesting = dir == "tx" && w.p.InFlight == "opendown"
		case *message.UpstreamMetadata:
			interesting = dir == "rx" && w.p.InFlight == "meta"
		case *message.UpstreamMetadataAck:
			interesting = dir == "tx" && w.p.InFlight == "meta"
		case *message.UpstreamCall:
			interesting = dir == "rx" && w.p.InFlight == "call"
		case *message.UpstreamCallAck:
			interesting = dir == "tx" && w.p.InFlight == "call"
		case *message.UpstreamChunk:
			interesting = dir == "rx" && w.p.InFlight == "write"
		case *message.UpstreamChunkAck:
			interesting = dir == "tx" && w.p.InFlight == "write"
		case *message.DownstreamChunk:
			interesting = dir == "tx" && w.p.InFlight == "read"
		case *message.UpstreamResumeRequest, *message.DownstreamResumeRequest:
			interesting = dir == "rx"
		case *message.UpstreamResumeResponse, *message.DownstreamResumeResponse:
			interesting = dir == "tx"
		case *message.ConnectRequest:
			interesting = dir == "rx" && c.Idx > 0
		case *message.ConnectResponse:
			interesting = dir == "tx" && c.Idx > 0
		}
		if !interesting {
			return sim.NoFault
		}
		key := fmt.Sprintf("%s:%s", dir, kit.MsgName(m))
		w.rxn[key]++
		alts := 2
		if w.p.OpenScope && dir == "tx" {
			alts = 3 // 2 = the message is delivered and the link dies right after
		}
		switch vsched.ChooseBudget(fmt.Sprintf("cut@%s#%d", key, w.rxn[key]), alts, vsched.BudF) {
		case 1:
			w.cuts++
			if established[c.Idx] {
				w.estCuts++
			}
			for _, u := range w.B.Ups {
				u.Held = nil
			}
			return sim.FaultCut
		case 2:
			w.cutAfter = m
		}
		return sim.NoFault
	}
	s.AfterSend = func(b *sim.Broker, c *sim.BConn, m message.Message) {
		if w.cutAfter != nil && w.cutAfter == m {
			w.cutAfter = nil
			vsched.WaitUntil("delivered", func() bool { return c.Link.Delivered() || c.Dead })
			if !c.Dead {
				w.cuts++
				if established[c.Idx] {
					w.estCuts++
				}
				for _, u := range w.B.Ups {
					u.Held = nil
				}
				b.Cut(c)
			}
		}
	}
	refused := false
	s.AcceptDial = func(n int, cfg transport.DialConfig) (bool, time.Duration) {
		if w.p.During && n == 1 {
			return true, 3 * time.Second
		}
		if n >= 1 && !refused && vsched.Choose("redial", 2) == 1 {
			refused = true
			return false, 0
		}
		return true, 0
	}
	if w.p.CloseRefused {
		s.OnMessage = func(b *sim.Broker, c *sim.BConn, m message.Message) bool {
			if c.Idx == 0 || w.Phase == "close" {
				return false
			}
			switch m := m.(type) {
			case *message.UpstreamCloseRequest:
				b.Send(c, &message.UpstreamCloseResponse{RequestID: m.RequestID, ResultCode: message.ResultCodeStreamNotFound, ResultString: "unknown stream"})
				return true
			case *message.DownstreamCloseRequest:
				b.Send(c, &message.DownstreamCloseResponse{RequestID: m.RequestID, ResultCode: message.ResultCodeStreamNotFound, ResultString: "unknown stream"})
				return true
			}
			return false
		}
	}
	if w.p.NoClose {
		s.OnMessage = func(b *sim.Broker, c *sim.BConn, m message.Message) bool {
			switch m.(type) {
			case *message.UpstreamCloseRequest, *message.DownstreamCloseRequest:
				if c.Idx > 0 && w.Phase != "close" {
					return true // never answered
				}
			}
			return false
		}
	}
	if w.p.Conflict {
		s.UpResumeResult = func(c *sim.BConn, u *sim.UpStream, attempt int) message.ResultCode {
			if attempt == 0 {
				return message.ResultCodeResumeRequestConflict
			}
			return message.ResultCodeSucceeded
		}
		s.DownResumeResult = func(c *sim.BConn, d *sim.DownStream, attempt int) message.ResultCode {
			if attempt == 0 {
				return message.ResultCodeResumeRequestConflict
			}
			return message.ResultCodeSucceeded
		}
	}
	if w.p.Refuse {
		s.UpResumeResult = func(c *sim.BConn, u *sim.UpStream, attempt int) message.ResultCode {
			if u.Ord == 0 {
				return message.ResultCodeStreamNotFound
			}
			return message.ResultCodeSucceeded
		}
		s.DownResumeResult = func(c *sim.BConn, d *sim.DownStream, attempt int) message.ResultCode {
			if len(w.B.Ups) == 0 && d.Ord == 0 {
				return message.ResultCodeStreamNotFound
			}
			return message.ResultCodeSucceeded
		}
	}
	return s
}

func (w *world) main() {
	if w.p.Kind == "lemma" {
		w.lemmaMain()
		return
	}
	w.works = map[string]string{}
	if err := w.Connect(w.script()); err != nil {
		return
	}
	bg := vcontext.Background()
	ctx, cancel := kit.Ctx(20 * time.Second)
	defer cancel()
	w.Phase = "setup"
	pol := iscp.WithUpstreamFlushPolicyNone()
	switch w.p.Streams {
	case "up":
		w.OpenUp(ctx, "u0", pol, iscp.WithUpstreamQoS(message.QoSReliable))
	case "down":
		w.OpenDown(ctx, "d0", kit.Filter("src"))
	case "up+down":
		w.OpenUp(ctx, "u0", pol, iscp.WithUpstreamQoS(message.QoSReliable))
		w.OpenDown(ctx, "d0", kit.Filter("src"))
	case "upR+upU":
		w.OpenUp(ctx, "u0", pol, iscp.WithUpstreamQoS(message.QoSReliable))
		w.OpenUp(ctx, "u1", pol, iscp.WithUpstreamQoS(message.QoSUnreliable))
	}
	w.preUps, w.preDowns = len(w.Ups), len(w.Downs)
	vsched.Quiesce()
	w.Phase = "fail"
	ictx, icancel := kit.Ctx(40 * time.Second)
	defer icancel()
	var wg vsched.WaitGroup
	if w.p.InFlight == "none" {
		// idle failure: the link dies while nothing is in flight
		if c := w.B.Live(); c != nil {
			w.cuts++
			w.estCuts++
			w.B.Cut(c)
		}
	} else {
		if w.p.During && w.p.InFlight == "readmeta" {
			if c := w.B.Live(); c != nil && len(w.B.Downs) > 0 {
				w.B.Send(c, &message.DownstreamMetadata{RequestID: 7001, StreamIDAlias: w.B.Downs[0].Alias, SourceNodeID: "src", Metadata: &message.BaseTime{SessionID: "s", Name: "queued"}})
				vsched.Quiesce()
			}
		}
		if w.p.During {
			if c := w.B.Live(); c != nil {
				switch w.p.WriteErr {
				case "goingaway":
					c.Link.WriteResetErr = fmt.Errorf("get writer: %w", iscperrors.ErrConnectionGoingAwayClose)
				case "raw":
					c.Link.WriteResetErr = &net.OpError{Op: "write", Net: "tcp", Err: syscall.EPIPE}
				}
				w.cuts++
				w.estCuts++
				w.B.Cut(c)
			}
			vsched.Sleep(500*time.Millisecond, "h:outage-begins")
		}
		wg.Add(1)
		vsched.Go("h:inflight", func() {
			defer wg.Done()
			w.inflight(ictx)
			w.inflDone = true
		})
	}
	if w.p.InFlight == "read" {
		// the broker sends a chunk for the pending read (the fault hook may cut at that moment);
		// if it was lost with the link it is sent again after recovery
		vsched.Quiesce()
		w.sendDown("first")
	}
	vsched.Sleep(12*time.Second, "h:recover")
	w.Phase = "recover"
	if w.p.InFlight == "read" && !w.inflDone {
		w.sendDown("again")
	}
	wg.Wait()
	vsched.Sleep(3*time.Second, "h:settle")
	w.Phase = "works"
	// resumed streams must keep working
	for i, u := range w.Ups {
		if kit.ReportedClosed(u.Closed) {
			w.works[u.Name] = "reported-closed"
			continue
		}
		wctx, wcancel := kit.Ctx(10 * time.Second)
		tag := fmt.Sprintf("works-%d", i)
		e1 := u.Write(wctx, kit.IDA, tag)
		e2 := u.U.Flush(wctx)
		wcancel()
		vsched.Sleep(time.Second, "h:works")
		got := false
		for _, bu := range w.B.Ups {
			for _, c := range bu.Chunks {
				for _, p := range c.Points {
					if p.Payload == tag {
						got = true
					}
				}
			}
		}
		w.works[u.Name] = fmt.Sprintf("write=%s flush=%s received=%v", kit.ErrKind(e1), kit.ErrKind(e2), got)
	}
	for i, d := range w.Downs {
		if kit.ReportedClosed(d.Closed) {
			w.works[d.Name] = "reported-closed"
			continue
		}
		if w.p.InFlight == "read" && i == 0 {
			continue // exercised by the in-flight read itself
		}
		bi := i
		if i >= w.preDowns {
			bi = len(w.B.Downs) - 1 // the stream opened by the in-flight call: the broker's latest entry (an interrupted open is sent again)
		}
		sent := w.sendDownTo(bi, fmt.Sprintf("works-d%d", i))
		rctx, rcancel := kit.Ctx(10 * time.Second)
		ch, err := d.D.ReadDataPoints(rctx)
		rcancel()
		ok := err == nil && ch != nil && len(ch.DataPointGroups) == 1 && string(ch.DataPointGroups[0].DataPoints[0].Payload) == fmt.Sprintf("works-d%d", i)
		w.works[d.Name] = fmt.Sprintf("sent=%v read=%s ok=%v", sent, kit.ErrKind(err), ok)
	}
	w.discAt, w.reconnAt = len(w.Disc), len(w.Reconn)
	w.liveAtClose = w.B.Live() // the broker's view before the harness closes everything
	w.Phase = "close"
	for _, u := range w.Ups {
		cctx, ccancel := kit.Ctx(15 * time.Second)
		u.U.Close(cctx)
		ccancel()
	}
	for _, d := range w.Downs {
		cctx, ccancel := kit.Ctx(15 * time.Second)
		d.D.Close(cctx)
		ccancel()
	}
	vsched.Quiesce()
	w.Conn.Close(bg)
	w.B.Stop()
	w.Phase = "done"
}

func (w *world) sendDown(tag string) bool { return w.sendDownTo(0, tag) }

func (w *world) sendDownTo(i int, tag string) bool {
	c := w.B.Live()
	if c == nil || i >= len(w.B.Downs) {
		return false
	}
	d := w.B.Downs[i]
	return w.B.Send(c, &message.DownstreamChunk{
		StreamIDAlias:   d.Alias,
		UpstreamOrAlias: &message.UpstreamInfo{SessionID: "s", SourceNodeID: "src", StreamID: sim.StreamUUID('x', 1)},
		StreamChunk: &message.StreamChunk{SequenceNumber: uint32(len(tag)), DataPointGroups: []*message.DataPointGroup{
			{DataIDOrAlias: &message.DataID{Name: "a", Type: "t"}, DataPoints: []*message.DataPoint{{ElapsedTime: 1, Payload: []byte(tag)}}},
		}},
	})
}

func (w *world) inflight(ctx context.Context) {
	switch w.p.InFlight {
	case "openup":
		u, err := w.OpenUp(ctx, "late-up", iscp.WithUpstreamFlushPolicyNone(), iscp.WithUpstreamQoS(message.QoSReliable))
		w.lateUp, w.inflErr = u, err
	case "opendown":
		d, err := w.OpenDown(ctx, "late-down", kit.Filter("src2"), iscp.WithDownstreamQoS(message.QoSReliable))
		w.lateDown, w.inflErr = d, err
	case "meta":
		w.inflErr = w.Conn.SendMetadata(ctx, &message.BaseTime{SessionID: "sess", Name: "inflight"})
	case "call":
		id, err := w.Conn.SendCall(ctx, &iscp.UpstreamCall{DestinationNodeID: "dst", Name: "inflight", Type: "t", Payload: []byte("p")})
		w.callID, w.inflErr = id, err
	case "write":
		u := w.Ups[0]
		if err := u.Write(ctx, kit.IDA, "inflight"); err != nil {
			w.inflErr = err
			return
		}
		w.inflErr = u.U.Flush(ctx)
	case "readmeta":
		// the item is handed out by this read, or (if this read fails because of the outage) by a read after the recovery
		rctx, rcancel := kit.Ctx(2 * time.Second)
		m, err := w.Downs[0].D.ReadMetadata(rctx)
		rcancel()
		w.inflErr = err
		for try := 0; m == nil && try < 2; try++ {
			vsched.Sleep(6*time.Second, "h:read-again-after-recovery")
			rctx, rcancel = kit.Ctx(2 * time.Second)
			m, err = w.Downs[0].D.ReadMetadata(rctx)
			rcancel()
		}
		if m != nil {
			if bt, ok := m.Metadata.(*message.BaseTime); ok {
				w.readRes = bt.Name
			}
		}
	case "read":
		ch, err := w.Downs[0].D.ReadDataPoints(ctx)
		w.inflErr = err
		if ch != nil && len(ch.DataPointGroups) > 0 && len(ch.DataPointGroups[0].DataPoints) > 0 {
			w.readRes = string(ch.DataPointGroups[0].DataPoints[0].Payload)
		}
	}
}

func run(sc vlib.Scenario, cfg vsched.Config) (*vsched.Result, vlib.Verdict) {
	w := &world{p: sc.P.(params)}
	res := vsched.Run(cfg, w.main)
	var v vlib.Verdict
	if w.p.Kind == "lemma" {
		w.lemmaOracle(res, &v)
		return res, v
	}
	if res.Outcome == vsched.Panicked {
		v.Fail("C05.panic", res.Panic.Site, "library panic: %s", res.Panic.Value)
		return res, v
	}
	if w.ConnErr != nil || w.B == nil {
		v.Inconclusive = "connect failed"
		return res, v
	}
	dev := res.Used[vsched.BudP] > 0
	if res.Outcome != vsched.Completed {
		// a blocked API call belongs to C08, but a stream that is silently detached is ours: evaluate what we can
		v.Inconclusive = "not-completed:" + res.Outcome.String() + ":" + w.Phase
	}
	// 1. one token per connect attempt, and each ConnectRequest carries the token fetched for its dial
	if len(w.Tokens) != w.B.Dials {
		v.Fail("C05.token", "count", "token source called %d times for %d dial attempts", len(w.Tokens), w.B.Dials)
	}
	for _, c := range w.B.Conns {
		if c.Connect == nil {
			continue
		}
		want := ""
		if c.DialNo < len(w.Tokens) {
			want = w.Tokens[c.DialNo]
		}
		if c.Connect.AccessToken() != want {
			v.Fail("C05.token", "stale", "incarnation %d (dial %d) connected with token %q, the token fetched for that attempt was %q", c.Idx, c.DialNo, c.Connect.AccessToken(), want)
		}
	}
	if w.cuts == 0 {
		v.Outcome = "no-failure"
		return res, v
	}
	live := w.liveAtClose
	if live == nil && w.Phase != "close" && w.Phase != "done" {
		live = w.B.Live() // the execution did not get as far as the closing phase
	}
	if live == nil || live.Connect == nil {
		v.Inconclusive = "no-live-connection-at-end"
		return res, v
	}
	reached := w.Phase == "works" || w.Phase == "close" || w.Phase == "done"
	// 2. every stream opened before the failure resumed under its original id (or was reported closed)
	for i := 0; i < w.preUps && i < len(w.Ups) && i < len(w.B.Ups); i++ {
		u, bu := w.Ups[i], w.B.Ups[i]
		closed := kit.ReportedClosed(u.Closed)
		resumedOnLive := false
		for _, cn := range bu.Resumes {
			if cn == live.Idx {
				resumedOnLive = true
			}
		}
		if w.p.Refuse && i == 0 {
			resumedOnLive = false // its resume request was refused
		}
		if !closed && !resumedOnLive && reached {
			v.Fail("C05.detached", fmt.Sprintf("upstream/dev=%v", dev), "upstream %s was neither resumed on the live incarnation %d (resume requests on %v) nor reported closed (closed events %v)", u.Name, live.Idx, bu.Resumes, u.Closed)
		}
		if closed && w.p.Conflict && w.cuts == 1 {
			v.Fail("C05.conflict", "upstream-closed-although-accepted", "upstream %s was reported closed (%v) although the broker accepted its resume on the second attempt (first: conflict)", u.Name, u.Closed)
		}
		if closed && w.p.Refuse && i != 0 && w.cuts == 1 {
			v.Fail("C05.isolation", "upstream-closed-with-other", "upstream %s was closed although only stream 0's resume was refused", u.Name)
		}
		if !closed && reached {
			if wk := w.works[u.Name]; wk != "write=nil flush=nil received=true" && resumedOnLive {
				v.Fail("C05.works", "upstream:"+wk, "resumed upstream %s does not work: %s", u.Name, wk)
			}
			if (u.Resumed < 1 || u.Resumed > w.estCuts) && resumedOnLive && !w.p.Refuse {
				v.Fail("C05.events", fmt.Sprintf("upstream-resumed=%d/outages=%d/dev=%v", min(u.Resumed, 3), w.estCuts, dev), "upstream %s: resumed handler fired %d times for %d outages", u.Name, u.Resumed, w.estCuts)
			}
		}
	}
	for i := 0; i < w.preDowns && i < len(w.Downs) && i < len(w.B.Downs); i++ {
		d, bd := w.Downs[i], w.B.Downs[i]
		closed := kit.ReportedClosed(d.Closed)
		resumedOnLive := false
		for _, cn := range bd.Resumes {
			if cn == live.Idx {
				resumedOnLive = true
			}
		}
		if w.p.Refuse && i == 0 && len(w.B.Ups) == 0 {
			resumedOnLive = false // its resume request was refused
		}
		if !closed && !resumedOnLive && reached {
			v.Fail("C05.detached", fmt.Sprintf("downstream/dev=%v", dev), "downstream %s was neither resumed on the live incarnation %d (resume requests on %v) nor reported closed (closed events %v)", d.Name, live.Idx, bd.Resumes, d.Closed)
		}
		if closed && w.p.Conflict && w.cuts == 1 {
			v.Fail("C05.conflict", "downstream-closed-although-accepted", "downstream %s was reported closed (%v) although the broker would accept its resume on the second attempt (first: conflict)", d.Name, d.Closed)
		}
		if !closed && reached && resumedOnLive {
			if wk, ok := w.works[d.Name]; ok && wk != "sent=true read=nil ok=true" {
				v.Fail("C05.works", "downstream:"+wk, "resumed downstream %s does not work: %s", d.Name, wk)
			}
			if (d.Resumed < 1 || d.Resumed > w.estCuts) && !w.p.Refuse {
				v.Fail("C05.events", fmt.Sprintf("downstream-resumed=%d/outages=%d/dev=%v", min(d.Resumed, 3), w.estCuts, dev), "downstream %s: resumed handler fired %d times for %d outages", d.Name, d.Resumed, w.estCuts)
			}
		}
	}
	// 2b. a stream whose open call was interrupted by the failure and sent again works like any other
	if reached && w.p.InFlight == "opendown" && w.inflDone && w.inflErr == nil && w.lateDown != nil && !kit.ReportedClosed(w.lateDown.Closed) {
		if wk, ok := w.works[w.lateDown.Name]; ok && wk != "sent=true read=nil ok=true" {
			v.Fail("C05.works", "late-downstream:"+wk, "the downstream whose open call was interrupted by the failure was opened (nil) but does not work: %s", wk)
		}
	}
	if reached && w.p.InFlight == "openup" && w.inflDone && w.inflErr == nil && w.lateUp != nil && !kit.ReportedClosed(w.lateUp.Closed) {
		if wk, ok := w.works[w.lateUp.Name]; ok && wk != "write=nil flush=nil received=true" {
			v.Fail("C05.works", "late-upstream:"+wk, "the upstream whose open call was interrupted by the failure was opened (nil) but does not work: %s", wk)
		}
	}
	// 3. the in-flight call succeeded after recovery
	if w.p.InFlight != "none" && reached {
		if !w.inflDone {
			v.Fail("C05.inflight", w.p.InFlight+"/never-returned", "the in-flight %s call never returned", w.p.InFlight)
		} else if w.inflErr != nil && w.p.InFlight == "read" && (w.cuts > 1 || (len(w.Downs) > 0 && kit.ReportedClosed(w.Downs[0].Closed))) {
			// the harness re-sends the chunk only once, and a downstream reported closed legitimately fails its reads
		} else if w.inflErr != nil {
			v.Fail("C05.inflight", w.p.InFlight+"/"+kit.ErrKind(w.inflErr), "the %s call interrupted by the failure returned %v instead of being sent again after recovery", w.p.InFlight, w.inflErr)
		} else {
			switch w.p.InFlight {
			case "meta":
				if len(w.B.Metas) == 0 {
					v.Fail("C05.inflight", "meta/dropped", "SendMetadata returned nil but the broker never received the metadata")
				}
			case "call":
				found := false
				for _, c := range w.B.Calls {
					if c.CallID == w.callID {
						found = true
					}
				}
				if !found {
					v.Fail("C05.inflight", "call/dropped", "SendCall returned nil but the broker never received call %q", w.callID)
				}
			case "readmeta":
				if w.readRes != "queued" && !kit.ReportedClosed(w.Downs[0].Closed) {
					v.Fail("C05.inflight", "readmeta/lost", "a metadata item was queued in the downstream when the link died; the read issued during the outage returned %v and no read after the recovery returned the item (got %q): it was dropped", w.inflErr, w.readRes)
				}
			case "read":
				if w.readRes != "first" && w.readRes != "again" && w.cuts <= 1 {
					v.Fail("C05.inflight", "read/wrong", "the pending read returned %q", w.readRes)
				}
			case "write":
				got := false
				for _, bu := range w.B.Ups {
					for _, c := range bu.Chunks {
						for _, p := range c.Points {
							if p.Payload == "inflight" {
								got = true
							}
						}
					}
				}
				if !got && !kit.ReportedClosed(w.Ups[0].Closed) {
					v.Fail("C05.inflight", "write/lost", "Write+Flush around the failure returned nil but the point never reached the broker")
				}
			}
		}
	}
	// 4. connection level notifications once per outage
	if reached {
		if w.discAt != w.estCuts || w.reconnAt != w.estCuts {
			v.Fail("C05.events", fmt.Sprintf("conn/disc=%d/reconn=%d/outages=%d/dev=%v", min(w.discAt, 3), min(w.reconnAt, 3), w.estCuts, dev), "before the final Close: disconnected fired %d times, reconnected %d times for %d outages", w.discAt, w.reconnAt, w.estCuts)
		}
	}
	v.Outcome = fmt.Sprintf("cuts=%d/%d conns=%d infl=%s works=%v", w.cuts, w.estCuts, len(w.B.Conns), kit.ErrKind(w.inflErr), w.works)
	return res, v
}

var _ = errors.Is

func main() {
	vlib.Main(&vlib.Harness{
		Property:  "C05",
		Scenarios: scenarios,
		Config:    config,
		Run:       run,
		Rule:      "mode E: stream sets {up, down, up+down, reliable up + unreliable up} x API call in flight at the failure {none(idle cut), OpenUpstream, OpenDownstream, SendMetadata, SendCall, Write+Flush, ReadDataPoints}; the broker offers a cut at the rx/tx boundary of the in-flight call's request/response, of every resume request/response and of the redial handshake (budget F); redial accepted / refused once; optional refused resume of stream 0; schedule deviations <= P in the status/run/supervisor code. Mode S lemma: connStatus wait primitives x mutator threads, preemption bound 3, switches and select cases free",
		Assumptions: []string{
			"keep-alive 1s/1s on the virtual clock detects the dead link",
			"scheduler semantics of DESIGN.md section 2.2; a cut drops undelivered messages in both directions",
		},
	})
}
