package main

import (
	"context"
	"errors"
	"fmt"
	"strings"

	iscperrors "github.com/aptpod/iscp-go/errors"
	"github.com/aptpod/iscp-go/internal/vcontext"
	"github.com/aptpod/iscp-go/internal/vh/kit"
	"github.com/aptpod/iscp-go/internal/vh/lib"
	"github.com/aptpod/iscp-go/internal/vsched"
	"github.com/aptpod/iscp-go/iscp"
)

const (
	stConnected    = 0
	stReconnecting = 1
	stClosed       = 2
)

type lemma struct {
	name string
	// run starts the threads; expectations are recorded in w.lemmaRes as "who=kind".
	run func(w *world, s *iscp.VerifConnStatus, wg *vsched.WaitGroup)
	// want maps who -> accepted error kinds
	want map[string][]string
}

func (w *world) rec(who string, err error) {
	k := kit.ErrKind(err)
	w.lemmaRes = append(w.lemmaRes, who+"="+k)
}

func spawn(wg *vsched.WaitGroup, site string, f func()) {
	wg.Add(1)
	vsched.Go(site, func() {
		defer wg.Done()
		f()
	})
}

var lemmas = []lemma{
	{
		name: "reconnect-completes",
		run: func(w *world, s *iscp.VerifConnStatus, wg *vsched.WaitGroup) {
			s.CompareAndSwapNot(stClosed, stReconnecting)
			spawn(wg, "h:waiterA", func() { w.rec("A", s.WaitUntilOrClosed(vcontext.Background(), stConnected)) })
			spawn(wg, "h:waiterB", func() { w.rec("B", s.WaitUntil(vcontext.Background(), stConnected)) })
			spawn(wg, "h:mutator", func() { s.CompareAndSwap(stReconnecting, stConnected) })
		},
		want: map[string][]string{"A": {"nil"}, "B": {"nil"}},
	},
	{
		name: "close-while-waiting-for-connected",
		run: func(w *world, s *iscp.VerifConnStatus, wg *vsched.WaitGroup) {
			s.CompareAndSwapNot(stClosed, stReconnecting)
			spawn(wg, "h:waiterA", func() { w.rec("A", s.WaitUntilOrClosed(vcontext.Background(), stConnected)) })
			spawn(wg, "h:mutator", func() { s.Swap(stClosed) })
		},
		want: map[string][]string{"A": {"conn-closed"}},
	},
	{
		name: "wait-or-closed-when-already-closed",
		run: func(w *world, s *iscp.VerifConnStatus, wg *vsched.WaitGroup) {
			s.Swap(stClosed)
			spawn(wg, "h:waiterA", func() { w.rec("A", s.WaitUntilOrClosed(vcontext.Background(), stConnected)) })
		},
		want: map[string][]string{"A": {"conn-closed"}},
	},
	{
		name: "cancelled-context-returns",
		run: func(w *world, s *iscp.VerifConnStatus, wg *vsched.WaitGroup) {
			ctx, cancel := vcontext.WithCancel(vcontext.Background())
			spawn(wg, "h:waiterA", func() { w.rec("A", s.WaitUntil(ctx, stClosed)) })
			spawn(wg, "h:waiterB", func() { w.rec("B", s.WaitUntilOrClosed(ctx, stReconnecting)) })
			spawn(wg, "h:canceller", func() { cancel() })
		},
		want: map[string][]string{"A": {"canceled"}, "B": {"canceled"}},
	},
	{
		name: "with-close-status",
		run: func(w *world, s *iscp.VerifConnStatus, wg *vsched.WaitGroup) {
			ctx, cancel := s.WithCloseStatus(vcontext.Background())
			spawn(wg, "h:waiterA", func() {
				vsched.Recv(ctx.Done(), "h:ctxdone")
				w.rec("A", ctx.Err())
				cancel()
			})
			spawn(wg, "h:mutator", func() { s.Swap(stClosed) })
		},
		want: map[string][]string{"A": {"canceled"}},
	},
	{
		name: "with-close-status-cancelled-first",
		run: func(w *world, s *iscp.VerifConnStatus, wg *vsched.WaitGroup) {
			ctx, cancel := s.WithCloseStatus(vcontext.Background())
			spawn(wg, "h:waiterA", func() {
				vsched.Recv(ctx.Done(), "h:ctxdone")
				w.rec("A", ctx.Err())
			})
			spawn(wg, "h:canceller", func() { cancel() })
		},
		want: map[string][]string{"A": {"canceled"}},
	},
	{
		name: "two-waiters-two-mutators",
		run: func(w *world, s *iscp.VerifConnStatus, wg *vsched.WaitGroup) {
			ctx, cancel := vcontext.WithCancel(vcontext.Background())
			spawn(wg, "h:waiterA", func() { w.rec("A", s.WaitUntilOrClosed(vcontext.Background(), stConnected)) })
			spawn(wg, "h:waiterB", func() { w.rec("B", s.WaitUntil(ctx, stClosed)) })
			spawn(wg, "h:mutator1", func() {
				s.CompareAndSwapNot(stClosed, stReconnecting)
				s.CompareAndSwap(stReconnecting, stConnected)
			})
			spawn(wg, "h:mutator2", func() { cancel() })
		},
		want: map[string][]string{"A": {"nil"}, "B": {"canceled"}},
	},
}

func (w *world) lemmaMain() {
	var l *lemma
	for i := range lemmas {
		if lemmas[i].name == w.p.Lemma {
			l = &lemmas[i]
		}
	}
	s := iscp.VerifNewConnStatus()
	var wg vsched.WaitGroup
	w.Phase = "lemma-running"
	l.run(w, s, &wg)
	wg.Wait()
	w.Phase = "lemma-joined"
	vsched.Quiesce()
	w.Phase = "lemma-done"
}

func (w *world) lemmaOracle(res *vsched.Result, v *vlib.Verdict) {
	var l *lemma
	for i := range lemmas {
		if lemmas[i].name == w.p.Lemma {
			l = &lemmas[i]
		}
	}
	if res.Outcome == vsched.Panicked {
		v.Fail("C05.lemma.panic", res.Panic.Site, "panic: %s", res.Panic.Value)
		return
	}
	if res.Outcome != vsched.Completed {
		var stuck []string
		for _, t := range res.Alive {
			if strings.HasPrefix(t.Name, "h:waiter") {
				stuck = append(stuck, t.Name+"@"+kit.SiteFunc(t.Site))
			}
		}
		v.Fail("C05.lemma.hang", l.name+":"+strings.Join(stuck, ","), "lemma %s: waiters never returned although the awaited condition holds / the context is cancelled: %v (results so far %v)", l.name, stuck, w.lemmaRes)
		return
	}
	for _, r := range w.lemmaRes {
		who, kind, _ := strings.Cut(r, "=")
		ok := false
		for _, k := range l.want[who] {
			if k == kind {
				ok = true
			}
		}
		if !ok {
			v.Fail("C05.lemma.result", l.name+":"+r, "lemma %s: waiter %s returned %s, expected one of %v", l.name, who, kind, l.want[who])
		}
	}
	for _, t := range res.Alive {
		if t.Lib {
			v.Fail("C05.lemma.leak", l.name+":"+kit.SiteFunc(t.Site), "lemma %s: library thread %s still parked at %s after every waiter returned", l.name, t.Name, t.Site)
		}
	}
	v.Outcome = fmt.Sprint(l.name, w.lemmaRes)
}

var (
	_ = errors.Is
	_ = iscperrors.ErrISCP
	_ context.Context
)
