package main

// Adapters around the code under test. Every call into the library is guarded: a panic is turned
// into a value naming the panicking library function.

import (
	"fmt"
	"net/url"
	"runtime"
	"sort"
	"strings"

	"github.com/aptpod/iscp-go/transport"
	"github.com/aptpod/iscp-go/transport/compress"
	tquic "github.com/aptpod/iscp-go/transport/quic"
	tws "github.com/aptpod/iscp-go/transport/websocket"
	twt "github.com/aptpod/iscp-go/transport/webtransport"
)

const (
	carKV  = "keyvalues"
	carWS  = "url/websocket"
	carWT  = "url/webtransport"
	carBin = "quic-binary"
)

var carriers = []string{carKV, carWS, carWT, carBin}

const modPrefix = "github.com/aptpod/iscp-go/"

// panicSite returns the innermost library function on the stack of a panic being recovered.
func panicSite() string {
	pcs := make([]uintptr, 64)
	n := runtime.Callers(3, pcs)
	fr := runtime.CallersFrames(pcs[:n])
	for {
		f, more := fr.Next()
		if strings.HasPrefix(f.Function, modPrefix) && !strings.Contains(f.Function, "/internal/vh/") {
			return strings.TrimPrefix(f.Function, modPrefix)
		}
		if !more {
			break
		}
	}
	return "non-library-code"
}

// guard runs f; pan != "" if it panicked.
func guard(f func()) (pan, msg string) {
	defer func() {
		if r := recover(); r != nil {
			pan, msg = panicSite(), fmt.Sprint(r)
		}
	}()
	f()
	return
}

func fromLib(p transport.NegotiationParams) pset {
	q := pset{Enc: string(p.Encoding), Comp: string(p.Compress), TID: string(p.TransportID), Reconnect: p.Reconnect,
		TGID: string(p.TransportGroupID), TGCount: p.TransportGroupTotalCount, TGIdx: p.TransportGroupIndex}
	if p.CompressLevel != nil {
		q.Level = ip(*p.CompressLevel)
	}
	if p.CompressWindowBits != nil {
		q.Bits = ip(*p.CompressWindowBits)
	}
	return q
}

func toLib(p pset) transport.NegotiationParams {
	q := transport.NegotiationParams{Encoding: transport.EncodingName(p.Enc), Compress: compress.Type(p.Comp),
		TransportID: transport.TransportID(p.TID), Reconnect: p.Reconnect, TransportGroupID: transport.TransportGroupID(p.TGID),
		TransportGroupTotalCount: p.TGCount, TransportGroupIndex: p.TGIdx}
	if p.Level != nil {
		q.CompressLevel = ip(*p.Level)
	}
	if p.Bits != nil {
		q.CompressWindowBits = ip(*p.Bits)
	}
	return q
}

func toValues(pairs []pair) url.Values {
	v := url.Values{}
	for _, kv := range pairs {
		v[kv[0]] = append(v[kv[0]], kv[1])
	}
	return v
}

type implDecoded struct {
	Pre, Post pset   // after Unmarshal, after Validate
	ErrStage  string // "" | "Unmarshal" | "Validate"
	Err       error
	Pan, Msg  string
}

// implUnmarshal feeds pairs (or raw bytes for the binary carrier) to the library's reader of the
// carrier and then validates.
func implUnmarshal(carrier string, pairs []pair, bin []byte, emptyValueKeys []string) (r implDecoded) {
	var np transport.NegotiationParams
	r.Pan, r.Msg = guard(func() {
		switch carrier {
		case carKV:
			m := map[string]string{}
			for _, kv := range pairs {
				m[kv[0]] = kv[1]
			}
			r.Err = np.UnmarshalKeyValues(m)
		case carWS:
			v := toValues(pairs)
			for _, k := range emptyValueKeys {
				v[k] = []string{}
			}
			p := tws.NegotiationParams{}
			r.Err = p.UnmarshalURLValues(v)
			np = p.NegotiationParams
		case carWT:
			v := toValues(pairs)
			for _, k := range emptyValueKeys {
				v[k] = []string{}
			}
			p := twt.NegotiationParams{}
			r.Err = p.UnmarshalURLValues(v)
			np = p.NegotiationParams
		case carBin:
			if bin == nil {
				bin = refBinary(pairs)
			}
			p := tquic.NegotiationParams{}
			r.Err = p.Unmarshal(bin)
			np = p.NegotiationParams
		}
	})
	if r.Pan != "" {
		return
	}
	if r.Err != nil {
		r.ErrStage = "Unmarshal"
		return
	}
	r.Pre = fromLib(np)
	r.Pan, r.Msg = guard(func() { r.Err = np.Validate() })
	if r.Pan != "" {
		return
	}
	if r.Err != nil {
		r.ErrStage = "Validate"
		return
	}
	r.Post = fromLib(np)
	return
}

type implMarshalled struct {
	Pairs    []pair // decoded from the marshalled form by the reference reader, sorted
	Bin      []byte
	Values   url.Values
	Err      error
	Class    string // structural problem of the marshalled form according to the reference reader
	Pan, Msg string
}

func sortPairs(p []pair) []pair {
	sort.SliceStable(p, func(i, j int) bool { return p[i][0] < p[j][0] })
	return p
}

// implMarshal lets the library marshal a set to a carrier.
func implMarshal(carrier string, p pset) (r implMarshalled) {
	np := toLib(p)
	r.Pan, r.Msg = guard(func() {
		switch carrier {
		case carKV:
			var m map[string]string
			m, r.Err = np.MarshalKeyValues()
			for k, v := range m {
				r.Pairs = append(r.Pairs, pair{k, v})
			}
		case carWS, carWT:
			var v url.Values
			if carrier == carWS {
				v, r.Err = (&tws.NegotiationParams{NegotiationParams: np}).MarshalURLValues()
			} else {
				v, r.Err = (&twt.NegotiationParams{NegotiationParams: np}).MarshalURLValues()
			}
			r.Values = v
			for k, vs := range v {
				for _, s := range vs {
					r.Pairs = append(r.Pairs, pair{k, s})
				}
			}
		case carBin:
			r.Bin, r.Err = (&tquic.NegotiationParams{NegotiationParams: np}).Marshal()
			if r.Err == nil {
				r.Pairs, r.Class = refParseBinary(r.Bin)
			}
		}
	})
	sortPairs(r.Pairs)
	return
}

func pairsEqual(a, b []pair) bool {
	if len(a) != len(b) {
		return false
	}
	for i := range a {
		if a[i] != b[i] {
			return false
		}
	}
	return true
}

func fmtPairs(p []pair) string {
	var sb strings.Builder
	sb.WriteString("[")
	for i, kv := range p {
		if i > 0 {
			sb.WriteString(" ")
		}
		fmt.Fprintf(&sb, "%q=%q", kv[0], kv[1])
	}
	sb.WriteString("]")
	return sb.String()
}
