// c17: bounded-exhaustive enumeration (mode I) deciding property C17 – negotiation parameters
// round-trip through every carrier, invalid sets are rejected rather than misread, and the derived
// compression configuration is a function of the parameters alone.
//
// Every case is a value of rcase; eval(rcase) is a pure function returning the violated clauses,
// which makes -replay trivial. The oracle lives in ref.go and shares no code with the library.
package main

import (
	"bufio"
	"encoding/hex"
	"encoding/json"
	"fmt"
	"net"
	"net/url"
	"runtime"
	"strconv"
	"strings"
	"sync"
	"sync/atomic"
	"time"

	"github.com/aptpod/iscp-go/internal/vh/lib"
	"github.com/aptpod/iscp-go/transport"
	"github.com/aptpod/iscp-go/transport/compress"
	"github.com/aptpod/iscp-go/transport/websocket"
	wsgorilla "github.com/aptpod/iscp-go/transport/websocket/gorilla"
)

// ---------- cases ----------

type ccJSON struct {
	Enable     bool `json:"enable"`
	Level      int  `json:"level"`
	PerMessage bool `json:"per_message"`
	WindowBits int  `json:"window_bits"`
}

type dialJSON struct {
	CC        ccJSON `json:"cc"`
	Enc       string `json:"enc"`
	TID       string `json:"tid"`
	Reconnect bool   `json:"reconnect"`
	TGID      string `json:"tgid"`
	TGCount   int    `json:"tgcount"`
	TGIdx     int    `json:"tgidx"`
}

type rcase struct {
	Kind    string `json:"kind"` // decode | roundtrip | compress | dial | longvalue
	Carrier string `json:"carrier,omitempty"`
	// decode: the pairs handed to the carrier's reader, Go-quoted (strconv.Quote) so that invalid
	// UTF-8 survives the replay file; for the binary carrier Bin (hex) takes precedence.
	Pairs      [][2]string `json:"pairs,omitempty"`
	Bin        *string     `json:"bin_hex,omitempty"`
	EmptyValue []string    `json:"keys_with_zero_values,omitempty"` // URL carriers: keys present with an empty value list
	P          *pset       `json:"params,omitempty"`                // roundtrip | compress
	Dial       *dialJSON   `json:"dial,omitempty"`
	Len        int         `json:"len,omitempty"` // longvalue: length of the transport id
}

type viol struct{ Sig, Detail string }

func quotePairs(p []pair) [][2]string {
	r := make([][2]string, len(p))
	for i, kv := range p {
		r[i] = [2]string{strconv.Quote(kv[0]), strconv.Quote(kv[1])}
	}
	return r
}

func unquotePairs(q [][2]string) []pair {
	r := make([]pair, len(q))
	for i, kv := range q {
		k, err1 := strconv.Unquote(kv[0])
		v, err2 := strconv.Unquote(kv[1])
		if err1 != nil || err2 != nil {
			panic("bad replay file: pairs must be Go-quoted strings")
		}
		r[i] = pair{k, v}
	}
	return r
}

func decodeCase(carrier string, pairs []pair) rcase {
	return rcase{Kind: "decode", Carrier: carrier, Pairs: quotePairs(pairs)}
}

func binCase(b []byte) rcase {
	h := hex.EncodeToString(b)
	return rcase{Kind: "decode", Carrier: carBin, Bin: &h}
}

// ---------- evaluation ----------

func eval(c rcase) []viol {
	switch c.Kind {
	case "decode":
		var bin []byte
		if c.Bin != nil {
			bin, _ = hex.DecodeString(*c.Bin)
			if bin == nil {
				bin = []byte{}
			}
		}
		return evalDecode(c.Carrier, unquotePairs(c.Pairs), bin, c.EmptyValue)
	case "roundtrip":
		return evalRoundTrip(c.Carrier, *c.P)
	case "badid":
		return evalBadID(c.Carrier, *c.P)
	case "backend-url":
		return evalBackendURL(c.Carrier, c.P.TID)
	case "compress":
		return evalCompress(*c.P)
	case "dial":
		return evalDial(c.Carrier, *c.Dial)
	case "longvalue":
		return evalLongValue(c.Len)
	}
	panic("unknown case kind " + c.Kind)
}

func hasCaseVariant(pairs []pair) string {
	for _, kv := range pairs {
		if k := caseVariantOf(kv[0]); k != "" {
			return kv[0] + "~" + k
		}
	}
	return ""
}

// evalDecode: reference verdict on what the carrier delivers versus the library's
// Unmarshal-then-Validate.
func evalDecode(carrier string, pairs []pair, bin []byte, emptyValueKeys []string) (vs []viol) {
	var ref refResult
	input := fmtPairs(pairs)
	switch {
	case bin != nil:
		input = "bytes " + hex.EncodeToString(bin)
		p, class := refParseBinary(bin)
		if class != "" {
			ref = invalid(class, carrier)
		} else {
			pairs = p
			ref = refDecode(carrier, p)
			input += " = " + fmtPairs(p)
		}
	case len(emptyValueKeys) > 0:
		ref = invalid("key-without-value", carrier)
		input += fmt.Sprintf(" + keys with zero values %q", emptyValueKeys)
	default:
		ref = refDecode(carrier, pairs)
	}
	got := implUnmarshal(carrier, pairs, bin, emptyValueKeys)
	if got.Pan != "" {
		return []viol{{"C17.no-panic:" + got.Pan, fmt.Sprintf("%s reader panicked on %s: %s", carrier, input, got.Msg)}}
	}
	if !ref.Valid {
		if got.ErrStage == "" {
			vs = append(vs, viol{"C17.reject-invalid:" + ref.Class + "@" + ref.Stage,
				fmt.Sprintf("carrier %s, input %s: invalid (%s) but Unmarshal and Validate both succeed; read as %v", carrier, input, ref.Class, got.Post)})
		}
		return
	}
	cv := hasCaseVariant(pairs)
	if got.ErrStage != "" {
		if cv != "" {
			return []viol{{"C17.unknown-key:case-variant-key-read-as-known@UnmarshalKeyValues",
				fmt.Sprintf("carrier %s, input %s: key %s is not a parameter name and must be ignored, but %s fails: %v", carrier, input, cv, got.ErrStage, got.Err)}}
		}
		return []viol{{"C17.accept-valid:rejected-by-" + got.ErrStage + "@" + carrier,
			fmt.Sprintf("carrier %s, input %s: valid set %v rejected by %s: %v", carrier, input, ref.P, got.ErrStage, got.Err)}}
	}
	if d := ref.P.diff(got.Pre); d != "" {
		if cv != "" {
			return []viol{{"C17.unknown-key:case-variant-key-read-as-known@UnmarshalKeyValues",
				fmt.Sprintf("carrier %s, input %s: key %s is not a parameter name and must be ignored; expected %v, read %v", carrier, input, cv, ref.P, got.Pre)}}
		}
		return []viol{{"C17.decode:misread(" + d + ")@" + carrier,
			fmt.Sprintf("carrier %s, input %s: expected %v, Unmarshal gave %v", carrier, input, ref.P, got.Pre)}}
	}
	if d := refValidated(ref.P).diff(got.Post); d != "" {
		vs = append(vs, viol{"C17.validate:changes(" + d + ")",
			fmt.Sprintf("carrier %s, input %s: after Validate expected %v, got %v", carrier, input, refValidated(ref.P), got.Post)})
	}
	return
}

func keysDiffering(a, b []pair) string {
	ma, mb := map[string]string{}, map[string]string{}
	for _, kv := range a {
		ma[kv[0]] += "\x00" + kv[1]
	}
	for _, kv := range b {
		mb[kv[0]] += "\x00" + kv[1]
	}
	seen := map[string]bool{}
	var d []string
	for _, kv := range append(append([]pair{}, a...), b...) {
		if !seen[kv[0]] && ma[kv[0]] != mb[kv[0]] {
			d = append(d, kv[0])
		}
		seen[kv[0]] = true
	}
	return strings.Join(d, "+")
}

// evalRoundTrip: the library marshals a valid set; the marshalled form must be the documented one
// (reference encoder) and must be read back unchanged, by the library's reader.
// evalBackendURL: the WebSocket back-ends get the URL the dialer built (ws://host/path?query) and must request exactly
// that: a local listener records the request line of the upgrade request.
func evalBackendURL(backend, tid string) (vs []viol) {
	ln, err := net.Listen("tcp", "127.0.0.1:0")
	if err != nil {
		return []viol{{"C17.harness:listen", err.Error()}}
	}
	defer ln.Close()
	got := make(chan string, 1)
	go func() {
		c, err := ln.Accept()
		if err != nil {
			got <- ""
			return
		}
		defer c.Close()
		c.SetDeadline(time.Now().Add(5 * time.Second))
		line, _ := bufio.NewReader(c).ReadString('\n')
		got <- line
	}()
	q := url.Values{}
	q.Set("tid", tid)
	target := "/" + tid + "/connect?" + q.Encode()
	u := "ws://" + ln.Addr().String() + target
	var dial func(websocket.DialConfig) (websocket.Conn, error)
	switch backend {
	case "gorilla":
		dial = wsgorilla.DialWithTLS
	}
	done := make(chan struct{})
	go func() {
		defer close(done)
		defer func() { recover() }()
		if c, err := dial(websocket.DialConfig{URL: u}); err == nil && c != nil {
			c.Close()
		}
	}()
	var line string
	select {
	case line = <-got:
	case <-time.After(10 * time.Second):
		return []viol{{"C17.backend-url:no-request@" + backend, "the back-end never connected to the listener for " + u}}
	}
	ln.Close()
	select {
	case <-done:
	case <-time.After(10 * time.Second):
	}
	f := strings.Fields(line)
	if len(f) < 2 || f[1] != target {
		return []viol{{"C17.backend-url:rewritten@" + backend, fmt.Sprintf("dial of %q requested %q, expected request target %q", u, line, target)}}
	}
	return nil
}

// evalBadID: ids that are not valid UTF-8 on the writer side. The writer may refuse them; what it must not do is
// send a different id without saying so.
func evalBadID(carrier string, p pset) (vs []viol) {
	m := implMarshal(carrier, p)
	if m.Pan != "" {
		return []viol{{"C17.no-panic:" + m.Pan, fmt.Sprintf("%s marshal of %v panicked: %s", carrier, p, m.Msg)}}
	}
	if m.Err != nil || m.Class != "" {
		return nil // refused (or a form the reader rejects as malformed)
	}
	for _, kv := range m.Pairs {
		switch {
		case kv[0] == "tid" && p.TID != "" && kv[1] != p.TID:
			vs = append(vs, viol{"C17.wire-form:id-rewritten(tid)@" + carrier, fmt.Sprintf("marshal of transport id %q (invalid UTF-8) silently sends %q", p.TID, kv[1])})
		case kv[0] == "tgid" && p.TGID != "" && kv[1] != p.TGID:
			vs = append(vs, viol{"C17.wire-form:id-rewritten(tgid)@" + carrier, fmt.Sprintf("marshal of transport group id %q (invalid UTF-8) silently sends %q", p.TGID, kv[1])})
		}
	}
	return vs
}

func evalRoundTrip(carrier string, p pset) (vs []viol) {
	m := implMarshal(carrier, p)
	if m.Pan != "" {
		return []viol{{"C17.no-panic:" + m.Pan, fmt.Sprintf("%s marshal of %v panicked: %s", carrier, p, m.Msg)}}
	}
	if m.Err != nil {
		return []viol{{"C17.roundtrip:marshal-fails@" + carrier, fmt.Sprintf("marshal of valid set %v: %v", p, m.Err)}}
	}
	if m.Class != "" {
		return []viol{{"C17.wire-form:malformed(" + m.Class + ")@" + carrier, fmt.Sprintf("marshal of %v gives %x, which is not a well-formed binary form (%s)", p, m.Bin, m.Class)}}
	}
	want := refPairs(p)
	if !pairsEqual(m.Pairs, want) {
		vs = append(vs, viol{"C17.wire-form:differs(" + keysDiffering(m.Pairs, want) + ")@" + carrier,
			fmt.Sprintf("marshal of %v gives %s, documented form is %s", p, fmtPairs(m.Pairs), fmtPairs(want))})
	}
	check := func(how string, got implDecoded) {
		if got.Pan != "" {
			vs = append(vs, viol{"C17.no-panic:" + got.Pan, fmt.Sprintf("%s unmarshal(marshal(%v)) panicked: %s", carrier, p, got.Msg)})
			return
		}
		if got.ErrStage != "" {
			vs = append(vs, viol{"C17.roundtrip:rejected-by-" + got.ErrStage + "@" + carrier,
				fmt.Sprintf("%s: valid set %v, marshalled as %s, is rejected by %s: %v", how, p, fmtPairs(m.Pairs), got.ErrStage, got.Err)})
			return
		}
		if d := p.diff(got.Pre); d != "" {
			vs = append(vs, viol{"C17.roundtrip:not-identity(" + d + ")@" + carrier,
				fmt.Sprintf("%s: %v marshalled as %s comes back as %v", how, p, fmtPairs(m.Pairs), got.Pre)})
			return
		}
		if d := refValidated(p).diff(got.Post); d != "" {
			vs = append(vs, viol{"C17.validate:changes(" + d + ")",
				fmt.Sprintf("%s: Validate turned %v into %v, expected %v", how, p, got.Post, refValidated(p))})
		}
	}
	switch carrier {
	case carBin:
		check("binary", implUnmarshal(carrier, nil, m.Bin, nil))
	case carKV:
		check("map", implUnmarshal(carrier, m.Pairs, nil, nil))
	default:
		check("values", implUnmarshal(carrier, m.Pairs, nil, nil))
		// and through the query string, as the dialer sends it
		parsed, err := url.ParseQuery(m.Values.Encode())
		if err != nil {
			vs = append(vs, viol{"C17.roundtrip:query-string-unparsable@" + carrier, fmt.Sprintf("%v: %q: %v", p, m.Values.Encode(), err)})
			break
		}
		var pp []pair
		for k, l := range parsed {
			for _, s := range l {
				pp = append(pp, pair{k, s})
			}
		}
		check("query string "+m.Values.Encode(), implUnmarshal(carrier, sortPairs(pp), nil, nil))
	}
	return
}

// compress bases: every combination of {zero value, flipped} per field.
func compressBases() []compress.Config {
	var r []compress.Config
	for m := 0; m < 16; m++ {
		var c compress.Config
		if m&1 != 0 {
			c.Enable = true
		}
		if m&2 != 0 {
			c.Level = 3
		}
		if m&4 != 0 {
			c.DisableContextTakeover = true
		}
		if m&8 != 0 {
			c.WindowBits = 10
		}
		r = append(r, c)
	}
	return r
}

var bases = compressBases()

func levelClass(p *int) string {
	switch {
	case p == nil:
		return "nil"
	case *p == 0:
		return "zero"
	}
	return "nonzero"
}

// checkCC compares a derived configuration with the reference derivation.
func checkCC(p pset, base, got compress.Config, who string) (vs []viol) {
	ref := refCompress(p)
	if got.Enable != ref.Enable {
		return []viol{{"C17.compress-config:enable-wrong/level-" + levelClass(p.Level),
			fmt.Sprintf("%s: %v with base %+v derives Enable=%v, expected %v", who, p, base, got.Enable, ref.Enable)}}
	}
	if !ref.Enable {
		return // everything else is documented to be ignored
	}
	if got.Level != *ref.Level {
		vs = append(vs, viol{"C17.compress-config:level-wrong", fmt.Sprintf("%s: %v with base %+v derives level %d", who, p, base, got.Level)})
	}
	if ref.Bits != nil && got.WindowBits != *ref.Bits {
		vs = append(vs, viol{"C17.compress-config:window-bits-wrong", fmt.Sprintf("%s: %v with base %+v derives window bits %d", who, p, base, got.WindowBits)})
	}
	if ref.PerMsg != nil && got.DisableContextTakeover != *ref.PerMsg {
		vs = append(vs, viol{"C17.compress-config:mode-wrong", fmt.Sprintf("%s: %v with base %+v derives DisableContextTakeover=%v", who, p, base, got.DisableContextTakeover)})
	}
	return
}

// sameSettings: two derived configurations are the same settings (a disabled configuration's other
// fields are documented to be ignored).
func sameSettings(a, b compress.Config) string {
	if a.Enable != b.Enable {
		return "enable"
	}
	if !a.Enable {
		return ""
	}
	switch {
	case a.Level != b.Level:
		return "level"
	case a.WindowBits != b.WindowBits:
		return "window-bits"
	case a.DisableContextTakeover != b.DisableContextTakeover:
		return "mode"
	}
	return ""
}

func evalCompress(p pset) (vs []viol) {
	np := toLib(p)
	res := make([]compress.Config, len(bases))
	for i, b := range bases {
		i, b := i, b
		if pan, msg := guard(func() { res[i] = np.CompressConfig(b) }); pan != "" {
			return []viol{{"C17.no-panic:" + pan, fmt.Sprintf("CompressConfig(%+v) of %v panicked: %s", b, p, msg)}}
		}
		if d := p.diff(fromLib(np)); d != "" {
			return []viol{{"C17.compress-config:mutates-params(" + d + ")", fmt.Sprintf("CompressConfig changed %v into %v", p, fromLib(np))}}
		}
		vs = append(vs, checkCC(p, b, res[i], "CompressConfig")...)
	}
	if p.Comp != "" && p.Level != nil && p.Bits != nil {
		// the property, literally: a function of the parameters alone
		for i := range bases {
			if d := sameSettings(res[0], res[i]); d != "" {
				vs = append(vs, viol{"C17.compress-config:depends-on-base(" + d + ")",
					fmt.Sprintf("%v names type, level and window, yet base %+v gives %+v and base %+v gives %+v", p, bases[0], res[0], bases[i], res[i])})
				break
			}
		}
	}
	return
}

func (d dialJSON) lib() transport.DialConfig {
	return transport.DialConfig{Address: "example:1",
		CompressConfig: compress.Config{Enable: d.CC.Enable, Level: d.CC.Level, DisableContextTakeover: d.CC.PerMessage, WindowBits: d.CC.WindowBits},
		EncodingName:   transport.EncodingName(d.Enc), TransportID: transport.TransportID(d.TID), Reconnect: d.Reconnect,
		TransportGroupID: transport.TransportGroupID(d.TGID), TransportGroupTotalCount: d.TGCount, TransportGroupIndex: d.TGIdx}
}

// evalDial: what a dialer of the library sends (DialConfig.NegotiationParams) names type, level and
// window; the peer that reads it from the carrier derives the same settings as the dialling side,
// whatever its own base configuration is.
func evalDial(carrier string, d dialJSON) (vs []viol) {
	dc := d.lib()
	var np transport.NegotiationParams
	if pan, msg := guard(func() { np = dc.NegotiationParams() }); pan != "" {
		return []viol{{"C17.no-panic:" + pan, fmt.Sprintf("%+v: %s", d, msg)}}
	}
	p := fromLib(np)
	mode := compCT
	if d.CC.PerMessage {
		mode = compPM
	}
	want := pset{Enc: d.Enc, Comp: mode, Level: ip(d.CC.Level), Bits: ip(d.CC.WindowBits), TID: d.TID, Reconnect: d.Reconnect, TGID: d.TGID, TGCount: d.TGCount, TGIdx: d.TGIdx}
	if df := want.diff(p); df != "" {
		return []viol{{"C17.dialer:params-do-not-carry(" + df + ")", fmt.Sprintf("dial config %+v produces %v, expected %v", d, p, want)}}
	}
	var client compress.Config
	if pan, msg := guard(func() { client = np.CompressConfig(dc.CompressConfig) }); pan != "" {
		return []viol{{"C17.no-panic:" + pan, msg}}
	}
	m := implMarshal(carrier, p)
	if m.Pan != "" || m.Err != nil || m.Class != "" {
		return []viol{{"C17.both-peers:cannot-marshal@" + carrier, fmt.Sprintf("%v: %v %s %s", p, m.Err, m.Class, m.Pan)}}
	}
	got := implUnmarshal(carrier, m.Pairs, m.Bin, nil)
	if got.Pan != "" {
		return []viol{{"C17.no-panic:" + got.Pan, got.Msg}}
	}
	if got.ErrStage != "" {
		return []viol{{"C17.both-peers:peer-rejects-dialer-params(" + got.ErrStage + ")@" + carrier, fmt.Sprintf("dial config %+v: params %v rejected: %v", d, p, got.Err)}}
	}
	srv := toLib(got.Post)
	for _, b := range bases {
		var server compress.Config
		if pan, msg := guard(func() { server = srv.CompressConfig(b) }); pan != "" {
			return []viol{{"C17.no-panic:" + pan, msg}}
		}
		if df := sameSettings(client, server); df != "" {
			vs = append(vs, viol{"C17.both-peers:derived-config-differs(" + df + ")@" + carrier,
				fmt.Sprintf("dial config %+v: dialling side derives %+v, peer with base %+v derives %+v from %v", d, client, b, server, got.Post)})
			break
		}
	}
	return
}

// evalLongValue: a transport id of n bytes through the binary form, whose length prefix is 16 bits:
// either it round-trips or Marshal refuses it.
func evalLongValue(n int) []viol {
	p := pset{TID: strings.Repeat("x", n)}
	m := implMarshal(carBin, p)
	if m.Pan != "" {
		return []viol{{"C17.no-panic:" + m.Pan, m.Msg}}
	}
	if m.Err != nil {
		if n > 65535 {
			return nil // refused: fine
		}
		return []viol{{"C17.roundtrip:marshal-fails@" + carBin, fmt.Sprintf("transport id of %d bytes: %v", n, m.Err)}}
	}
	got := implUnmarshal(carBin, nil, m.Bin, nil)
	if got.Pan != "" {
		return []viol{{"C17.no-panic:" + got.Pan, got.Msg}}
	}
	if got.ErrStage != "" || p.diff(got.Pre) != "" {
		return []viol{{"C17.roundtrip:value-longer-than-65535-bytes-silently-mangled@" + carBin,
			fmt.Sprintf("transport id of %d bytes: Marshal succeeds (%d bytes) but the result reads back as tid of %d bytes (err=%v); the 16-bit length prefix wrapped", n, len(m.Bin), len(got.Pre.TID), got.Err)}}
	}
	return nil
}

// ---------- enumeration ----------

var (
	encs   = []string{"", encJSON, encProto}
	comps  = []string{"", compPM, compCT}
	levels = []*int{nil, ip(0), ip(1), ip(2), ip(3), ip(4), ip(5), ip(6), ip(7), ip(8), ip(9)}
	bitss  = []*int{nil, ip(0), ip(1), ip(8), ip(15), ip(32)}
)

// grid: encoding × compress × level × window bits [× reconnect × transport id × transport group].
func grid(full bool) []pset {
	var r []pset
	for _, e := range encs {
		for _, c := range comps {
			for _, l := range levels {
				for _, b := range bitss {
					if !full {
						r = append(r, pset{Enc: e, Comp: c, Level: l, Bits: b})
						continue
					}
					for _, rec := range []bool{false, true} {
						for _, tid := range []string{"", "f5dabdfc-17e7-4e29-8ca4-dfba8f4e719d"} {
							for _, tg := range []bool{false, true} {
								p := pset{Enc: e, Comp: c, Level: l, Bits: b, Reconnect: rec, TID: tid}
								if tg {
									p.TGID, p.TGCount, p.TGIdx = "group-1", 2, 1
								}
								r = append(r, p)
							}
						}
					}
				}
			}
		}
	}
	return r
}

func setKey(pairs []pair, k, v string) []pair {
	r := make([]pair, 0, len(pairs)+1)
	done := false
	for _, kv := range pairs {
		if kv[0] == k {
			r = append(r, pair{k, v})
			done = true
		} else {
			r = append(r, kv)
		}
	}
	if !done {
		r = append(r, pair{k, v})
	}
	return r
}

type mutation struct {
	name string
	f    func([]pair) []pair
}

func set(k, v string) mutation {
	return mutation{fmt.Sprintf("%s=%q", k, v), func(p []pair) []pair { return setKey(p, k, v) }}
}

var nonNumeric = []string{"", "abc", "1.5", "1e1", " 5", "5 ", "+5", "0x5", "null", "true", "-", "99999999999999999999", "٣"}
var badUTF8 = []string{"\xff", "ab\xff", "\xc3", "\xed\xa0\x80", "\xc0\xaf"}

// invalidMutations: the invalid alphabet, one mutation at a time.
func invalidMutations() []mutation {
	var m []mutation
	for _, v := range []string{"unknown", "JSON", "protobuf", "json "} {
		m = append(m, set("enc", v))
	}
	for _, v := range []string{"unknown", "Per-Message", "per_message", "deflate"} {
		m = append(m, set("comp", v))
	}
	for _, v := range []string{"-1", "10", "99"} {
		m = append(m, set("clevel", v))
	}
	for _, v := range []string{"-1", "33"} {
		m = append(m, set("cwinbits", v))
	}
	for _, k := range []string{"clevel", "cwinbits", "tgcount", "tgidx"} {
		for _, v := range nonNumeric {
			m = append(m, set(k, v))
		}
	}
	for _, v := range []string{"1", "TRUE", "yes", ""} {
		m = append(m, set("reconnect", v))
	}
	m = append(m, set("", "x"), set("", ""))
	for _, s := range badUTF8 {
		m = append(m, set("tid", s), set("tgid", s), set("enc", s), set("unknown", s), set("k"+s, "v"))
	}
	return m
}

// validMutations keep a set valid: unknown keys, explicitly transmitted zero values.
func validMutations() []mutation {
	return []mutation{
		{"identity", func(p []pair) []pair { return p }},
		set("unknown", "value"), set("x", ""), set("reconnect", "false"), set("日本", "語"),
	}
}

// caseVariantMutations add a key that differs from a parameter name only by case (or by a
// character that case-insensitive matchers fold into an ASCII letter): not a parameter name.
func caseVariantMutations() []mutation {
	return []mutation{set("ENC", "proto"), set("Enc", "bogus"), set("Comp", "per-message"), set("CLEVEL", "9"),
		{"Clevel=9+clevel=7", func(p []pair) []pair { return setKey(setKey(p, "clevel", "7"), "Clevel", "9") }},
		set("cwinbitſ", "15"), set("Reconnect", "true"), set("TID", "other")}
}

type runner struct {
	e     *vlib.Explore
	nSamp int64

	mu   sync.Mutex
	best map[string]*found
}

// found: per signature the number of violating cases and the smallest one (shortest rendering,
// then lexicographic) – independent of the order in which the workers happen to finish.
type found struct {
	n      int
	key    string
	detail string
	c      rcase
}

func (r *runner) violation(v viol, c rcase) {
	kb, _ := json.Marshal(c)
	key := string(kb)
	r.mu.Lock()
	defer r.mu.Unlock()
	if r.best == nil {
		r.best = map[string]*found{}
	}
	f := r.best[v.Sig]
	if f == nil {
		r.best[v.Sig] = &found{1, key, v.Detail, c}
		return
	}
	f.n++
	if len(key) < len(f.key) || (len(key) == len(f.key) && key < f.key) {
		f.key, f.detail, f.c = key, v.Detail, c
	}
}

// flush hands the collected violations to the explorer (smallest case first, so that it is the one
// stored in the replay file; the other calls only count).
func (r *runner) flush() {
	for sig, f := range r.best {
		r.e.Violation(sig, f.detail, f.c)
		for i := 1; i < f.n; i++ {
			r.e.Violation(sig, "", nil)
		}
	}
}

// run evaluates one case, records it and its violations.
func (r *runner) run(family string, c rcase) {
	vs := eval(c)
	key, _ := json.Marshal(c)
	r.e.Case(family, string(key))
	for _, v := range vs {
		r.violation(v, c)
	}
	if n := atomic.AddInt64(&r.nSamp, 1); (n+int64(r.e.Seed))%200003 == 1 {
		r.e.Sample(map[string]any{"family": family, "case": c, "violations": len(vs)})
	}
}

// parallel runs f(i) for i in [0,n) on all cores.
func parallel(n int, f func(i int)) {
	var wg sync.WaitGroup
	var next int64 = -1
	for w := 0; w < runtime.NumCPU(); w++ {
		wg.Add(1)
		go func() {
			defer wg.Done()
			for {
				i := int(atomic.AddInt64(&next, 1))
				if i >= n {
					return
				}
				f(i)
			}
		}()
	}
	wg.Wait()
}

func reversed(p []pair) []pair {
	r := make([]pair, len(p))
	for i := range p {
		r[len(p)-1-i] = p[i]
	}
	return r
}

func main() {
	e := vlib.StartExplore("C17")
	if e.Replay != nil {
		var c rcase
		if err := json.Unmarshal(e.Replay, &c); err != nil {
			fmt.Println("bad replay case:", err)
			e.FinishReplay(false, "")
		}
		vs := eval(c)
		for _, v := range vs {
			if v.Sig == e.ReplaySig || e.ReplaySig == "" {
				e.FinishReplay(true, v.Detail)
			}
		}
		for _, v := range vs {
			fmt.Printf("other violation on replay: %s\n  %s\n", v.Sig, v.Detail)
		}
		e.FinishReplay(false, "")
	}
	r := &runner{e: e}
	T := e.Thorough()
	full := grid(true)
	small := grid(false)
	mutGrid := small
	if T {
		mutGrid = full
	}

	// 1. round trip of every valid set through every carrier
	parallel(len(full), func(i int) {
		p := full[i]
		for _, car := range carriers {
			r.run("roundtrip", rcase{Kind: "roundtrip", Carrier: car, P: &p})
		}
	})
	// 1b. strings that need escaping somewhere (URL, JSON, HTML-safe JSON), all valid UTF-8
	specials := []string{"a b&c=d%2F+e", "日本語", "<>&\"\\'", "line sep", "x\x00y", "\t\n", "ſK", strings.Repeat("k", 300)}
	parallel(len(specials), func(i int) {
		for _, car := range carriers {
			for _, p := range []pset{{TID: specials[i]}, {TGID: specials[i], TGCount: 3, TGIdx: 2}, {TID: specials[i], Reconnect: true, Enc: encProto, Comp: compPM, Level: ip(9), Bits: ip(15)}} {
				p := p
				r.run("roundtrip-special-strings", rcase{Kind: "roundtrip", Carrier: car, P: &p})
			}
		}
	})
	// 1b'. ids that are not valid UTF-8 on the writer side: refused or sent as they are, never rewritten silently
	parallel(len(badUTF8), func(i int) {
		for _, car := range carriers {
			for _, p := range []pset{{TID: "a" + badUTF8[i]}, {TGID: "g" + badUTF8[i], TGCount: 3, TGIdx: 2}} {
				p := p
				r.run("writer-invalid-utf8-ids", rcase{Kind: "badid", Carrier: car, P: &p})
			}
		}
	})
	// 1b''. the WebSocket back-ends request the URL they are given (ids and paths may contain "http", "ws", ...)
	// (only one back-end package can be linked into a binary: each registers itself as THE dial function at init; the
	// gorilla one is the only one that touches the URL it is given)
	for _, be := range []string{"gorilla"} {
		for _, tid := range []string{"plain", "edge-http-gateway-1", "https-node", "ws-http-ws", "xhttp"} {
			p := pset{TID: tid}
			r.run("websocket-backend-url-pass-through", rcase{Kind: "backend-url", Carrier: be, P: &p})
		}
	}
	// 1c. length prefix boundary of the binary form
	for _, n := range []int{65534, 65535, 65536, 65537, 70000} {
		r.run("binary-length-boundary", rcase{Kind: "longvalue", Len: n})
	}

	// 2. reader on the reference encoding of valid sets (+ unknown keys, explicit zero values),
	//    invalid alphabet, case-variant keys
	valid, invalidM, cvm := validMutations(), invalidMutations(), caseVariantMutations()
	parallel(len(mutGrid), func(i int) {
		base := refPairs(mutGrid[i])
		for _, car := range carriers {
			for _, m := range valid {
				r.run("decode-valid", decodeCase(car, m.f(base)))
			}
			if car == carBin {
				r.run("decode-valid", decodeCase(car, reversed(base)))
			}
			for _, m := range invalidM {
				r.run("decode-invalid", decodeCase(car, m.f(base)))
			}
			for _, m := range cvm {
				r.run("decode-case-variant-key", decodeCase(car, m.f(base)))
			}
		}
		// repeated keys: URL values with two values / no value, binary form with a repeated key
		for ki, kv := range base {
			for _, car := range []string{carWS, carWT} {
				for _, second := range []string{kv[1], "other"} {
					dup := append(append([]pair{}, base...), pair{kv[0], second})
					r.run("decode-duplicate-key", decodeCase(car, dup))
				}
				c := decodeCase(car, append(append([]pair{}, base[:ki]...), base[ki+1:]...))
				c.EmptyValue = []string{kv[0]}
				r.run("decode-duplicate-key", c)
			}
			for _, second := range []string{kv[1], "other"} {
				positions := []int{len(base)}
				if T {
					positions = positions[:0]
					for j := 0; j <= len(base); j++ {
						positions = append(positions, j)
					}
				}
				for _, j := range positions {
					dup := append(append(append([]pair{}, base[:j]...), pair{kv[0], second}), base[j:]...)
					r.run("decode-duplicate-key", decodeCase(carBin, dup))
				}
			}
		}
		// every truncation of the binary encoding (complete pairs left = a valid smaller set)
		orders := [][]pair{base}
		if T {
			orders = append(orders, reversed(base))
		}
		for _, o := range orders {
			b := refBinary(o)
			for cut := 0; cut < len(b); cut++ {
				r.run("binary-truncation", binCase(b[:cut]))
			}
		}
	})

	// 3. arbitrary byte strings for the binary reader
	maxAll, maxAlpha := 2, 7
	if T {
		maxAll, maxAlpha = 3, 10
	}
	evalBytes := func(family string, b []byte, count *int64) {
		c := binCase(append([]byte{}, b...))
		vs := eval(c)
		*count++
		for _, v := range vs {
			r.violation(v, c)
		}
	}
	// all byte strings up to maxAll, partitioned by first byte
	e.CaseN("binary-all-bytes", 1)
	for _, v := range eval(binCase([]byte{})) {
		r.violation(v, binCase([]byte{}))
	}
	parallel(256, func(first int) {
		var n int64
		buf := make([]byte, maxAll)
		buf[0] = byte(first)
		for l := 1; l <= maxAll; l++ {
			rest := l - 1
			total := 1
			for i := 0; i < rest; i++ {
				total *= 256
			}
			for x := 0; x < total; x++ {
				y := x
				for i := 0; i < rest; i++ {
					buf[1+i] = byte(y)
					y >>= 8
				}
				evalBytes("binary-all-bytes", buf[:l], &n)
			}
		}
		e.CaseN("binary-all-bytes", n)
	})
	// strings over a framing-relevant alphabet, longer
	alpha := []byte{0x00, 0x01, 'a', 0xff}
	parallel(len(alpha)*len(alpha), func(pfx int) {
		var n int64
		buf := make([]byte, maxAlpha)
		buf[0], buf[1] = alpha[pfx/len(alpha)], alpha[pfx%len(alpha)]
		for l := 2; l <= maxAlpha; l++ {
			rest := l - 2
			total := 1
			for i := 0; i < rest; i++ {
				total *= len(alpha)
			}
			for x := 0; x < total; x++ {
				y := x
				for i := 0; i < rest; i++ {
					buf[2+i] = alpha[y%len(alpha)]
					y /= len(alpha)
				}
				evalBytes("binary-alphabet-strings", buf[:l], &n)
			}
		}
		e.CaseN("binary-alphabet-strings", n)
	})

	// 4. derived compression configuration over all bases
	parallel(len(full), func(i int) {
		p := full[i]
		r.run("compress-config", rcase{Kind: "compress", P: &p})
	})
	// also for out-of-grid but valid levels/windows: every window 0..32
	var wins []pset
	for w := 0; w <= 32; w++ {
		for _, c := range comps[1:] {
			for _, l := range levels {
				wins = append(wins, pset{Comp: c, Level: l, Bits: ip(w)})
			}
		}
	}
	parallel(len(wins), func(i int) {
		p := wins[i]
		r.run("compress-config", rcase{Kind: "compress", P: &p})
		for _, car := range carriers {
			r.run("roundtrip", rcase{Kind: "roundtrip", Carrier: car, P: &p})
		}
	})

	// 5. what the library's dialers send, read by the peer
	var dials []dialJSON
	for _, en := range []bool{false, true} {
		for l := 0; l <= 9; l++ {
			for _, pm := range []bool{false, true} {
				for _, w := range []int{0, 1, 8, 15, 32} {
					for _, enc := range encs {
						for _, id := range []int{0, 1, 2} {
							d := dialJSON{CC: ccJSON{en, l, pm, w}, Enc: enc}
							if id >= 1 {
								d.TID, d.Reconnect = "f5dabdfc-17e7-4e29-8ca4-dfba8f4e719d", id == 2
								d.TGID, d.TGCount, d.TGIdx = "group-1", 2, id-1
							}
							dials = append(dials, d)
						}
					}
				}
			}
		}
	}
	parallel(len(dials), func(i int) {
		d := dials[i]
		for _, car := range carriers {
			r.run("dialer-to-peer", rcase{Kind: "dial", Carrier: car, Dial: &d})
		}
	})

	r.flush()
	rule := "valid grid encoding{'',json,proto} x compress{'',per-message,context-takeover} x level{nil,0..9} x window{nil,0,1,8,15,32} x reconnect x transport-id x transport-group{zero,set} (" + strconv.Itoa(len(full)) + " sets; windows 0..32 additionally) " +
		"x carriers {key/value map, URL values of websocket and of webtransport incl. query-string encode/parse, QUIC binary}: library marshal == reference encoding and unmarshal(marshal) == identity, Validate changes nothing but the documented default level; " +
		"reader differential against a reference decoder on: reference encodings (+unknown keys, explicit zero values, reversed pair order), the invalid alphabet one mutation at a time (unknown names, level -1/10/99, bits -1/33, 13 non-numeric shapes x 4 numeric keys, non-boolean reconnect, empty key, 5 invalid UTF-8 strings in keys/values, duplicated keys at every position (binary) / two or zero values (URL), case-variant keys), " +
		"every truncation of every reference binary encoding, every byte string of length <= " + strconv.Itoa(maxAll) + " and every string of length <= " + strconv.Itoa(maxAlpha) + " over {00,01,'a',ff} for the binary reader; " +
		"CompressConfig over all 16 bases {zero,flipped}^4 against the reference derivation and pairwise equal for sets naming type+level+window; DialConfig grid -> NegotiationParams -> carrier -> peer's derived config == dialling side's for every peer base"
	if !T {
		rule += " [quick: mutation/truncation sweeps use the 594-set sub-grid without reconnect/id/group, duplicate keys appended only]"
	}
	e.Finish(rule, true, map[string]any{"grid_sets": len(full), "mutation_grid_sets": len(mutGrid), "carriers": carriers, "compress_bases": len(bases)},
		[]string{"the reference decoder ignores unknown keys (documented by the library's own tests) and matches parameter names exactly",
			"a disabled compress.Config is compared on Enable only (its other fields are documented to be ignored)",
			"URL query strings are produced/parsed by net/url, which is trusted"})
}
