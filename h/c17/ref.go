package main

// Reference model of the negotiation parameters, written from the property statement and the
// documented wire names (enc, comp, clevel, cwinbits, tid, reconnect, tgid, tgcount, tgidx) – it
// shares no code with the library (no encoding/json, no struct tags, no library constants).

import (
	"encoding/binary"
	"fmt"
	"sort"
	"strconv"
	"strings"
	"unicode/utf8"
)

// pset is the reference's own parameter set.
type pset struct {
	Enc, Comp string
	Level     *int
	Bits      *int
	TID       string
	Reconnect bool
	TGID      string
	TGCount   int
	TGIdx     int
}

func ip(v int) *int { return &v }

func ps(p *int) string {
	if p == nil {
		return "nil"
	}
	return strconv.Itoa(*p)
}

func (p pset) String() string {
	return fmt.Sprintf("{enc=%q comp=%q level=%s bits=%s tid=%q reconnect=%v tgid=%q tgcount=%d tgidx=%d}",
		p.Enc, p.Comp, ps(p.Level), ps(p.Bits), p.TID, p.Reconnect, p.TGID, p.TGCount, p.TGIdx)
}

func eqp(a, b *int) bool {
	if a == nil || b == nil {
		return a == nil && b == nil
	}
	return *a == *b
}

// diff lists the fields in which two sets differ ("" when equal).
func (p pset) diff(q pset) string {
	var d []string
	if p.Enc != q.Enc {
		d = append(d, "enc")
	}
	if p.Comp != q.Comp {
		d = append(d, "comp")
	}
	if !eqp(p.Level, q.Level) {
		d = append(d, "clevel")
	}
	if !eqp(p.Bits, q.Bits) {
		d = append(d, "cwinbits")
	}
	if p.TID != q.TID {
		d = append(d, "tid")
	}
	if p.Reconnect != q.Reconnect {
		d = append(d, "reconnect")
	}
	if p.TGID != q.TGID {
		d = append(d, "tgid")
	}
	if p.TGCount != q.TGCount {
		d = append(d, "tgcount")
	}
	if p.TGIdx != q.TGIdx {
		d = append(d, "tgidx")
	}
	return strings.Join(d, "+")
}

type pair [2]string

const (
	encJSON  = "json"
	encProto = "proto"
	compPM   = "per-message"
	compCT   = "context-takeover"
)

// refPairs is the reference encoder: the key/value pairs a valid set is carried as (absent = zero
// value), sorted by key.
func refPairs(p pset) []pair {
	var r []pair
	add := func(k, v string) { r = append(r, pair{k, v}) }
	if p.Enc != "" {
		add("enc", p.Enc)
	}
	if p.Comp != "" {
		add("comp", p.Comp)
	}
	if p.Level != nil {
		add("clevel", strconv.Itoa(*p.Level))
	}
	if p.Bits != nil {
		add("cwinbits", strconv.Itoa(*p.Bits))
	}
	if p.TID != "" {
		add("tid", p.TID)
	}
	if p.Reconnect {
		add("reconnect", "true")
	}
	if p.TGID != "" {
		add("tgid", p.TGID)
	}
	if p.TGCount != 0 {
		add("tgcount", strconv.Itoa(p.TGCount))
	}
	if p.TGIdx != 0 {
		add("tgidx", strconv.Itoa(p.TGIdx))
	}
	sort.Slice(r, func(i, j int) bool { return r[i][0] < r[j][0] })
	return r
}

// refBinary is the reference encoder of the QUIC binary form: for each pair
// len(key) uint16 BE | key | len(value) uint16 BE | value.
func refBinary(pairs []pair) []byte {
	var b []byte
	for _, kv := range pairs {
		b = binary.BigEndian.AppendUint16(b, uint16(len(kv[0])))
		b = append(b, kv[0]...)
		b = binary.BigEndian.AppendUint16(b, uint16(len(kv[1])))
		b = append(b, kv[1]...)
	}
	return b
}

// refParseBinary is the reference reader of the binary form. class != "" means structurally invalid.
// Only framing is judged here; keys and values are judged by refDecode.
func refParseBinary(b []byte) (pairs []pair, class string) {
	for len(b) > 0 {
		if len(b) < 2 {
			return nil, "truncated"
		}
		kl := int(b[0])<<8 | int(b[1])
		b = b[2:]
		if kl == 0 {
			return nil, "empty-key"
		}
		if len(b) < kl {
			return nil, "truncated"
		}
		k := string(b[:kl])
		b = b[kl:]
		if len(b) < 2 {
			return nil, "truncated"
		}
		vl := int(b[0])<<8 | int(b[1])
		b = b[2:]
		if len(b) < vl {
			return nil, "truncated"
		}
		v := string(b[:vl])
		b = b[vl:]
		pairs = append(pairs, pair{k, v})
	}
	return pairs, ""
}

type refResult struct {
	Valid bool
	Class string // why invalid (structural signature component)
	Stage string // which stage of the library is responsible for rejecting this class
	P     pset
}

func invalid(class, stage string) refResult { return refResult{Class: class, Stage: stage} }

// numShape names the shape of a string that is not a decimal integer (for signatures).
func numShape(s string) string {
	switch {
	case s == "":
		return "empty"
	case s == "null":
		return "null-literal"
	case s == "true" || s == "false":
		return "bool-literal"
	case strings.ContainsAny(s, " \t\n"):
		return "whitespace"
	case strings.HasPrefix(s, "+"):
		return "plus-sign"
	case strings.HasPrefix(s, "0x") || strings.HasPrefix(s, "0X"):
		return "hex"
	case strings.ContainsAny(s, "."):
		return "fraction"
	case strings.ContainsAny(s, "eE") && strings.Trim(s, "0123456789eE+-") == "":
		return "exponent"
	case strings.Trim(s, "-0123456789") == "":
		if s == "-" {
			return "bare-minus"
		}
		return "overflow"
	}
	for _, r := range s {
		if r > 127 {
			return "non-ascii"
		}
	}
	return "alpha"
}

// refInt parses a decimal integer: optional '-', then ASCII digits, fitting an int.
func refInt(s string) (int, bool) {
	t := s
	if strings.HasPrefix(t, "-") {
		t = t[1:]
	}
	if t == "" {
		return 0, false
	}
	for i := 0; i < len(t); i++ {
		if t[i] < '0' || t[i] > '9' {
			return 0, false
		}
	}
	if len(t) > 18 {
		return 0, false
	}
	n := 0
	for i := 0; i < len(t); i++ {
		n = n*10 + int(t[i]-'0')
	}
	if s[0] == '-' {
		n = -n
	}
	return n, true
}

var knownKeys = []string{"enc", "comp", "clevel", "cwinbits", "tid", "reconnect", "tgid", "tgcount", "tgidx"}

// simpleFold maps the characters that some case-insensitive matchers identify with ASCII letters.
func caseVariantOf(k string) string {
	var sb strings.Builder
	for _, r := range k {
		switch {
		case r >= 'A' && r <= 'Z':
			sb.WriteRune(r + 32)
		case r == 0x17f: // LATIN SMALL LETTER LONG S
			sb.WriteRune('s')
		case r == 0x212a: // KELVIN SIGN
			sb.WriteRune('k')
		default:
			sb.WriteRune(r)
		}
	}
	f := sb.String()
	if f == k {
		return ""
	}
	for _, kk := range knownKeys {
		if kk == f {
			return kk
		}
	}
	return ""
}

// refDecode is the reference decoder + validator of a list of key/value pairs as delivered by a
// carrier (carrier names the stage responsible for the structural checks). The list may contain
// repeated keys (URL values with several values, binary form with a repeated key).
func refDecode(carrier string, pairs []pair) refResult {
	seen := map[string]bool{}
	for _, kv := range pairs {
		if kv[0] == "" {
			return invalid("empty-key", carrier)
		}
	}
	for _, kv := range pairs {
		if seen[kv[0]] {
			return invalid("duplicate-key", carrier)
		}
		seen[kv[0]] = true
	}
	for _, kv := range pairs {
		if !utf8.ValidString(kv[0]) {
			return invalid("invalid-utf8-key", carrier)
		}
	}
	for _, kv := range pairs {
		if !utf8.ValidString(kv[1]) {
			return invalid("invalid-utf8-value", carrier)
		}
	}
	var p pset
	compNamed := false
	for _, kv := range pairs {
		if kv[0] == "comp" && kv[1] != "" {
			compNamed = true
		}
	}
	q := "/no-compress-type"
	if compNamed {
		q = "/with-compress-type"
	}
	var bad []refResult
	for _, kv := range pairs {
		k, v := kv[0], kv[1]
		switch k {
		case "enc":
			if v != "" && v != encJSON && v != encProto {
				bad = append(bad, invalid("unknown-encoding", "Validate"))
			}
			p.Enc = v
		case "comp":
			if v != "" && v != compPM && v != compCT {
				bad = append(bad, invalid("unknown-compress-type", "Validate"))
			}
			p.Comp = v
		case "clevel":
			n, ok := refInt(v)
			if !ok {
				bad = append(bad, invalid("non-numeric("+numShape(v)+")", "UnmarshalKeyValues"))
			} else if n < 0 || n > 9 {
				bad = append(bad, invalid("level-out-of-range"+q, "Validate"))
			}
			p.Level = ip(n)
		case "cwinbits":
			n, ok := refInt(v)
			if !ok {
				bad = append(bad, invalid("non-numeric("+numShape(v)+")", "UnmarshalKeyValues"))
			} else if n < 0 || n > 32 {
				bad = append(bad, invalid("window-bits-out-of-range"+q, "Validate"))
			}
			p.Bits = ip(n)
		case "tid":
			p.TID = v
		case "reconnect":
			switch v {
			case "true":
				p.Reconnect = true
			case "false":
			default:
				bad = append(bad, invalid("non-boolean-reconnect", "UnmarshalKeyValues"))
			}
		case "tgid":
			p.TGID = v
		case "tgcount":
			n, ok := refInt(v)
			if !ok {
				bad = append(bad, invalid("non-numeric("+numShape(v)+")", "UnmarshalKeyValues"))
			}
			p.TGCount = n
		case "tgidx":
			n, ok := refInt(v)
			if !ok {
				bad = append(bad, invalid("non-numeric("+numShape(v)+")", "UnmarshalKeyValues"))
			}
			p.TGIdx = n
		default:
			// unknown keys are ignored (forward compatibility; documented by the library's own tests)
		}
	}
	if len(bad) > 0 {
		// parse-stage classes first, then by name: a fixed priority keeps signatures deterministic
		sort.SliceStable(bad, func(i, j int) bool {
			if (bad[i].Stage == "Validate") != (bad[j].Stage == "Validate") {
				return bad[j].Stage == "Validate"
			}
			return bad[i].Class < bad[j].Class
		})
		return bad[0]
	}
	return refResult{Valid: true, P: p}
}

// refValidated is what a valid set looks like after validation: the documented default level (6)
// is filled in when a compression type is named without a level; nothing else changes.
func refValidated(p pset) pset {
	if p.Comp != "" && p.Level == nil {
		p.Level = ip(6)
	}
	return p
}

// refCompress is the reference derivation of the compression settings from a parameter set:
// enabled iff a level is named and it is not 0; level, window and mode are the named ones.
// (nil pointers in the result mean "not determined by the parameters".)
type refCC struct {
	Enable bool
	Level  *int
	Bits   *int
	PerMsg *bool
}

func refCompress(p pset) refCC {
	if p.Level == nil || *p.Level == 0 {
		return refCC{Enable: false}
	}
	r := refCC{Enable: true, Level: p.Level, Bits: p.Bits}
	switch p.Comp {
	case compPM:
		t := true
		r.PerMsg = &t
	case compCT:
		f := false
		r.PerMsg = &f
	}
	return r
}
