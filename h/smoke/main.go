package main

import (
	_ "github.com/aptpod/iscp-go/iscp"
	_ "github.com/aptpod/iscp-go/transport/multi"
	_ "github.com/aptpod/iscp-go/transport/reconnect"
	_ "github.com/aptpod/iscp-go/wire"
)

func main() {}
