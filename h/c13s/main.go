// c13s: concurrent writers on the WebSocket transport (mode S part of C13). Two writer threads x two
// messages each on an in-memory websocket.Conn written against the scheduler, in every compression mode;
// the peer transport must read every message intact (no frame mixes two messages, dictionaries stay in sync).
package main

import (
	"bytes"
	"context"
	"fmt"
	"io"
	"sort"
	"strings"
	"time"

	"github.com/aptpod/iscp-go/internal/vh/lib"
	"github.com/aptpod/iscp-go/internal/vsched"
	"github.com/aptpod/iscp-go/transport"
	"github.com/aptpod/iscp-go/transport/compress"
	"github.com/aptpod/iscp-go/transport/websocket"
)

type params struct {
	Mode     string // off | pm | ct
	Contract string // exclusive (coder/nhooyr: Writer blocks until the previous writer is closed) | gorilla (NextWriter closes the previous writer)
	Writers  int
	P        int
}

func (p params) name() string { return fmt.Sprintf("%s/%s/w%d/P%d", p.Mode, p.Contract, p.Writers, p.P) }

func scenarios(tier string) []vlib.Scenario {
	var out []vlib.Scenario
	for _, m := range []string{"off", "pm", "ct"} {
		out = append(out, vlib.Scenario{Name: params{m, "exclusive", 2, 2}.name(), P: params{m, "exclusive", 2, 2}})
		// the gorilla back-end: NextWriter does not wait, it closes the writer that is still open
		out = append(out, vlib.Scenario{Name: params{m, "gorilla", 2, 2}.name(), P: params{m, "gorilla", 2, 2}})
	}
	// a message writer whose Close fails (the message is framed and flushed there): Write must say so
	for _, m := range []string{"off", "pm", "ct"} {
		out = append(out, vlib.Scenario{Name: params{m, "flushfail", 1, 0}.name(), P: params{m, "flushfail", 1, 0}})
	}
	if tier == "thorough" {
		for _, m := range []string{"off", "pm", "ct"} {
			out = append(out, vlib.Scenario{Name: params{m, "exclusive", 2, 3}.name(), P: params{m, "exclusive", 2, 3}})
			out = append(out, vlib.Scenario{Name: params{m, "exclusive", 3, 2}.name(), P: params{m, "exclusive", 3, 2}})
		}
	}
	return out
}

func config(sc vlib.Scenario, tier string) vsched.Config {
	p := sc.P.(params)
	cfg := vsched.Config{Preempt: 1, Switch: 1, SelCase: 1, Stall: 1, Timer: -1, Horizon: 10 * time.Second, MaxSteps: 100000}
	cfg.Budget[vsched.BudP] = p.P
	cfg.Scope = func(site string) bool { return strings.HasPrefix(site, "transport/websocket.") || strings.HasPrefix(site, "h:") }
	return cfg
}

// in-memory websocket.Conn with the exclusive-writer contract
type frame struct{ data []byte }

type conn struct {
	failCloseAt int // the n-th message writer fails in Close (nothing is delivered)
	closes      int
	gorilla    bool
	cur        *msgWriter
	name       string
	peer       *conn
	in         []frame
	writerOpen bool
	closed     bool
	reading    bool
}

type msgWriter struct {
	c      *conn
	buf    bytes.Buffer
	closed bool
}

func (w *msgWriter) Write(p []byte) (int, error) {
	vsched.Yield("h:conn-write")
	if w.closed {
		return 0, fmt.Errorf("write to closed writer")
	}
	return w.buf.Write(p)
}

func (w *msgWriter) Close() error {
	vsched.Yield("h:conn-writer-close")
	if w.closed {
		return nil
	}
	w.closed = true
	w.c.closes++
	if w.c.failCloseAt > 0 && w.c.closes == w.c.failCloseAt {
		// the socket died: small messages are framed and flushed only here, and that fails
		w.c.writerOpen = false
		return fmt.Errorf("conn: flush failed: broken pipe")
	}
	w.c.peer.in = append(w.c.peer.in, frame{append([]byte{}, w.buf.Bytes()...)})
	w.c.writerOpen = false
	return nil
}

func (c *conn) Writer(ctx context.Context, t websocket.MessageType) (io.WriteCloser, error) {
	if c.gorilla {
		// gorilla/websocket NextWriter: "closes the previous writer if the application has not already done so"
		vsched.Yield("h:conn-next-writer")
		if c.closed {
			return nil, transport.ErrAlreadyClosed
		}
		if c.cur != nil && !c.cur.closed {
			c.cur.Close()
		}
		c.cur = &msgWriter{c: c}
		return c.cur, nil
	}
	vsched.WaitUntil("h:conn-writer:"+c.name, func() bool { return !c.writerOpen || c.closed })
	if c.closed {
		return nil, transport.ErrAlreadyClosed
	}
	c.writerOpen = true
	return &msgWriter{c: c}, nil
}

func (c *conn) Reader(ctx context.Context) (websocket.MessageType, io.Reader, error) {
	vsched.WaitUntil("h:conn-reader:"+c.name, func() bool { return len(c.in) > 0 || c.closed })
	if len(c.in) == 0 {
		return 0, nil, transport.ErrAlreadyClosed
	}
	f := c.in[0]
	c.in = c.in[1:]
	return websocket.MessageBinary, bytes.NewReader(f.data), nil
}

func (c *conn) Close() error                                        { c.closed = true; return nil }
func (c *conn) CloseWithStatus(transport.CloseStatus) error         { return c.Close() }
func (c *conn) Ping(context.Context) error                          { return nil }

type world struct {
	ffErrs   []error
	ffFramed uint64
	ffFrames int
	ffTx     uint64
	p     params
	sent  map[string]bool
	order map[int][]string
	got   []string
	rerr  error
	werr  []error
}

func payload(w, i int) []byte {
	// overlapping content so that dictionaries matter, long enough to be compressed
	// > 1 KiB each: the library only uses histories of at least 1 KiB as a preset dictionary
	base := strings.Repeat(fmt.Sprintf("writer-%d-msg-%d|shared-telemetry-block-0123456789|", w, i), 30)
	return []byte(base)
}

// flushFailMain: one writer, three messages, the second message's writer fails in Close.
func (w *world) flushFailMain() {
	a, b := &conn{name: "a", failCloseAt: 2}, &conn{name: "b"}
	a.peer, b.peer = b, a
	np := websocket.NegotiationParams{}
	lvl, bits := 6, 13
	switch w.p.Mode {
	case "pm":
		np.Compress, np.CompressLevel, np.CompressWindowBits = compress.TypePerMessage, &lvl, &bits
	case "ct":
		np.Compress, np.CompressLevel, np.CompressWindowBits = compress.TypeContextTakeOver, &lvl, &bits
	}
	ta := websocket.New(websocket.Config{Conn: a, NegotiationParams: np})
	for i := 0; i < 3; i++ {
		w.ffErrs = append(w.ffErrs, ta.Write(payload(0, i)))
	}
	for _, f := range b.in {
		w.ffFramed += uint64(len(f.data))
	}
	w.ffFrames = len(b.in)
	w.ffTx = ta.TxBytesCounterValue()
	ta.Close()
}

func (w *world) main() {
	if w.p.Contract == "flushfail" {
		w.flushFailMain()
		return
	}
	a, b := &conn{name: "a", gorilla: w.p.Contract == "gorilla"}, &conn{name: "b", gorilla: w.p.Contract == "gorilla"}
	a.peer, b.peer = b, a
	np := websocket.NegotiationParams{}
	lvl, bits := 6, 13
	switch w.p.Mode {
	case "pm":
		np.Compress, np.CompressLevel, np.CompressWindowBits = compress.TypePerMessage, &lvl, &bits
	case "ct":
		np.Compress, np.CompressLevel, np.CompressWindowBits = compress.TypeContextTakeOver, &lvl, &bits
	}
	ta := websocket.New(websocket.Config{Conn: a, NegotiationParams: np})
	tb := websocket.New(websocket.Config{Conn: b, NegotiationParams: np})
	w.sent = map[string]bool{}
	w.order = map[int][]string{}
	var wg vsched.WaitGroup
	total := 2 * w.p.Writers
	for k := 0; k < w.p.Writers; k++ {
		k := k
		wg.Add(1)
		vsched.Go("h:writer", func() {
			defer wg.Done()
			for i := 0; i < 2; i++ {
				m := payload(k, i)
				w.sent[string(m)] = true
				w.order[k] = append(w.order[k], string(m))
				if err := ta.Write(m); err != nil {
					w.werr = append(w.werr, err)
				}
			}
		})
	}
	wg.Add(1)
	vsched.Go("h:reader", func() {
		defer wg.Done()
		for i := 0; i < total; i++ {
			m, err := tb.Read()
			if err != nil {
				w.rerr = err
				return
			}
			w.got = append(w.got, string(m))
		}
	})
	wg.Wait()
	ta.Close()
	tb.Close()
}

func run(sc vlib.Scenario, cfg vsched.Config) (*vsched.Result, vlib.Verdict) {
	w := &world{p: sc.P.(params)}
	res := vsched.Run(cfg, w.main)
	var v vlib.Verdict
	if res.Outcome == vsched.Panicked {
		v.Fail("C13.concurrent.panic", res.Panic.Site, "panic: %s", res.Panic.Value)
		return res, v
	}
	if w.p.Contract == "flushfail" && res.Outcome == vsched.Completed {
		nilWrites := 0
		for _, e := range w.ffErrs {
			if e == nil {
				nilWrites++
			}
		}
		if nilWrites != w.ffFrames {
			v.Fail("C13.write-result", fmt.Sprintf("%s/nil-for-undelivered", w.p.Mode), "%d Writes returned nil but %d messages were framed onto the connection (results %v; the second message's writer failed when it was closed)", nilWrites, w.ffFrames, w.ffErrs)
		}
		if w.ffTx != w.ffFramed {
			v.Fail("C13.counter", fmt.Sprintf("%s/tx", w.p.Mode), "TxBytesCounterValue is %d, %d bytes were framed", w.ffTx, w.ffFramed)
		}
		v.Outcome = fmt.Sprintf("frames=%d tx=%d", w.ffFrames, w.ffTx)
		return res, v
	}
	if res.Outcome != vsched.Completed {
		v.Fail("C13.concurrent.blocked", w.p.Mode+"/"+w.p.Contract, "writers/reader did not finish: %v (read %d messages, read error %v)", res.Outcome, len(w.got), w.rerr)
		return res, v
	}
	if w.rerr != nil {
		v.Fail("C13.concurrent.read-error", w.p.Mode+"/"+w.p.Contract, "peer Read failed after %d messages: %v", len(w.got), w.rerr)
		return res, v
	}
	for _, e := range w.werr {
		v.Fail("C13.concurrent.write-error", w.p.Mode+"/"+w.p.Contract, "Write failed: %v", e)
	}
	seen := map[string]int{}
	for _, m := range w.got {
		seen[m]++
		if !w.sent[m] {
			v.Fail("C13.concurrent.bytes", w.p.Mode+"/"+w.p.Contract+"/corrupted-or-mixed", "peer read a message nobody wrote (%d bytes, starts %q)", len(m), m[:min(len(m), 40)])
		}
	}
	for m := range w.sent {
		if seen[m] != 1 {
			v.Fail("C13.concurrent.once", fmt.Sprintf("%s/count=%d", w.p.Mode, min(seen[m], 2)), "message %q was read %d times", m[:20], seen[m])
		}
	}
	// per-writer order
	pos := map[string]int{}
	for i, m := range w.got {
		pos[m] = i
	}
	for k, ms := range w.order {
		for i := 1; i < len(ms); i++ {
			if pos[ms[i-1]] > pos[ms[i]] {
				v.Fail("C13.concurrent.order", w.p.Mode, "writer %d: its second message was read before its first", k)
			}
		}
	}
	var o []string
	for _, m := range w.got {
		if len(m) >= 14 && w.sent[m] {
			o = append(o, m[7:8]+m[13:14])
		} else {
			o = append(o, fmt.Sprintf("?%d", len(m)))
		}
	}
	_ = sort.Strings
	v.Outcome = strings.Join(o, ",")
	return res, v
}

func main() {
	vlib.Main(&vlib.Harness{
		Property:  "C13",
		Scenarios: scenarios,
		Config:    config,
		Run:       run,
		Rule:      "mode S: two (thorough: three) writer threads x two messages each on one WebSocket transport over an in-memory websocket.Conn with the exclusive-writer contract of the coder/nhooyr back-ends and with the close-the-previous-writer contract of the gorilla back-end, compression off / per-message / context takeover (level 6, 8 KiB window, overlapping contents of 1.5 KiB so that the preset dictionary is in use); deviations <= 2 (thorough 3) in transport/websocket and the Conn; oracle: the peer transport reads every message exactly once, byte-exact, in per-writer order",
		Assumptions: []string{"two in-memory Conn contracts: 'exclusive' - Writer() blocks while another message writer is open (coder/nhooyr); 'gorilla' - NextWriter closes the writer that is still open and later writes to it fail (gorilla/websocket, which additionally panics when it happens to notice the concurrent write)"},
	})
}
