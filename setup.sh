#!/bin/sh
# Builds the /verif tools from files on disk only (offline) and warms the Go build cache.
set -e
cd "$(dirname "$0")"
. ./env.sh
mkdir -p bin evidence replays
(cd engine/vcheck && go build -o ../../bin/vcheck .)
(cd engine/rewrite && go build -o ../../bin/vrewrite .)
# warm the build cache with one instrumented and one plain harness build
./bin/vcheck build smoke /dev/null -i >/dev/null 2>&1 || true
./bin/vcheck build c01 /dev/null -i >/dev/null 2>&1 || true
echo "setup ok"
