# Go environment for every /verif command (see DESIGN.md §8)
export GOFLAGS=-mod=mod
export GOPROXY=off
unset GOTOOLCHAIN GOSUMDB 2>/dev/null || true
