// Package verrgroup replaces golang.org/x/sync/errgroup in instrumented packages.
package verrgroup

import (
	"github.com/aptpod/iscp-go/internal/vcontext"
	"github.com/aptpod/iscp-go/internal/vsched"
)

type Group struct {
	cancel func(error)
	wg     vsched.WaitGroup
	once   vsched.Once
	err    error
	limit  int
	active int
}

func WithContext(ctx vcontext.Context) (*Group, vcontext.Context) {
	ctx, cancel := vcontext.WithCancelCause(ctx)
	return &Group{cancel: cancel}, ctx
}

func (g *Group) done() {
	g.active--
	g.wg.Done()
}

func (g *Group) Wait() error {
	g.wg.Wait()
	if g.cancel != nil {
		g.cancel(g.err)
	}
	return g.err
}

func (g *Group) run(site string, f func() error) {
	g.active++
	g.wg.Add(1)
	vsched.Go(site, func() {
		defer g.done()
		if err := f(); err != nil {
			g.once.Do(func() {
				g.err = err
				if g.cancel != nil {
					g.cancel(g.err)
				}
			})
		}
	})
}

func (g *Group) Go(f func() error) {
	if g.limit > 0 {
		vsched.WaitUntil("errgroup.limit", func() bool { return g.active < g.limit })
	}
	g.run(vsched.CallerSite(1), f)
}

func (g *Group) TryGo(f func() error) bool {
	if g.limit > 0 && g.active >= g.limit {
		return false
	}
	g.run(vsched.CallerSite(1), f)
	return true
}

func (g *Group) SetLimit(n int) {
	if n < 0 {
		n = 0
	}
	g.limit = n
}
