package vsched

import (
	"runtime"
	"sync"
	"sync/atomic"
)

// Locker mirrors sync.Locker.
type Locker = sync.Locker

// Mutex is the controlled replacement of sync.Mutex.
type Mutex struct {
	locked bool
	vc     vclock
}

func (m *Mutex) Lock() {
	s, t := cur()
	if s == nil {
		if m.locked {
			panic("vsync.Mutex.Lock outside an execution would block")
		}
		m.locked = true
		return
	}
	if s.aborting {
		return
	}
	t.op = op{kind: opLock, obj: m, site: CallerSite(1)}
	s.block(t)
	m.locked = true
	s.hbAcquire(&m.vc)
}

func (m *Mutex) TryLock() bool {
	s, t := cur()
	if s != nil && !s.aborting {
		t.op = op{kind: opResume, site: CallerSite(1)}
		s.block(t)
	}
	if m.locked {
		return false
	}
	m.locked = true
	s.hbAcquire(&m.vc)
	return true
}

func (m *Mutex) Unlock() {
	s := S
	if s != nil && s.aborting {
		return
	}
	if !m.locked {
		panic("sync: unlock of unlocked mutex")
	}
	m.locked = false
	s.hbRelease(&m.vc)
}

// RWMutex follows Go's writer-preferring semantics.
type RWMutex struct {
	wvc, rvc vclock // clocks released by writers / by readers
	wm      bool // writer mutex held (writers are serialised)
	pending bool // a writer announced itself or holds the lock
	r       int  // readers holding
}

func (rw *RWMutex) Lock() {
	s, t := cur()
	if s == nil {
		if rw.wm || rw.r > 0 {
			panic("vsync.RWMutex.Lock outside an execution would block")
		}
		rw.wm, rw.pending = true, true
		return
	}
	if s.aborting {
		return
	}
	site := CallerSite(1)
	t.op = op{kind: opWMutex, obj: rw, site: site}
	s.block(t)
	rw.wm = true
	rw.pending = true // announce: new readers block from here on
	if rw.r > 0 {
		t.op = op{kind: opWLock, obj: rw, site: site}
		s.block(t)
	}
	s.hbAcquire(&rw.wvc)
	s.hbAcquire(&rw.rvc)
}

func (rw *RWMutex) TryLock() bool {
	if rw.wm || rw.r > 0 {
		return false
	}
	rw.wm, rw.pending = true, true
	return true
}

func (rw *RWMutex) Unlock() {
	s := S
	if s != nil && s.aborting {
		return
	}
	if !rw.wm {
		panic("sync: Unlock of unlocked RWMutex")
	}
	s.hbRelease(&rw.wvc)
	rw.pending = false
	// readers blocked at this moment become holders now (Go releases them before the next writer)
	if s != nil {
		for _, t := range s.threads {
			if !t.done && t.op.kind == opRLock && t.op.obj == any(rw) && t != s.cur {
				rw.r++
				t.op = op{kind: opResume, site: t.op.site, label: "rlock-granted"}
			}
		}
	}
	rw.wm = false
}

func (rw *RWMutex) RLock() {
	s, t := cur()
	if s == nil {
		if rw.pending {
			panic("vsync.RWMutex.RLock outside an execution would block")
		}
		rw.r++
		return
	}
	if s.aborting {
		return
	}
	t.op = op{kind: opRLock, obj: rw, site: CallerSite(1)}
	s.block(t)
	if t.op.kind == opRLock { // not granted by a writer's Unlock
		rw.r++
	}
	s.hbAcquire(&rw.wvc)
}

func (rw *RWMutex) TryRLock() bool {
	if rw.pending {
		return false
	}
	rw.r++
	return true
}

func (rw *RWMutex) RUnlock() {
	s := S
	if s != nil && s.aborting {
		return
	}
	if rw.r <= 0 {
		panic("sync: RUnlock of unlocked RWMutex")
	}
	rw.r--
	s.hbRelease(&rw.rvc)
}

type rlocker RWMutex

func (r *rlocker) Lock()   { (*RWMutex)(r).RLock() }
func (r *rlocker) Unlock() { (*RWMutex)(r).RUnlock() }

func (rw *RWMutex) RLocker() Locker { return (*rlocker)(rw) }

// Cond is the controlled replacement of sync.Cond.
type Cond struct {
	L       Locker
	waiters []*thread
	vc      vclock
}

func NewCond(l Locker) *Cond { return &Cond{L: l} }

func (c *Cond) Wait() {
	s, t := cur()
	if s == nil {
		panic("vsync.Cond.Wait outside an execution would block")
	}
	if s.aborting {
		runtime.Goexit()
	}
	site := CallerSite(1)
	// scheduling point before the wait
	t.op = op{kind: opResume, site: site}
	s.block(t)
	c.waiters = append(c.waiters, t)
	c.L.Unlock()
	t.op = op{kind: opCondWait, obj: c, site: site}
	s.block(t)
	s.hbAcquire(&c.vc)
	c.L.Lock()
}

func (c *Cond) Signal() {
	s, t := cur()
	if s != nil && s.aborting {
		return
	}
	if s != nil {
		t.op = op{kind: opResume, site: CallerSite(1)}
		s.block(t)
	}
	s.hbRelease(&c.vc)
	if len(c.waiters) > 0 {
		w := c.waiters[0]
		c.waiters = c.waiters[1:]
		w.op.signaled = true
	}
}

func (c *Cond) Broadcast() {
	s, t := cur()
	if s != nil && s.aborting {
		return
	}
	if s != nil {
		t.op = op{kind: opResume, site: CallerSite(1)}
		s.block(t)
	}
	s.hbRelease(&c.vc)
	for _, w := range c.waiters {
		w.op.signaled = true
	}
	c.waiters = nil
}

// WaitGroup is the controlled replacement of sync.WaitGroup.
type WaitGroup struct {
	n  int
	vc vclock
}

func (w *WaitGroup) Add(d int) {
	s := S
	if s != nil && s.aborting {
		return
	}
	w.n += d
	if w.n < 0 {
		panic("sync: negative WaitGroup counter")
	}
	if d < 0 {
		s.hbRelease(&w.vc)
	}
}

func (w *WaitGroup) Done() { w.Add(-1) }

func (w *WaitGroup) Wait() {
	s, t := cur()
	if s == nil {
		if w.n != 0 {
			panic("vsync.WaitGroup.Wait outside an execution would block")
		}
		return
	}
	if s.aborting {
		runtime.Goexit()
	}
	t.op = op{kind: opWGWait, obj: w, site: CallerSite(1)}
	s.block(t)
	s.hbAcquire(&w.vc)
}

// Once is the controlled replacement of sync.Once.
type Once struct {
	done bool
	m    Mutex
}

func (o *Once) Do(f func()) {
	if o.done {
		return
	}
	s := S
	if s != nil && s.aborting {
		return
	}
	o.m.Lock()
	defer o.m.Unlock()
	if !o.done {
		defer func() { o.done = true }()
		f()
	}
}

func OnceFunc(f func()) func() {
	var once Once
	return func() { once.Do(f) }
}

func OnceValue[T any](f func() T) func() T {
	var once Once
	var r T
	return func() T {
		once.Do(func() { r = f() })
		return r
	}
}

func OnceValues[T1, T2 any](f func() (T1, T2)) func() (T1, T2) {
	var once Once
	var r1 T1
	var r2 T2
	return func() (T1, T2) {
		once.Do(func() { r1, r2 = f() })
		return r1, r2
	}
}

// AtomicPoint is the (optional) scheduling point before an atomic operation.
func AtomicPoint() {
	s := S
	if s == nil || s.aborting || !s.cfg.Atomics {
		return
	}
	t := s.cur
	t.op = op{kind: opResume, site: CallerSite(2)}
	s.block(t)
}

var _ = atomic.AddInt32
