package vsched

import (
	"reflect"
	"runtime"
)

// Token is handed back by PreSend/Select; Done must be called right after the native operation.
type Token struct {
	I int
	t *thread
	p bool
}

// Done finishes a channel operation: a rendezvous partner re-parks here.
func (k Token) Done() {
	if k.p {
		s := S
		if s == nil {
			return
		}
		s.park(k.t)
	}
}

func (s *Sched) prepCases(cs []Case) {
	for i := range cs {
		c := &cs[i]
		if c.Ch == nil {
			c.null = true
			continue
		}
		c.rv = reflect.ValueOf(c.Ch)
		if c.rv.Kind() != reflect.Chan {
			panic("vsched: not a channel")
		}
		if c.rv.IsNil() {
			c.null = true
			continue
		}
		c.ptr = c.rv.Pointer()
		st := s.chans[c.ptr]
		if st == nil {
			st = &chanState{keep: c.Ch}
			s.chans[c.ptr] = st
		}
		c.st = st
	}
}

func (s *Sched) register(t *thread) {
	for i := range t.op.cases {
		c := &t.op.cases[i]
		if c.null || c.rv.Cap() != 0 {
			continue
		}
		if c.Dir == RecvDir {
			c.st.recvW = append(c.st.recvW, waiter{t, i})
		} else {
			c.st.sendW = append(c.st.sendW, waiter{t, i})
		}
	}
}

func dropWaiter(ws []waiter, t *thread) []waiter {
	k := 0
	for _, w := range ws {
		if w.t != t {
			ws[k] = w
			k++
		}
	}
	return ws[:k]
}

func (s *Sched) unregister(t *thread) {
	for i := range t.op.cases {
		c := &t.op.cases[i]
		if c.null || c.st == nil {
			continue
		}
		if c.Dir == RecvDir {
			c.st.recvW = dropWaiter(c.st.recvW, t)
		} else {
			c.st.sendW = dropWaiter(c.st.sendW, t)
		}
	}
}

func (s *Sched) chanState(ch any) *chanState {
	rv := reflect.ValueOf(ch)
	p := rv.Pointer()
	st := s.chans[p]
	if st == nil {
		st = &chanState{keep: ch}
		s.chans[p] = st
	}
	return st
}

func (s *Sched) chanOp(site string, hasDefault bool, cs []Case) Token {
	t := s.cur
	s.prepCases(cs)
	t.op = op{kind: opChan, site: site, cases: cs, hasDefault: hasDefault}
	s.register(t)
	s.block(t)
	k := Token{I: t.op.chosen, t: t}
	if t.partnerNow {
		t.partnerNow = false
		k.p = true
	}
	return k
}

// PreSend is the scheduling point before `ch <- v`.
func PreSend(ch any, site string) Token {
	s := S
	if s == nil {
		return Token{}
	}
	if s.aborting {
		runtime.Goexit()
	}
	return s.chanOp(site, false, []Case{{Dir: SendDir, Ch: ch}})
}

// Recv replaces `<-ch`.
func Recv[T any](ch <-chan T, site string) T {
	v, _ := Recv2(ch, site)
	return v
}

// Recv2 replaces `v, ok := <-ch`.
func Recv2[T any](ch <-chan T, site string) (T, bool) {
	s := S
	if s == nil {
		select {
		case v, ok := <-ch:
			return v, ok
		default:
			panic("vsched.Recv outside an execution would block: " + site)
		}
	}
	if s.aborting {
		runtime.Goexit()
	}
	k := s.chanOp(site, false, []Case{{Dir: RecvDir, Ch: ch}})
	v, ok := <-ch
	k.Done()
	return v, ok
}

// Select is the scheduling point of a select statement; the returned token's I is the
// chosen case (-1 = default).
func Select(site string, hasDefault bool, cs ...Case) Token {
	s := S
	if s == nil {
		panic("vsched.Select outside an execution: " + site)
	}
	if s.aborting {
		runtime.Goexit()
	}
	return s.chanOp(site, hasDefault, cs)
}

// Close replaces close(ch).
func Close(ch any, site string) {
	s := S
	rv := reflect.ValueOf(ch)
	if s == nil {
		rv.Close()
		return
	}
	if s.aborting {
		return
	}
	t := s.cur
	t.op = op{kind: opResume, site: site}
	s.block(t)
	rv.Close() // panics like the native close on nil / closed channels
	st := s.chanState(ch)
	st.closed = true
	s.hbRelease(&st.vc)
}

// MarkClosed closes ch from scheduler or harness context without a scheduling point.
func MarkClosed(ch any) {
	s := S
	rv := reflect.ValueOf(ch)
	if s == nil {
		rv.Close()
		return
	}
	if s.aborting {
		return
	}
	st := s.chanState(ch)
	if st.closed {
		return
	}
	rv.Close()
	st.closed = true
	s.hbRelease(&st.vc)
}

// EnvSend records the happens-before edge of a send performed natively from scheduler context (tickers).
func EnvSend(ch any) {
	s := S
	if !s.racesOn() {
		return
	}
	st := s.chanState(ch)
	s.hbRelease(&st.vc)
}

// IsClosed reports whether ch was closed through the scheduler.
func IsClosed(ch any) bool {
	s := S
	if s == nil {
		return false
	}
	st := s.chans[reflect.ValueOf(ch).Pointer()]
	return st != nil && st.closed
}
