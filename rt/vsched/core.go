// Package vsched is the cooperative scheduler runtime of the /verif model checker.
//
// Exactly one managed thread runs at a time. Every visible operation
// (lock, channel operation, cond wait, timer, spawn, ...) is preceded by a
// scheduling point at which the scheduler enumerates the enabled transitions in
// a canonical order and asks the chooser which one to take. A run is identified
// by the list of choices taken at points with more than one affordable
// alternative, so any execution can be replayed exactly.
package vsched

import (
	"fmt"
	"os"
	"reflect"
	"runtime"
	"strings"
	"sync"
	"sync/atomic"
	"time"
	"unsafe"
)

// Outcome of one execution.
type Outcome int

const (
	Completed Outcome = iota // main returned
	Deadlock                 // main not finished, nothing enabled, no timer before the horizon
	StepLimit                // step cap reached (engine-level, inconclusive)
	Panicked                 // a managed thread panicked
	Diverged                 // replay prefix did not match (uncontrolled nondeterminism)
)

func (o Outcome) String() string {
	return [...]string{"completed", "deadlock", "steplimit", "panicked", "diverged"}[o]
}

// Budget indices.
const (
	BudP = 0 // schedule deviations
	BudF = 1 // faults
	BudT = 2 // early timers
	BudX = 3 // spare
	nBud = 4
)

// Config of one execution.
type Config struct {
	Prefix  []int     // choices to replay; afterwards default (0) everywhere
	Budget  [nBud]int // deviation budgets
	Preempt int       // cost (budget P) of switching away from an enabled running thread; <0 = never
	Switch  int       // cost of a non-default pick when the running thread is blocked; <0 = never
	SelCase int       // cost of a non-default ready select case / rendezvous partner; <0 = never
	Timer   int       // cost (budget T) of firing the earliest timer while threads are enabled; <0 = never
	// Stall: cost (budget P) of stalling the running thread at a scheduling point: it gets the lowest
	// priority and runs again only when no other thread is enabled (exhaustive priority-change points,
	// the systematic counterpart of PCT). 0 = never (the zero value keeps old configs unchanged), use
	// a positive cost to enable.
	Stall int
	Scope   func(site string) bool
	// NoScopeCache: Scope is asked at every use instead of once per site (a scope that depends on the
	// state of the harness; it must be a function of the execution so far to keep replay deterministic).
	NoScopeCache bool
	// Horizon is the largest virtual time a timer may fire at.
	Horizon  time.Duration
	MaxSteps int
	Atomics  bool // atomic operations are scheduling points
	Trace    int  // keep the last N operations (0 = none)
	Labels   bool // record labels of choice points
	// MapChoice: iteration order of maps with <=3 entries is a free choice point.
	MapChoice bool
	// Races enables happens-before race detection on the instrumented field / map accesses (C09 builds).
	Races bool
}

// Choice is one recorded choice point.
type Choice struct {
	N      int    // number of affordable alternatives (>=2)
	Chosen int    // which one was taken
	Kind   uint8  // 'e' env, 's' schedule, 'f' fault
	Label  string `json:",omitempty"`
	Hash   uint64 // execution-prefix key at this point
}

// ThreadInfo describes a thread left alive at the end of an execution.
type ThreadInfo struct {
	ID    int
	Name  string // spawn site
	Op    string // pending operation kind
	Site  string // where it is parked
	Lib   bool   // spawned by instrumented library code
	Label string
}

// PanicInfo describes a panic that escaped a managed thread.
type PanicInfo struct {
	Thread string
	Value  string
	Site   string // function that panicked (first non-runtime frame)
	Stack  string
}

// Result of one execution.
type Result struct {
	Outcome Outcome
	Choices []Choice
	Steps   int
	Panic   *PanicInfo
	Alive   []ThreadInfo
	Now     time.Duration
	Trace   []string
	Hash    uint64
	Diverge string
	Used    [nBud]int
	Races   []Race
}

type opKind uint8

const (
	opResume opKind = iota // always enabled
	opLock
	opRLock
	opWLock // rwmutex write lock, acquire step
	opWMutex
	opCondWait
	opWGWait
	opChan // send / recv / select
	opSleep
	opWaitUntil
	opQuiesce
	opDoneKind
)

var opNames = [...]string{"resume", "lock", "rlock", "wlock", "wlock0", "condwait", "wgwait", "chan", "sleep", "waituntil", "quiesce", "done"}

// Dir of a channel case.
type Dir uint8

const (
	SendDir Dir = 1
	RecvDir Dir = 2
)

// Case of a select.
type Case struct {
	Dir Dir
	Ch  any
	// filled by the scheduler
	ptr  uintptr
	rv   reflect.Value
	null bool
	st   *chanState
}

type waiter struct {
	t  *thread
	ci int
}

// chanState is the scheduler's view of one channel: closed flag and parked threads.
type chanState struct {
	vc     vclock
	closed bool
	keep   any
	recvW  []waiter
	sendW  []waiter
}

type op struct {
	kind       opKind
	site       string
	obj        any
	cases      []Case
	hasDefault bool
	chosen     int
	pred       func() bool
	signaled   bool
	label      string
	prio       int
}

type thread struct {
	id         int
	name       string
	lib        bool
	wake       chan struct{}
	op         op
	ready      int64
	wasEnabled bool
	done       bool
	exited     bool
	started    bool
	partnerNow bool
	fn         func()
	label      string
	prio       int // scheduling priority (0 default; stalled threads get negative values)
	vc         vclock
}

type timer struct {
	vc     vclock
	when   time.Duration
	seq    int64
	fire   func(s *Sched)
	site   string
	dead   bool
	period time.Duration
}

// Sched is the state of one execution.
type Sched struct {
	cfg     Config
	threads []*thread
	cur     *thread
	step    int64
	now     time.Duration
	timers  []*timer
	tseq    int64
	pos     int // position in prefix
	choices []Choice
	used    [nBud]int
	hash    uint64

	minPrio  int
	nthreads int
	ndead    int
	aborting bool
	finished bool
	outcome  Outcome
	pinfo    *PanicInfo
	diverge  string
	doneCh   chan struct{}
	exitAck  chan struct{}

	chans  map[uintptr]*chanState
	trace  []string

	trbuf    []trans
	rangebuf []trange
	altbuf   []trans
	costbuf  []int8
	scopeC   map[*byte]bool
	tpos   int

	objIDs  map[any]int
	nextObj int

	envVC    *vclock
	locs     map[uintptr]*location
	atomics  map[uintptr]*vclock
	races    []Race
	raceSeen map[string]struct{}

	// Data is free for the harness (per-execution state reachable from shims).
	Data any
}

// S is the running execution (nil outside Run).
var S *Sched

// epoch counts executions; state that lives in package-level variables of instrumented code and is owned by a
// shim (vsync.Pool) is reset when it changes, so that every execution starts from the same state.
var runEpoch uint64

// Epoch returns the number of the current execution.
func Epoch() uint64 { return runEpoch }

var runMu sync.Mutex

// Active reports whether an execution is running and not being torn down.
func Active() bool { return S != nil && !S.aborting }

// Now returns the virtual time.
func Now() time.Duration {
	if S == nil {
		return 0
	}
	return S.now
}

// Run executes main as thread 0 under cfg and returns what happened.
func Run(cfg Config, main func()) *Result {
	runMu.Lock()
	defer runMu.Unlock()
	if cfg.MaxSteps == 0 {
		cfg.MaxSteps = 2_000_000
	}
	if cfg.Horizon == 0 {
		cfg.Horizon = 24 * time.Hour
	}
	s := &Sched{
		cfg:     cfg,
		doneCh:  make(chan struct{}, 1),
		exitAck: make(chan struct{}),
		chans:   map[uintptr]*chanState{},
		scopeC:  map[*byte]bool{},
		locs:    map[uintptr]*location{},
		atomics: map[uintptr]*vclock{},
		raceSeen: map[string]struct{}{},
		objIDs:  map[any]int{},
		hash:    1469598103934665603,
	}
	if cfg.Trace > 0 {
		s.trace = make([]string, cfg.Trace)
	}
	S = s
	runEpoch++
	mt := s.newThread("main", false, main)
	s.cur = mt
	mt.wake <- struct{}{}

	// watchdog: no scheduling point reached for 120 s of wall clock = uncontrolled blocking
	last, idle := int64(-1), 0
wait:
	for {
		wd := time.NewTimer(10 * time.Second)
		select {
		case <-s.doneCh:
			wd.Stop()
			break wait
		case <-wd.C:
			st := atomic.LoadInt64(&s.step)
			if st != last {
				last, idle = st, 0
				continue
			}
			idle++
			if idle < 12 {
				continue
			}
			buf := make([]byte, 1<<20)
			n := runtime.Stack(buf, true)
			var ch []int
			for _, c := range s.choices {
				ch = append(ch, c.Chosen)
			}
			cur := "?"
			if s.cur != nil {
				cur = fmt.Sprintf("t%d[%s] op=%s @%s", s.cur.id, s.cur.name, opNames[s.cur.op.kind], s.cur.op.site)
			}
			fmt.Fprintf(os.Stderr, "ENGINE-ERROR: watchdog: execution did not reach a scheduling point for 120s (uncontrolled blocking); step=%d current=%s prefix=%v choices=%v\n%s\n", s.step, cur, cfg.Prefix, ch, buf[:n])
			os.Exit(2)
		}
	}
	// teardown
	s.aborting = true
	res := &Result{Outcome: s.outcome, Choices: s.choices, Steps: int(s.step), Panic: s.pinfo, Now: s.now, Hash: s.hash, Diverge: s.diverge, Used: s.used, Races: s.sortedRaces()}
	for _, t := range s.threads {
		if t.exited || t.done {
			continue
		}
		res.Alive = append(res.Alive, ThreadInfo{ID: t.id, Name: t.name, Op: opNames[t.op.kind], Site: t.op.site, Lib: t.lib, Label: t.op.label})
	}
	if s.trace != nil {
		for i := 0; i < len(s.trace); i++ {
			e := s.trace[(s.tpos+i)%len(s.trace)]
			if e != "" {
				res.Trace = append(res.Trace, e)
			}
		}
	}
	for i := 0; i < len(s.threads); i++ { // threads may be appended during teardown? no: Go is a no-op then
		t := s.threads[i]
		if t.exited {
			continue
		}
		t.wake <- struct{}{}
		tm := time.NewTimer(60 * time.Second)
		select {
		case <-s.exitAck:
			tm.Stop()
		case <-tm.C:
			buf := make([]byte, 1<<20)
			n := runtime.Stack(buf, true)
			fmt.Fprintf(os.Stderr, "ENGINE-ERROR: teardown of thread %d (%s) hung\n%s\n", t.id, t.name, buf[:n])
			os.Exit(2)
		}
	}
	S = nil
	return res
}

func (s *Sched) newThread(name string, lib bool, fn func()) *thread {
	t := &thread{id: s.nthreads, name: name, lib: lib, wake: make(chan struct{}, 1), fn: fn}
	s.nthreads++
	t.op = op{kind: opResume, site: name}
	t.ready = s.step
	t.wasEnabled = true
	if s.cfg.Races {
		if a := s.actVC(); a != nil {
			t.vc = a.clone()
			if s.envVC == nil && s.cur != nil {
				s.tick(s.cur)
			}
		}
		s.tick(t)
	}
	s.threads = append(s.threads, t)
	go s.threadMain(t)
	return t
}

func (s *Sched) threadMain(t *thread) {
	<-t.wake
	if s.aborting {
		t.exited = true
		s.exitAck <- struct{}{}
		return
	}
	t.started = true
	defer func() {
		r := recover()
		if s.aborting {
			t.exited = true
			s.exitAck <- struct{}{}
			return
		}
		t.done = true
		t.exited = true
		t.op = op{kind: opDoneKind}
		s.ndead++
		if r != nil {
			stack := make([]byte, 16<<10)
			n := runtime.Stack(stack, false)
			s.pinfo = &PanicInfo{Thread: t.name, Value: fmt.Sprint(r), Site: panicSite(string(stack[:n])), Stack: string(stack[:n])}
			s.finish(Panicked)
			return
		}
		if t.id == 0 {
			s.finish(Completed)
			return
		}
		// hand over to somebody else
		s.dispatch(t)
	}()
	t.fn()
}

// panicSite extracts the first frame below panic() that is not runtime / vsched.
func panicSite(stack string) string {
	lines := strings.Split(stack, "\n")
	seenPanic := false
	for i := 0; i < len(lines); i++ {
		l := lines[i]
		if strings.HasPrefix(l, "panic(") {
			seenPanic = true
			continue
		}
		if !seenPanic || strings.HasPrefix(l, "\t") || l == "" {
			continue
		}
		if strings.HasPrefix(l, "runtime.") || strings.Contains(l, "/internal/vsched") {
			continue
		}
		if j := strings.LastIndex(l, "("); j > 0 {
			l = l[:j]
		}
		return shortFunc(l)
	}
	return "?"
}

func (s *Sched) finish(o Outcome) {
	if s.finished {
		return
	}
	s.finished = true
	s.outcome = o
	s.doneCh <- struct{}{}
}

// abortIfNeeded ends the calling goroutine during teardown.
func (s *Sched) abortCheck() {
	if s.aborting {
		runtime.Goexit()
	}
}

// park blocks the calling thread until it is woken.
func (s *Sched) park(t *thread) {
	<-t.wake
	if s.aborting {
		runtime.Goexit()
	}
}

// block publishes nothing itself: t.op must be set. It returns when t's
// operation has been granted (t.op.chosen filled for channel operations).
// On return t is either the current thread, or in partner mode
// (t.partnerNow): then it must only perform its native channel operation and
// call afterPartner.
func (s *Sched) block(t *thread) {
	if s.finished {
		s.park(t)
		return
	}
	s.dispatch(t)
}

// dispatch picks the next transition. self is the thread running the
// scheduler (may be done).
func (s *Sched) dispatch(self *thread) {
	for {
		atomic.AddInt64(&s.step, 1)
		if int(s.step) > s.cfg.MaxSteps {
			s.finish(StepLimit)
			if !self.done {
				s.park(self)
			}
			return
		}
		trs, timerAlt := s.enumerate()
		if len(trs) == 0 {
			// nothing enabled: fire the earliest timer, or deadlock
			if tm := s.nextTimer(); tm != nil {
				s.fireTimer(tm)
				continue
			}
			s.finish(Deadlock)
			if !self.done {
				s.park(self)
			}
			return
		}
		tr, ok := s.chooseTransition(trs, timerAlt)
		if !ok {
			// diverged
			if !self.done {
				s.park(self)
			}
			return
		}
		if tr.kind == tTimer {
			s.fireTimer(s.nextTimer())
			continue
		}
		if tr.kind == tStall {
			s.minPrio--
			s.cur.prio = s.minPrio
			s.mix(0x5741)
			if s.trace != nil {
				s.traceStr(fmt.Sprintf("%d stall t%d[%s] @%s", s.step, s.cur.id, s.cur.name, s.cur.op.site))
			}
			continue
		}
		s.apply(self, tr)
		return
	}
}

const (
	tRun = iota
	tRendezvous
	tTimer
	tStall
)

type trans struct {
	kind int
	t    *thread // continuing thread
	ci   int     // its case index
	p    *thread // partner
	pi   int
}

func (s *Sched) apply(self *thread, tr trans) {
	t := tr.t
	if s.trace != nil {
		s.traceAdd(t, tr)
	}
	s.mix(uint64(t.id)<<8 | uint64(t.op.kind))
	s.mixs(t.op.site)
	if t.op.kind == opChan {
		t.op.chosen = tr.ci
		s.mix(uint64(tr.ci) + 17)
		s.unregister(t)
	}
	if s.cfg.Races && t.op.kind == opChan && tr.ci >= 0 {
		c := &t.op.cases[tr.ci]
		if tr.kind == tRendezvous {
			p := tr.p
			// unbuffered: the send is synchronised before the receive completes and vice versa
			m := join(join(vclock(nil), t.vc), p.vc)
			t.vc, p.vc = m.clone(), m.clone()
			s.tick(t)
			s.tick(p)
		} else if c.Dir == SendDir {
			c.st.vc = join(c.st.vc, t.vc)
			s.tick(t)
		} else {
			t.vc = join(t.vc, c.st.vc)
		}
	}
	var part *thread
	if tr.kind == tRendezvous {
		part = tr.p
		s.unregister(part)
		part.op.chosen = tr.pi
		part.partnerNow = true
		s.mix(uint64(part.id)<<20 | uint64(tr.pi))
		// partner becomes a resumable thread right away
		pop := op{kind: opResume, site: part.op.site, chosen: tr.pi, cases: part.op.cases}
		part.op = pop
		part.ready = s.step
		part.wasEnabled = true
	}
	// the continuing thread's op is consumed
	t.wasEnabled = false
	s.cur = t
	if part != nil && part != self {
		part.wake <- struct{}{}
	}
	if t != self {
		t.wake <- struct{}{}
		if self.done {
			return
		}
		// self parks (as partner: returns immediately in partner mode)
		if part == self {
			return
		}
		s.park(self)
		return
	}
}

func (s *Sched) traceAdd(t *thread, tr trans) {
	e := fmt.Sprintf("%d t%d[%s] %s @%s", s.step, t.id, t.name, opNames[t.op.kind], t.op.site)
	if t.op.kind == opChan {
		e += fmt.Sprintf(" case=%d", tr.ci)
	}
	if tr.kind == tRendezvous {
		e += fmt.Sprintf(" <-> t%d[%s] case=%d @%s", tr.p.id, tr.p.name, tr.pi, tr.p.op.site)
	}
	if t.op.label != "" {
		e += " " + t.op.label
	}
	s.traceStr(e)
}

func (s *Sched) traceStr(e string) {
	if s.trace == nil {
		return
	}
	s.trace[s.tpos] = e
	s.tpos = (s.tpos + 1) % len(s.trace)
}

// TraceNote lets harness code add a line to the operation trace.
func TraceNote(format string, a ...any) {
	if S != nil && S.trace != nil {
		S.traceStr(fmt.Sprintf("   note: "+format, a...))
	}
}

func (s *Sched) mix(v uint64) {
	s.hash ^= v
	s.hash *= 1099511628211
}

func (s *Sched) mixs(v string) {
	for i := 0; i < len(v); i++ {
		s.hash ^= uint64(v[i])
		s.hash *= 1099511628211
	}
}

// enabledOf appends the transitions of thread t (as continuing thread).
func (s *Sched) enabledOf(t *thread, out []trans) []trans {
	o := &t.op
	switch o.kind {
	case opResume:
		return append(out, trans{kind: tRun, t: t})
	case opLock:
		if !o.obj.(*Mutex).locked {
			return append(out, trans{kind: tRun, t: t})
		}
	case opWMutex:
		if !o.obj.(*RWMutex).wm {
			return append(out, trans{kind: tRun, t: t})
		}
	case opWLock:
		rw := o.obj.(*RWMutex)
		if rw.r == 0 {
			return append(out, trans{kind: tRun, t: t})
		}
	case opRLock:
		rw := o.obj.(*RWMutex)
		if !rw.pending {
			return append(out, trans{kind: tRun, t: t})
		}
	case opCondWait:
		if o.signaled {
			return append(out, trans{kind: tRun, t: t})
		}
	case opWGWait:
		if o.obj.(*WaitGroup).n == 0 {
			return append(out, trans{kind: tRun, t: t})
		}
	case opSleep:
		if o.signaled {
			return append(out, trans{kind: tRun, t: t})
		}
	case opWaitUntil:
		if o.pred() {
			return append(out, trans{kind: tRun, t: t})
		}
	case opChan:
		n0 := len(out)
		for i := range o.cases {
			c := &o.cases[i]
			if c.null {
				continue
			}
			st := c.st
			ln, cp := c.rv.Len(), c.rv.Cap()
			if c.Dir == SendDir {
				if st.closed || ln < cp {
					out = append(out, trans{kind: tRun, t: t, ci: i})
					continue
				}
				if cp == 0 {
					for _, w := range st.recvW {
						if w.t != t {
							out = append(out, trans{kind: tRendezvous, t: t, ci: i, p: w.t, pi: w.ci})
						}
					}
				}
			} else {
				if ln > 0 || st.closed {
					out = append(out, trans{kind: tRun, t: t, ci: i})
					continue
				}
				if cp == 0 {
					for _, w := range st.sendW {
						if w.t != t {
							out = append(out, trans{kind: tRun + tRendezvous, t: t, ci: i, p: w.t, pi: w.ci})
						}
					}
				}
			}
		}
		if len(out) == n0 && o.hasDefault {
			out = append(out, trans{kind: tRun, t: t, ci: -1})
		}
	}
	return out
}

var scratchOthers []*thread

type trange struct {
	t      *thread
	lo, hi int
}

// enumerate returns the enabled transitions in canonical order: those of the
// running thread first, then the other threads by (ready, id). A rendezvous is
// listed once, under the thread that continues (the running thread if it takes
// part, else the sender).
func (s *Sched) enumerate() ([]trans, bool) {
	if s.ndead > 64 && s.ndead*2 > len(s.threads) {
		k := 0
		for _, t := range s.threads {
			if !(t.done && t.exited) {
				s.threads[k] = t
				k++
			}
		}
		for i := k; i < len(s.threads); i++ {
			s.threads[i] = nil
		}
		s.threads = s.threads[:k]
		s.ndead = 0
	}
	out := s.trbuf[:0]
	cur := s.cur
	ranges := s.rangebuf[:0]
	if cur != nil && !cur.done && cur.op.kind != opQuiesce {
		out = s.enabledOf(cur, out)
		if len(out) > 0 {
			ranges = append(ranges, trange{cur, 0, len(out)})
		}
	}
	anyQ := cur != nil && !cur.done && cur.op.kind == opQuiesce
	for _, t := range s.threads {
		if t.done || t.exited || t == cur {
			continue
		}
		if t.op.kind == opQuiesce {
			anyQ = true
			continue
		}
		lo := len(out)
		out = s.enabledOf(t, out)
		// drop rendezvous transitions where t is the receiver (listed under the sender) or
		// whose partner is the running thread (listed under it)
		k := lo
		for i := lo; i < len(out); i++ {
			x := out[i]
			if x.kind == tRendezvous {
				if x.p == cur || t.op.cases[x.ci].Dir == RecvDir {
					continue
				}
			}
			out[k] = x
			k++
		}
		out = out[:k]
		if k > lo {
			if !t.wasEnabled {
				t.wasEnabled = true
				t.ready = s.step
			}
			ranges = append(ranges, trange{t, lo, k})
		} else {
			t.wasEnabled = false
		}
	}
	if len(ranges) > 1 {
		// insertion sort by (priority desc, running thread first, ready, id); then rebuild out in that order
		less := func(a, b *thread) bool {
			if a.prio != b.prio {
				return a.prio > b.prio
			}
			if a == cur {
				return true
			}
			if b == cur {
				return false
			}
			if a.ready != b.ready {
				return a.ready < b.ready
			}
			return a.id < b.id
		}
		for i := 1; i < len(ranges); i++ {
			r := ranges[i]
			j := i - 1
			for j >= 0 && less(r.t, ranges[j].t) {
				ranges[j+1] = ranges[j]
				j--
			}
			ranges[j+1] = r
		}
		sorted := true
		for i := 1; i < len(ranges); i++ {
			if ranges[i].lo < ranges[i-1].lo {
				sorted = false
				break
			}
		}
		if !sorted {
			tmp := s.altbuf[:0]
			for _, r := range ranges {
				tmp = append(tmp, out[r.lo:r.hi]...)
			}
			copy(out, tmp)
			s.altbuf = tmp[:0]
		}
	}
	s.rangebuf = ranges[:0]
	if len(out) == 0 && anyQ {
		// quiescers: only those of the highest priority
		best := -1 << 30
		for _, t := range s.threads {
			if !t.done && !t.exited && t.op.kind == opQuiesce && t.op.prio > best {
				best = t.op.prio
			}
		}
		for _, t := range s.threads {
			if !t.done && !t.exited && t.op.kind == opQuiesce && t.op.prio == best {
				out = append(out, trans{kind: tRun, t: t})
			}
		}
	}
	s.trbuf = out[:0]
	timerAlt := false
	if len(out) > 0 && s.cfg.Timer >= 0 {
		if tm := s.nextTimer(); tm != nil {
			timerAlt = true
		}
	}
	return out, timerAlt
}

func (s *Sched) inScope(site string) bool {
	if site == "" || s.cfg.NoScopeCache {
		return s.cfg.Scope(site)
	}
	k := unsafe.StringData(site)
	v, ok := s.scopeC[k]
	if !ok {
		v = s.cfg.Scope(site)
		s.scopeC[k] = v
	}
	return v
}

// chooseTransition applies replay / default / recording.
func (s *Sched) chooseTransition(trs []trans, timerAlt bool) (trans, bool) {
	def := trs[0]
	stallable := s.cfg.Stall > 0 && s.cur != nil && def.t == s.cur && len(trs) > 1 && s.cfg.Budget[BudP]-s.used[BudP] >= s.cfg.Stall
	if len(trs) == 1 && !timerAlt {
		return def, true
	}
	// affordable alternatives
	cur := s.cur
	curEnabled := cur != nil && !cur.done && def.t == cur
	remP := s.cfg.Budget[BudP] - s.used[BudP]
	if !timerAlt && remP <= 0 && s.cfg.Preempt != 0 && s.cfg.Switch != 0 && s.cfg.SelCase != 0 {
		return def, true
	}
	alts := s.altbuf[:0]
	alts = append(alts, def)
	costs := s.costbuf[:0]
	costs = append(costs, 0)
	defer func() { s.altbuf, s.costbuf = alts[:0], costs[:0] }()
	for _, x := range trs[1:] {
		var c int
		if x.t == def.t {
			c = s.cfg.SelCase
		} else if curEnabled {
			c = s.cfg.Preempt
		} else {
			c = s.cfg.Switch
		}
		if c < 0 || c > remP {
			continue
		}
		if c > 0 && s.cfg.Scope != nil {
			if !(s.inScope(def.t.op.site) || s.inScope(x.t.op.site) || (cur != nil && s.inScope(cur.op.site))) {
				continue
			}
		}
		alts = append(alts, x)
		costs = append(costs, int8(c))
	}
	stallIdx := -1
	if stallable {
		// only worth offering if some thread of another identity is enabled
		other := false
		for _, x := range trs[1:] {
			if x.t != def.t {
				other = true
				break
			}
		}
		if other && (s.cfg.Scope == nil || s.inScope(def.t.op.site)) {
			stallIdx = len(alts)
			alts = append(alts, trans{kind: tStall})
			costs = append(costs, int8(s.cfg.Stall))
		}
	}
	timerIdx := -1
	if timerAlt {
		c := s.cfg.Timer
		remT := s.cfg.Budget[BudT] - s.used[BudT]
		tm := s.nextTimer()
		if c <= remT && (c == 0 || s.cfg.Scope == nil || s.inScope(tm.site)) {
			timerIdx = len(alts)
			alts = append(alts, trans{kind: tTimer})
			costs = append(costs, int8(c))
		}
	}
	if len(alts) == 1 {
		return def, true
	}
	idx, ok := s.take(len(alts), 's', "")
	if !ok {
		return def, false
	}
	_ = stallIdx
	if idx == timerIdx {
		s.used[BudT] += int(costs[idx])
	} else {
		s.used[BudP] += int(costs[idx])
	}
	return alts[idx], true
}

// take consumes one choice (replay or default 0) and records it.
func (s *Sched) take(n int, kind uint8, label string) (int, bool) {
	idx := 0
	if s.pos < len(s.cfg.Prefix) {
		idx = s.cfg.Prefix[s.pos]
		if idx < 0 || idx >= n {
			s.diverge = fmt.Sprintf("choice %d: replayed alternative %d out of range (n=%d, kind=%c, label=%q)", s.pos, idx, n, kind, label)
			s.finish(Diverged)
			return 0, false
		}
	}
	s.pos++
	c := Choice{N: n, Chosen: idx, Kind: kind, Hash: s.hash}
	if s.cfg.Labels {
		c.Label = label
	}
	s.choices = append(s.choices, c)
	s.mix(uint64(idx)*31 + uint64(n))
	return idx, true
}

// ---- timers ----

func (s *Sched) addTimer(d time.Duration, site string, fire func(s *Sched)) *timer {
	if d < 0 {
		d = 0
	}
	s.tseq++
	tm := &timer{when: s.now + d, seq: s.tseq, fire: fire, site: site}
	if s.cfg.Races {
		if a := s.actVC(); a != nil {
			tm.vc = a.clone()
		}
	}
	s.timers = append(s.timers, tm)
	return tm
}

func (s *Sched) nextTimer() *timer {
	var best *timer
	k := 0
	for _, tm := range s.timers {
		if tm.dead {
			continue
		}
		s.timers[k] = tm
		k++
		if best == nil || tm.when < best.when || (tm.when == best.when && tm.seq < best.seq) {
			best = tm
		}
	}
	for i := k; i < len(s.timers); i++ {
		s.timers[i] = nil
	}
	s.timers = s.timers[:k]
	if best != nil && best.when > s.cfg.Horizon {
		return nil
	}
	return best
}

func (s *Sched) fireTimer(tm *timer) {
	if tm.when > s.now {
		s.now = tm.when
	}
	tm.dead = true
	s.mix(uint64(tm.when) ^ 0x9e3779b97f4a7c15)
	if s.trace != nil {
		s.traceStr(fmt.Sprintf("%d timer @%v %s", s.step, s.now, tm.site))
	}
	if s.cfg.Races {
		vc := tm.vc.clone()
		s.envVC = &vc
		tm.fire(s)
		s.envVC = nil
		return
	}
	tm.fire(s)
}

// ---- public API used by shims and harnesses ----

func cur() (*Sched, *thread) {
	s := S
	if s == nil {
		return nil, nil
	}
	return s, s.cur
}

// Yield is a plain scheduling point.
func Yield(site string) {
	s, t := cur()
	if s == nil || s.aborting {
		return
	}
	t.op = op{kind: opResume, site: site}
	s.block(t)
}

// Go starts f as a managed thread.
func Go(site string, f func()) {
	s, t := cur()
	if s == nil {
		panic("vsched.Go outside an execution: " + site)
	}
	if s.aborting {
		return
	}
	lib := !strings.HasPrefix(site, "h:")
	s.newThread(site, lib, f)
	t.op = op{kind: opResume, site: site}
	s.block(t)
}

// Choose is a free environment choice among n alternatives.
func Choose(label string, n int) int {
	s := S
	if s == nil || s.aborting || n <= 1 {
		return 0
	}
	idx, ok := s.take(n, 'e', label)
	if !ok {
		s.park(s.cur)
	}
	if s.trace != nil {
		s.traceStr(fmt.Sprintf("   choose %s = %d/%d", label, idx, n))
	}
	return idx
}

// ChooseBudget: alternative 0 is free, any other costs one unit of budget b.
func ChooseBudget(label string, n int, b int) int {
	s := S
	if s == nil || s.aborting || n <= 1 {
		return 0
	}
	if s.cfg.Budget[b]-s.used[b] <= 0 {
		return 0
	}
	idx, ok := s.take(n, 'f', label)
	if !ok {
		s.park(s.cur)
	}
	if idx != 0 {
		s.used[b]++
	}
	if s.trace != nil {
		s.traceStr(fmt.Sprintf("   fault? %s = %d/%d", label, idx, n))
	}
	return idx
}

// WaitUntil parks the calling thread until pred() holds. pred must only read state.
func WaitUntil(label string, pred func() bool) {
	s, t := cur()
	if s == nil {
		if !pred() {
			panic("vsched.WaitUntil outside an execution would block: " + label)
		}
		return
	}
	if s.aborting {
		runtime.Goexit()
	}
	t.op = op{kind: opWaitUntil, site: "h:" + label, pred: pred, label: label}
	s.block(t)
}

// Quiesce parks the calling thread until no other thread is enabled (timers are not fired).
func Quiesce() { QuiesceP(0) }

// QuiesceP is Quiesce with a priority: among several quiescent waiters only those with the
// highest priority are woken.
func QuiesceP(prio int) {
	s, t := cur()
	if s == nil {
		return
	}
	if s.aborting {
		runtime.Goexit()
	}
	t.op = op{kind: opQuiesce, site: "h:quiesce", prio: prio}
	s.block(t)
}

// Sleep advances virtual time for the calling thread.
func Sleep(d time.Duration, site string) {
	s, t := cur()
	if s == nil {
		return
	}
	if s.aborting {
		runtime.Goexit()
	}
	t.op = op{kind: opSleep, site: site}
	s.addTimer(d, site, func(s *Sched) { t.op.signaled = true })
	s.block(t)
}

// AfterFunc registers f to run in the scheduler at now+d. f must not block.
// Returns a stop function (reports whether the timer was still pending).
func AfterFunc(d time.Duration, site string, f func()) (stop func() bool) {
	s := S
	if s == nil || s.aborting {
		return func() bool { return false }
	}
	tm := s.addTimer(d, site, func(*Sched) { f() })
	return func() bool {
		was := !tm.dead
		tm.dead = true
		return was
	}
}

// Spawn starts a managed thread from scheduler context (timer callbacks); no scheduling point.
func Spawn(site string, f func()) {
	s := S
	if s == nil || s.aborting {
		return
	}
	s.newThread(site, !strings.HasPrefix(site, "h:"), f)
}

// ThreadID of the running thread (harness bookkeeping).
func ThreadID() int {
	if S == nil || S.cur == nil {
		return -1
	}
	return S.cur.id
}

// SetLabel attaches a label to the running thread (shown in Alive).
func SetLabel(l string) {
	if S != nil && S.cur != nil {
		S.cur.label = l
	}
}

// ---- caller sites ----

var (
	siteMu    sync.Mutex
	siteCache = map[uintptr]string{}
)

// CallerSite returns "pkg.Func" of the caller skip frames above the caller of CallerSite.
func CallerSite(skip int) string {
	var pcs [1]uintptr
	if runtime.Callers(skip+2, pcs[:]) == 0 {
		return "?"
	}
	pc := pcs[0]
	siteMu.Lock()
	v, ok := siteCache[pc]
	siteMu.Unlock()
	if ok {
		return v
	}
	fr, _ := runtime.CallersFrames(pcs[:]).Next()
	v = shortFunc(fr.Function)
	siteMu.Lock()
	siteCache[pc] = v
	siteMu.Unlock()
	return v
}

func shortFunc(f string) string {
	f = strings.TrimPrefix(f, "github.com/aptpod/iscp-go/")
	return f
}

// ObjID gives a stable small id for an object within the execution (first-seen order).
func ObjID(o any) int {
	s := S
	if s == nil {
		return 0
	}
	if id, ok := s.objIDs[o]; ok {
		return id
	}
	s.nextObj++
	s.objIDs[o] = s.nextObj
	return s.nextObj
}
