package vsched

import (
	"fmt"
	"reflect"
	"sort"
)

// SortedKeys returns the keys of m in a deterministic order (replaces Go's randomised
// map iteration in instrumented code). Pointer-like keys are ordered by first-seen id.
func SortedKeys[M ~map[K]V, K comparable, V any](m M, site string) []K {
	MR(m, site) // iterating a map reads it (race detection)
	keys := make([]K, 0, len(m))
	for k := range m {
		keys = append(keys, k)
	}
	if len(keys) < 2 {
		return keys
	}
	var zero K
	kind := reflect.TypeOf(&zero).Elem().Kind()
	switch kind {
	case reflect.Pointer, reflect.Chan, reflect.UnsafePointer, reflect.Func, reflect.Interface:
		// stable ids: assign in a deterministic pass (sorted by previously assigned ids, new ones by address order is
		// not deterministic, so new objects are registered in first-seen order of a value-based sort when possible)
		ids := make([]int, len(keys))
		for i, k := range keys {
			ids[i] = objIDNoCreate(any(k))
		}
		// objects never seen before get ids now; their relative order is by their printed value when distinguishable
		var unseen []int
		for i, id := range ids {
			if id == 0 {
				unseen = append(unseen, i)
			}
		}
		sort.SliceStable(unseen, func(a, b int) bool {
			return fmt.Sprintf("%+v", derefForPrint(keys[unseen[a]])) < fmt.Sprintf("%+v", derefForPrint(keys[unseen[b]]))
		})
		for _, i := range unseen {
			ids[i] = ObjID(any(keys[i]))
		}
		idx := make([]int, len(keys))
		for i := range idx {
			idx[i] = i
		}
		sort.SliceStable(idx, func(a, b int) bool { return ids[idx[a]] < ids[idx[b]] })
		out := make([]K, len(keys))
		for i, j := range idx {
			out[i] = keys[j]
		}
		keys = out
	default:
		sort.SliceStable(keys, func(i, j int) bool { return lessAny(reflect.ValueOf(keys[i]), reflect.ValueOf(keys[j])) })
	}
	s := S
	if s != nil && !s.aborting && s.cfg.MapChoice && len(keys) <= 3 {
		// iteration order of small maps is an explored choice
		n := 2
		if len(keys) == 3 {
			n = 6
		}
		p := Choose("maporder@"+site, n)
		keys = permute(keys, p)
	}
	return keys
}

func permute[K any](k []K, p int) []K {
	if len(k) == 2 {
		if p == 1 {
			return []K{k[1], k[0]}
		}
		return k
	}
	perms := [][3]int{{0, 1, 2}, {0, 2, 1}, {1, 0, 2}, {1, 2, 0}, {2, 0, 1}, {2, 1, 0}}
	q := perms[p]
	return []K{k[q[0]], k[q[1]], k[q[2]]}
}

func derefForPrint(k any) any {
	v := reflect.ValueOf(k)
	if v.Kind() == reflect.Pointer && !v.IsNil() && v.Elem().Kind() != reflect.Struct {
		return v.Elem().Interface()
	}
	return "?"
}

func objIDNoCreate(o any) int {
	s := S
	if s == nil {
		return 0
	}
	return s.objIDs[o]
}

func lessAny(a, b reflect.Value) bool {
	switch a.Kind() {
	case reflect.Int, reflect.Int8, reflect.Int16, reflect.Int32, reflect.Int64:
		return a.Int() < b.Int()
	case reflect.Uint, reflect.Uint8, reflect.Uint16, reflect.Uint32, reflect.Uint64, reflect.Uintptr:
		return a.Uint() < b.Uint()
	case reflect.String:
		return a.String() < b.String()
	case reflect.Float32, reflect.Float64:
		return a.Float() < b.Float()
	case reflect.Bool:
		return !a.Bool() && b.Bool()
	case reflect.Array:
		for i := 0; i < a.Len(); i++ {
			if lessAny(a.Index(i), b.Index(i)) {
				return true
			}
			if lessAny(b.Index(i), a.Index(i)) {
				return false
			}
		}
		return false
	case reflect.Struct:
		for i := 0; i < a.NumField(); i++ {
			if lessAny(a.Field(i), b.Field(i)) {
				return true
			}
			if lessAny(b.Field(i), a.Field(i)) {
				return false
			}
		}
		return false
	}
	return fmt.Sprint(a) < fmt.Sprint(b)
}
