package vsched

import (
	"fmt"
	"reflect"
	"sort"
	"unsafe"
)

// Happens-before race detection inside the explorer (C09 builds, Config.Races).
// Edges come only from the program's own synchronisation (unlock->lock, send->receive,
// close->receive, Done->Wait, Once, atomics, go->child start, timer creation->firing),
// never from the scheduler's hand-offs.

type vclock []uint32

func (v vclock) get(i int) uint32 {
	if i < len(v) {
		return v[i]
	}
	return 0
}

func join(a, b vclock) vclock {
	if len(b) > len(a) {
		n := make(vclock, len(b))
		copy(n, a)
		a = n
	}
	for i, x := range b {
		if x > a[i] {
			a[i] = x
		}
	}
	return a
}

func (v vclock) clone() vclock { return append(vclock(nil), v...) }

type epoch struct {
	tid    int
	clk    uint32
	site   string
	atomic bool
	tname  string
}

type location struct {
	keep   any
	w      epoch
	hasW   bool
	reads  []epoch
	name   string
}

// Race is one unordered conflicting pair.
type Race struct {
	Loc   string // field / map description
	A, B  string // access sites (A earlier in the execution)
	AW, BW bool  // write flags
	TA, TB string // spawn sites of the two threads
}

func (r Race) Key() string {
	a, b := siteFn(r.A), siteFn(r.B)
	if a > b {
		a, b = b, a
	}
	return a + " | " + b
}

func siteFn(s string) string {
	for i := 0; i < len(s); i++ {
		if s[i] == '@' {
			return s[:i]
		}
	}
	return s
}

func (s *Sched) racesOn() bool { return s != nil && s.cfg.Races && !s.aborting }

// curVC returns the clock of the acting entity (running thread, or the timer being fired).
func (s *Sched) actVC() *vclock {
	if s.envVC != nil {
		return s.envVC
	}
	if s.cur != nil {
		return &s.cur.vc
	}
	return nil
}

func (s *Sched) tick(t *thread) {
	if len(t.vc) <= t.id {
		n := make(vclock, t.id+1)
		copy(n, t.vc)
		t.vc = n
	}
	t.vc[t.id]++
}

// release: the acting entity publishes its clock into obj.
func (s *Sched) hbRelease(obj *vclock) {
	if !s.racesOn() {
		return
	}
	a := s.actVC()
	if a == nil {
		return
	}
	*obj = join(*obj, *a)
	if s.envVC == nil && s.cur != nil {
		s.tick(s.cur)
	}
}

// acquire: the acting entity learns obj's clock.
func (s *Sched) hbAcquire(obj *vclock) {
	if !s.racesOn() {
		return
	}
	a := s.actVC()
	if a == nil {
		return
	}
	*a = join(*a, *obj)
}

func (s *Sched) access(p unsafe.Pointer, keep any, site string, write, atomic bool, name string) {
	t := s.cur
	if t == nil || s.envVC != nil {
		return
	}
	if len(t.vc) <= t.id || t.vc[t.id] == 0 {
		s.tick(t)
	}
	key := uintptr(p)
	l := s.locs[key]
	if l == nil {
		l = &location{keep: keep, name: name}
		s.locs[key] = l
	}
	me := epoch{tid: t.id, clk: t.vc[t.id], site: site, atomic: atomic, tname: t.name}
	ordered := func(e epoch) bool { return e.tid == t.id || e.clk <= t.vc.get(e.tid) }
	report := func(e epoch, ew bool) {
		if e.atomic && atomic {
			return
		}
		r := Race{Loc: l.name, A: e.site, B: site, AW: ew, BW: write, TA: e.tname, TB: t.name}
		k := r.Key() + "#" + l.name
		if _, ok := s.raceSeen[k]; !ok {
			s.raceSeen[k] = struct{}{}
			s.races = append(s.races, r)
		}
	}
	if l.hasW && !ordered(l.w) {
		report(l.w, true)
	}
	if write {
		for _, e := range l.reads {
			if !ordered(e) {
				report(e, false)
			}
		}
		l.w, l.hasW = me, true
		l.reads = l.reads[:0]
		return
	}
	// read: keep one epoch per thread
	for i := range l.reads {
		if l.reads[i].tid == t.id {
			l.reads[i] = me
			return
		}
	}
	l.reads = append(l.reads, me)
}

func fieldName(p any) string {
	t := reflect.TypeOf(p)
	if t.Kind() == reflect.Pointer {
		return t.Elem().String()
	}
	return t.String()
}

// R records a read of *p and returns p.
func R[T any](p *T, site string) *T {
	if s := S; s != nil && s.cfg.Races && !s.aborting {
		s.access(unsafe.Pointer(p), p, site, false, false, siteField(site))
	}
	return p
}

// W records a write of *p and returns p.
func W[T any](p *T, site string) *T {
	if s := S; s != nil && s.cfg.Races && !s.aborting {
		s.access(unsafe.Pointer(p), p, site, true, false, siteField(site))
	}
	return p
}

// MR records a read of the map object m.
func MR[M ~map[K]V, K comparable, V any](m M, site string) M {
	if s := S; s != nil && s.cfg.Races && !s.aborting && m != nil {
		s.access(unsafe.Pointer(reflect.ValueOf(m).Pointer()), m, site, false, false, "map:"+siteField(site))
	}
	return m
}

// MW records a write of the map object m.
func MW[M ~map[K]V, K comparable, V any](m M, site string) M {
	if s := S; s != nil && s.cfg.Races && !s.aborting && m != nil {
		s.access(unsafe.Pointer(reflect.ValueOf(m).Pointer()), m, site, true, false, "map:"+siteField(site))
	}
	return m
}

// AtomicAccess is called by the vatomic shims: an atomic operation is an acquire+release on
// the address and an access that races only with plain accesses.
func AtomicAccess(p unsafe.Pointer, write bool) {
	s := S
	if !s.racesOn() || s.cur == nil {
		return
	}
	a := s.atomics[uintptr(p)]
	if a == nil {
		a = &vclock{}
		s.atomics[uintptr(p)] = a
	}
	s.hbAcquire(a)
	s.access(p, nil, CallerSite(2), write, true, "atomic")
	s.hbRelease(a)
}

func siteField(site string) string { return site }

// Races returns the races of the finished execution (sorted).
func (s *Sched) sortedRaces() []Race {
	out := append([]Race{}, s.races...)
	sort.Slice(out, func(i, j int) bool { return out[i].Key()+out[i].Loc < out[j].Key()+out[j].Loc })
	return out
}

func (r Race) String() string {
	k := func(w bool) string {
		if w {
			return "write"
		}
		return "read"
	}
	return fmt.Sprintf("%s at %s [thread %s] unordered with %s at %s [thread %s]", k(r.AW), r.A, r.TA, k(r.BW), r.B, r.TB)
}
