// Package vrand replaces "math/rand" in instrumented packages: deterministic mid-range values.
package vrand

import "math/rand"

type (
	Rand   = rand.Rand
	Source = rand.Source
)

func Float64() float64     { return 0.5 }
func Float32() float32     { return 0.5 }
func Int() int             { return 1 }
func Intn(n int) int       { return n / 2 }
func Int31() int32         { return 1 }
func Int31n(n int32) int32 { return n / 2 }
func Int63() int64         { return 1 }
func Int63n(n int64) int64 { return n / 2 }
func Uint32() uint32       { return 1 }
func Uint64() uint64       { return 1 }
func Seed(int64)           {}
func Perm(n int) []int {
	p := make([]int, n)
	for i := range p {
		p[i] = i
	}
	return p
}
func Shuffle(n int, swap func(i, j int)) {}
func NewSource(seed int64) Source        { return rand.NewSource(seed) }
func New(src Source) *Rand               { return rand.New(src) }
func ExpFloat64() float64                { return 1 }
func NormFloat64() float64               { return 0 }
func Read(p []byte) (int, error) {
	for i := range p {
		p[i] = 0
	}
	return len(p), nil
}
