// Package vatomic replaces "sync/atomic" in instrumented packages. Operations are real
// atomics preceded by an optional scheduling point (Config.Atomics).
package vatomic

import (
	"sync/atomic"
	"unsafe"

	"github.com/aptpod/iscp-go/internal/vsched"
)

func p() { vsched.AtomicPoint() }

func pa(a unsafe.Pointer, w bool) { vsched.AtomicPoint(); vsched.AtomicAccess(a, w) }

func AddInt32(a *int32, d int32) int32                 { pa(unsafe.Pointer(a), true); return atomic.AddInt32(a, d) }
func AddInt64(a *int64, d int64) int64                 { pa(unsafe.Pointer(a), true); return atomic.AddInt64(a, d) }
func AddUint32(a *uint32, d uint32) uint32             { pa(unsafe.Pointer(a), true); return atomic.AddUint32(a, d) }
func AddUint64(a *uint64, d uint64) uint64             { pa(unsafe.Pointer(a), true); return atomic.AddUint64(a, d) }
func AddUintptr(a *uintptr, d uintptr) uintptr         { pa(unsafe.Pointer(a), true); return atomic.AddUintptr(a, d) }
func LoadInt32(a *int32) int32                         { pa(unsafe.Pointer(a), false); return atomic.LoadInt32(a) }
func LoadInt64(a *int64) int64                         { pa(unsafe.Pointer(a), false); return atomic.LoadInt64(a) }
func LoadUint32(a *uint32) uint32                      { pa(unsafe.Pointer(a), false); return atomic.LoadUint32(a) }
func LoadUint64(a *uint64) uint64                      { pa(unsafe.Pointer(a), false); return atomic.LoadUint64(a) }
func LoadUintptr(a *uintptr) uintptr                   { pa(unsafe.Pointer(a), false); return atomic.LoadUintptr(a) }
func LoadPointer(a *unsafe.Pointer) unsafe.Pointer     { pa(unsafe.Pointer(a), false); return atomic.LoadPointer(a) }
func StoreInt32(a *int32, v int32)                     { pa(unsafe.Pointer(a), true); atomic.StoreInt32(a, v) }
func StoreInt64(a *int64, v int64)                     { pa(unsafe.Pointer(a), true); atomic.StoreInt64(a, v) }
func StoreUint32(a *uint32, v uint32)                  { pa(unsafe.Pointer(a), true); atomic.StoreUint32(a, v) }
func StoreUint64(a *uint64, v uint64)                  { pa(unsafe.Pointer(a), true); atomic.StoreUint64(a, v) }
func StoreUintptr(a *uintptr, v uintptr)               { pa(unsafe.Pointer(a), true); atomic.StoreUintptr(a, v) }
func StorePointer(a *unsafe.Pointer, v unsafe.Pointer) { pa(unsafe.Pointer(a), true); atomic.StorePointer(a, v) }
func SwapInt32(a *int32, v int32) int32                { pa(unsafe.Pointer(a), true); return atomic.SwapInt32(a, v) }
func SwapInt64(a *int64, v int64) int64                { pa(unsafe.Pointer(a), true); return atomic.SwapInt64(a, v) }
func SwapUint32(a *uint32, v uint32) uint32            { pa(unsafe.Pointer(a), true); return atomic.SwapUint32(a, v) }
func SwapUint64(a *uint64, v uint64) uint64            { pa(unsafe.Pointer(a), true); return atomic.SwapUint64(a, v) }
func SwapUintptr(a *uintptr, v uintptr) uintptr        { pa(unsafe.Pointer(a), true); return atomic.SwapUintptr(a, v) }
func SwapPointer(a *unsafe.Pointer, v unsafe.Pointer) unsafe.Pointer {
	p()
	return atomic.SwapPointer(a, v)
}
func CompareAndSwapInt32(a *int32, o, n int32) bool { pa(unsafe.Pointer(a), true); return atomic.CompareAndSwapInt32(a, o, n) }
func CompareAndSwapInt64(a *int64, o, n int64) bool { pa(unsafe.Pointer(a), true); return atomic.CompareAndSwapInt64(a, o, n) }
func CompareAndSwapUint32(a *uint32, o, n uint32) bool {
	p()
	return atomic.CompareAndSwapUint32(a, o, n)
}
func CompareAndSwapUint64(a *uint64, o, n uint64) bool {
	p()
	return atomic.CompareAndSwapUint64(a, o, n)
}
func CompareAndSwapUintptr(a *uintptr, o, n uintptr) bool {
	p()
	return atomic.CompareAndSwapUintptr(a, o, n)
}
func CompareAndSwapPointer(a *unsafe.Pointer, o, n unsafe.Pointer) bool {
	p()
	return atomic.CompareAndSwapPointer(a, o, n)
}
func AndInt32(a *int32, m int32) int32     { pa(unsafe.Pointer(a), true); return atomic.AndInt32(a, m) }
func AndUint32(a *uint32, m uint32) uint32 { pa(unsafe.Pointer(a), true); return atomic.AndUint32(a, m) }
func AndInt64(a *int64, m int64) int64     { pa(unsafe.Pointer(a), true); return atomic.AndInt64(a, m) }
func AndUint64(a *uint64, m uint64) uint64 { pa(unsafe.Pointer(a), true); return atomic.AndUint64(a, m) }
func OrInt32(a *int32, m int32) int32      { pa(unsafe.Pointer(a), true); return atomic.OrInt32(a, m) }
func OrUint32(a *uint32, m uint32) uint32  { pa(unsafe.Pointer(a), true); return atomic.OrUint32(a, m) }
func OrInt64(a *int64, m int64) int64      { pa(unsafe.Pointer(a), true); return atomic.OrInt64(a, m) }
func OrUint64(a *uint64, m uint64) uint64  { pa(unsafe.Pointer(a), true); return atomic.OrUint64(a, m) }

type Bool struct{ v atomic.Bool }

func (x *Bool) Load() bool                    { pa(unsafe.Pointer(&x.v), false); return x.v.Load() }
func (x *Bool) Store(v bool)                  { pa(unsafe.Pointer(&x.v), true); x.v.Store(v) }
func (x *Bool) Swap(v bool) bool              { pa(unsafe.Pointer(&x.v), true); return x.v.Swap(v) }
func (x *Bool) CompareAndSwap(o, n bool) bool { pa(unsafe.Pointer(&x.v), true); return x.v.CompareAndSwap(o, n) }

type Int32 struct{ v atomic.Int32 }

func (x *Int32) Load() int32                    { pa(unsafe.Pointer(&x.v), false); return x.v.Load() }
func (x *Int32) Store(v int32)                  { pa(unsafe.Pointer(&x.v), true); x.v.Store(v) }
func (x *Int32) Swap(v int32) int32             { pa(unsafe.Pointer(&x.v), true); return x.v.Swap(v) }
func (x *Int32) Add(d int32) int32              { pa(unsafe.Pointer(&x.v), true); return x.v.Add(d) }
func (x *Int32) CompareAndSwap(o, n int32) bool { pa(unsafe.Pointer(&x.v), true); return x.v.CompareAndSwap(o, n) }
func (x *Int32) And(m int32) int32              { pa(unsafe.Pointer(&x.v), true); return x.v.And(m) }
func (x *Int32) Or(m int32) int32               { pa(unsafe.Pointer(&x.v), true); return x.v.Or(m) }

type Int64 struct{ v atomic.Int64 }

func (x *Int64) Load() int64                    { pa(unsafe.Pointer(&x.v), false); return x.v.Load() }
func (x *Int64) Store(v int64)                  { pa(unsafe.Pointer(&x.v), true); x.v.Store(v) }
func (x *Int64) Swap(v int64) int64             { pa(unsafe.Pointer(&x.v), true); return x.v.Swap(v) }
func (x *Int64) Add(d int64) int64              { pa(unsafe.Pointer(&x.v), true); return x.v.Add(d) }
func (x *Int64) CompareAndSwap(o, n int64) bool { pa(unsafe.Pointer(&x.v), true); return x.v.CompareAndSwap(o, n) }
func (x *Int64) And(m int64) int64              { pa(unsafe.Pointer(&x.v), true); return x.v.And(m) }
func (x *Int64) Or(m int64) int64               { pa(unsafe.Pointer(&x.v), true); return x.v.Or(m) }

type Uint32 struct{ v atomic.Uint32 }

func (x *Uint32) Load() uint32                    { pa(unsafe.Pointer(&x.v), false); return x.v.Load() }
func (x *Uint32) Store(v uint32)                  { pa(unsafe.Pointer(&x.v), true); x.v.Store(v) }
func (x *Uint32) Swap(v uint32) uint32            { pa(unsafe.Pointer(&x.v), true); return x.v.Swap(v) }
func (x *Uint32) Add(d uint32) uint32             { pa(unsafe.Pointer(&x.v), true); return x.v.Add(d) }
func (x *Uint32) CompareAndSwap(o, n uint32) bool { pa(unsafe.Pointer(&x.v), true); return x.v.CompareAndSwap(o, n) }
func (x *Uint32) And(m uint32) uint32             { pa(unsafe.Pointer(&x.v), true); return x.v.And(m) }
func (x *Uint32) Or(m uint32) uint32              { pa(unsafe.Pointer(&x.v), true); return x.v.Or(m) }

type Uint64 struct{ v atomic.Uint64 }

func (x *Uint64) Load() uint64                    { pa(unsafe.Pointer(&x.v), false); return x.v.Load() }
func (x *Uint64) Store(v uint64)                  { pa(unsafe.Pointer(&x.v), true); x.v.Store(v) }
func (x *Uint64) Swap(v uint64) uint64            { pa(unsafe.Pointer(&x.v), true); return x.v.Swap(v) }
func (x *Uint64) Add(d uint64) uint64             { pa(unsafe.Pointer(&x.v), true); return x.v.Add(d) }
func (x *Uint64) CompareAndSwap(o, n uint64) bool { pa(unsafe.Pointer(&x.v), true); return x.v.CompareAndSwap(o, n) }
func (x *Uint64) And(m uint64) uint64             { pa(unsafe.Pointer(&x.v), true); return x.v.And(m) }
func (x *Uint64) Or(m uint64) uint64              { pa(unsafe.Pointer(&x.v), true); return x.v.Or(m) }

type Uintptr struct{ v atomic.Uintptr }

func (x *Uintptr) Load() uintptr                    { pa(unsafe.Pointer(&x.v), false); return x.v.Load() }
func (x *Uintptr) Store(v uintptr)                  { pa(unsafe.Pointer(&x.v), true); x.v.Store(v) }
func (x *Uintptr) Swap(v uintptr) uintptr           { pa(unsafe.Pointer(&x.v), true); return x.v.Swap(v) }
func (x *Uintptr) Add(d uintptr) uintptr            { pa(unsafe.Pointer(&x.v), true); return x.v.Add(d) }
func (x *Uintptr) CompareAndSwap(o, n uintptr) bool { pa(unsafe.Pointer(&x.v), true); return x.v.CompareAndSwap(o, n) }

type Pointer[T any] struct{ v atomic.Pointer[T] }

func (x *Pointer[T]) Load() *T                    { pa(unsafe.Pointer(&x.v), false); return x.v.Load() }
func (x *Pointer[T]) Store(v *T)                  { pa(unsafe.Pointer(&x.v), true); x.v.Store(v) }
func (x *Pointer[T]) Swap(v *T) *T                { pa(unsafe.Pointer(&x.v), true); return x.v.Swap(v) }
func (x *Pointer[T]) CompareAndSwap(o, n *T) bool { pa(unsafe.Pointer(&x.v), true); return x.v.CompareAndSwap(o, n) }

type Value struct{ v atomic.Value }

func (x *Value) Load() any                    { pa(unsafe.Pointer(&x.v), false); return x.v.Load() }
func (x *Value) Store(v any)                  { pa(unsafe.Pointer(&x.v), true); x.v.Store(v) }
func (x *Value) Swap(v any) any               { pa(unsafe.Pointer(&x.v), true); return x.v.Swap(v) }
func (x *Value) CompareAndSwap(o, n any) bool { pa(unsafe.Pointer(&x.v), true); return x.v.CompareAndSwap(o, n) }
