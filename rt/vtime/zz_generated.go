// Code generated from the export data of "time"; DO NOT EDIT.

package vtime

import "time"

type (
	Duration = time.Duration
	Location = time.Location
	Month = time.Month
	ParseError = time.ParseError
	Time = time.Time
	Weekday = time.Weekday
)

const (
	ANSIC = time.ANSIC
	April = time.April
	August = time.August
	DateOnly = time.DateOnly
	DateTime = time.DateTime
	December = time.December
	February = time.February
	Friday = time.Friday
	Hour = time.Hour
	January = time.January
	July = time.July
	June = time.June
	Kitchen = time.Kitchen
	Layout = time.Layout
	March = time.March
	May = time.May
	Microsecond = time.Microsecond
	Millisecond = time.Millisecond
	Minute = time.Minute
	Monday = time.Monday
	Nanosecond = time.Nanosecond
	November = time.November
	October = time.October
	RFC1123 = time.RFC1123
	RFC1123Z = time.RFC1123Z
	RFC3339 = time.RFC3339
	RFC3339Nano = time.RFC3339Nano
	RFC822 = time.RFC822
	RFC822Z = time.RFC822Z
	RFC850 = time.RFC850
	RubyDate = time.RubyDate
	Saturday = time.Saturday
	Second = time.Second
	September = time.September
	Stamp = time.Stamp
	StampMicro = time.StampMicro
	StampMilli = time.StampMilli
	StampNano = time.StampNano
	Sunday = time.Sunday
	Thursday = time.Thursday
	TimeOnly = time.TimeOnly
	Tuesday = time.Tuesday
	UnixDate = time.UnixDate
	Wednesday = time.Wednesday
)

var (
	Local = time.Local
	UTC = time.UTC
)

var (
	Date = time.Date
	FixedZone = time.FixedZone
	LoadLocation = time.LoadLocation
	LoadLocationFromTZData = time.LoadLocationFromTZData
	Parse = time.Parse
	ParseDuration = time.ParseDuration
	ParseInLocation = time.ParseInLocation
	Unix = time.Unix
	UnixMicro = time.UnixMicro
	UnixMilli = time.UnixMilli
)
