// Package vtime replaces "time" in instrumented packages: the clock is the scheduler's
// virtual clock, timers fire as scheduler transitions.
package vtime

import (
	"time"

	"github.com/aptpod/iscp-go/internal/vsched"
)

// Epoch is virtual time zero.
var Epoch = time.Date(2024, 1, 1, 0, 0, 0, 0, time.UTC)

func Now() Time {
	if !vsched.Active() {
		return Epoch
	}
	return Epoch.Add(vsched.Now())
}

func Since(t Time) Duration { return Now().Sub(t) }
func Until(t Time) Duration { return t.Sub(Now()) }

func Sleep(d Duration) {
	if d <= 0 {
		vsched.Yield(vsched.CallerSite(1))
		return
	}
	vsched.Sleep(d, vsched.CallerSite(1))
}

// Timer mirrors time.Timer.
type Timer struct {
	C    <-chan Time
	c    chan Time
	f    func()
	site string
	stop func() bool
}

func (t *Timer) arm(d Duration) {
	if t.f != nil {
		f, site := t.f, t.site
		t.stop = vsched.AfterFunc(d, site, func() { vsched.Spawn(site, f) })
		return
	}
	c := t.c
	t.stop = vsched.AfterFunc(d, t.site, func() {
		select {
		case c <- Now():
			vsched.EnvSend(c)
		default:
		}
	})
}

func NewTimer(d Duration) *Timer {
	c := make(chan Time, 1)
	t := &Timer{C: c, c: c, site: vsched.CallerSite(1)}
	t.arm(d)
	return t
}

func AfterFunc(d Duration, f func()) *Timer {
	t := &Timer{f: f, site: vsched.CallerSite(1)}
	t.arm(d)
	return t
}

func After(d Duration) <-chan Time {
	c := make(chan Time, 1)
	t := &Timer{C: c, c: c, site: vsched.CallerSite(1)}
	t.arm(d)
	return c
}

func (t *Timer) Stop() bool {
	if t.stop == nil {
		return false
	}
	return t.stop()
}

func (t *Timer) Reset(d Duration) bool {
	was := t.Stop()
	if t.c != nil { // Go 1.23 semantics: no stale value after Reset
		select {
		case <-t.c:
		default:
		}
	}
	t.arm(d)
	return was
}

// Ticker mirrors time.Ticker.
type Ticker struct {
	C    <-chan Time
	c    chan Time
	d    Duration
	site string
	stop func() bool
	gen  int
}

func NewTicker(d Duration) *Ticker {
	if d <= 0 {
		panic("non-positive interval for NewTicker")
	}
	c := make(chan Time, 1)
	t := &Ticker{C: c, c: c, d: d, site: vsched.CallerSite(1)}
	t.arm()
	return t
}

func (t *Ticker) arm() {
	gen := t.gen
	t.stop = vsched.AfterFunc(t.d, t.site, func() {
		if gen != t.gen {
			return
		}
		select {
		case t.c <- Now():
			vsched.EnvSend(t.c)
		default:
		}
		t.arm()
	})
}

func (t *Ticker) Stop() {
	t.gen++
	if t.stop != nil {
		t.stop()
	}
}

func (t *Ticker) Reset(d Duration) {
	if d <= 0 {
		panic("non-positive interval for Ticker.Reset")
	}
	t.Stop()
	t.d = d
	t.arm()
}

func Tick(d Duration) <-chan Time {
	if d <= 0 {
		return nil
	}
	return NewTicker(d).C
}
