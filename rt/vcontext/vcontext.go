// Package vcontext replaces "context" in instrumented packages. Cancellation and deadlines
// are scheduler-visible operations on the virtual clock; Err() returns the std sentinels.
package vcontext

import (
	"context"
	"time"

	"github.com/aptpod/iscp-go/internal/vsched"
	"github.com/aptpod/iscp-go/internal/vtime"
)

type ctxKey struct{}

var cancelCtxKey ctxKey

type afterFn struct {
	f    func()
	site string
	dead bool
}

type cancelCtx struct {
	parent   Context
	done     chan struct{}
	err      error
	cause    error
	children []*cancelCtx
	up       *cancelCtx
	deadline time.Time
	hasDL    bool
	stopTm   func() bool
	after    []*afterFn
}

func (c *cancelCtx) Deadline() (time.Time, bool) {
	if c.hasDL {
		return c.deadline, true
	}
	return c.parent.Deadline()
}
func (c *cancelCtx) Done() <-chan struct{} { return c.done }
func (c *cancelCtx) Err() error            { return c.err }
func (c *cancelCtx) Value(key any) any {
	if key == &cancelCtxKey {
		return c
	}
	return c.parent.Value(key)
}
func (c *cancelCtx) String() string { return "vcontext" }

func newCancelCtx(parent Context) *cancelCtx {
	if parent == nil {
		panic("cannot create context from nil parent")
	}
	c := &cancelCtx{parent: parent, done: make(chan struct{})}
	pd := parent.Done()
	if pd == nil {
		return c
	}
	p, ok := parent.Value(&cancelCtxKey).(*cancelCtx)
	if !ok || p.done != pd {
		panic("vcontext: parent context with a foreign Done channel is not supported under the scheduler")
	}
	if p.err != nil {
		c.doCancel(p.err, p.cause)
		return c
	}
	p.children = append(p.children, c)
	c.up = p
	return c
}

// doCancel performs the cancellation without a scheduling point.
func (c *cancelCtx) doCancel(err, cause error) {
	if c.err != nil {
		return
	}
	if cause == nil {
		cause = err
	}
	c.err = err
	c.cause = cause
	vsched.MarkClosed(c.done)
	ch := c.children
	c.children = nil
	for _, k := range ch {
		k.up = nil
		k.doCancel(err, cause)
	}
	if c.up != nil {
		u := c.up
		for i, k := range u.children {
			if k == c {
				u.children = append(u.children[:i:i], u.children[i+1:]...)
				break
			}
		}
		c.up = nil
	}
	if c.stopTm != nil {
		c.stopTm()
		c.stopTm = nil
	}
	af := c.after
	c.after = nil
	for _, a := range af {
		if !a.dead {
			a.dead = true
			vsched.Spawn(a.site, a.f)
		}
	}
}

func (c *cancelCtx) cancelFromThread(err, cause error, site string) {
	if c.err != nil {
		return
	}
	vsched.Yield(site)
	c.doCancel(err, cause)
}

func WithCancel(parent Context) (Context, CancelFunc) {
	c := newCancelCtx(parent)
	site := vsched.CallerSite(1)
	return c, func() { c.cancelFromThread(context.Canceled, nil, site) }
}

func WithCancelCause(parent Context) (Context, CancelCauseFunc) {
	c := newCancelCtx(parent)
	site := vsched.CallerSite(1)
	return c, func(cause error) { c.cancelFromThread(context.Canceled, cause, site) }
}

func WithDeadlineCause(parent Context, d time.Time, cause error) (Context, CancelFunc) {
	site := vsched.CallerSite(1)
	return withDeadline(parent, d, cause, site)
}

func withDeadline(parent Context, d time.Time, cause error, site string) (Context, CancelFunc) {
	c := newCancelCtx(parent)
	cancel := func() { c.cancelFromThread(context.Canceled, nil, site) }
	if cur, ok := parent.Deadline(); ok && cur.Before(d) {
		return c, cancel
	}
	c.deadline, c.hasDL = d, true
	if c.err != nil {
		return c, cancel
	}
	dur := d.Sub(vtime.Now())
	if dur <= 0 {
		c.doCancel(context.DeadlineExceeded, cause)
		return c, cancel
	}
	c.stopTm = vsched.AfterFunc(dur, site, func() { c.doCancel(context.DeadlineExceeded, cause) })
	return c, cancel
}

func WithDeadline(parent Context, d time.Time) (Context, CancelFunc) {
	return withDeadline(parent, d, nil, vsched.CallerSite(1))
}

func WithTimeout(parent Context, timeout time.Duration) (Context, CancelFunc) {
	return withDeadline(parent, vtime.Now().Add(timeout), nil, vsched.CallerSite(1))
}

func WithTimeoutCause(parent Context, timeout time.Duration, cause error) (Context, CancelFunc) {
	return withDeadline(parent, vtime.Now().Add(timeout), cause, vsched.CallerSite(1))
}

func Cause(c Context) error {
	if cc, ok := c.Value(&cancelCtxKey).(*cancelCtx); ok {
		return cc.cause
	}
	return c.Err()
}

func AfterFunc(ctx Context, f func()) (stop func() bool) {
	site := vsched.CallerSite(1)
	pd := ctx.Done()
	if pd == nil {
		return func() bool { return true }
	}
	p, ok := ctx.Value(&cancelCtxKey).(*cancelCtx)
	if !ok || p.done != pd {
		panic("vcontext.AfterFunc: foreign context")
	}
	a := &afterFn{f: f, site: site}
	if p.err != nil {
		a.dead = true
		vsched.Spawn(site, f)
		return func() bool { return false }
	}
	p.after = append(p.after, a)
	return func() bool {
		was := !a.dead
		a.dead = true
		return was
	}
}
