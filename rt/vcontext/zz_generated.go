// Code generated from the export data of "context"; DO NOT EDIT.

package vcontext

import "context"

type (
	CancelCauseFunc = context.CancelCauseFunc
	CancelFunc = context.CancelFunc
	Context = context.Context
)

const (

)

var (
	Canceled = context.Canceled
	DeadlineExceeded = context.DeadlineExceeded
)

var (
	Background = context.Background
	TODO = context.TODO
	WithValue = context.WithValue
	WithoutCancel = context.WithoutCancel
)
