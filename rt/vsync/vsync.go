// Package vsync replaces "sync" in instrumented packages.
package vsync

import (
	"sync"

	"github.com/aptpod/iscp-go/internal/vsched"
)

type (
	Mutex     = vsched.Mutex
	RWMutex   = vsched.RWMutex
	Cond      = vsched.Cond
	WaitGroup = vsched.WaitGroup
	Once      = vsched.Once
	Locker    = sync.Locker
	Map       = sync.Map
	Pool      = sync.Pool
)

func NewCond(l Locker) *Cond { return vsched.NewCond(l) }

func OnceFunc(f func()) func() { return vsched.OnceFunc(f) }

func OnceValue[T any](f func() T) func() T { return vsched.OnceValue(f) }

func OnceValues[T1, T2 any](f func() (T1, T2)) func() (T1, T2) { return vsched.OnceValues(f) }
