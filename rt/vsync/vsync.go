// Package vsync replaces "sync" in instrumented packages.
package vsync

import (
	"sync"

	"github.com/aptpod/iscp-go/internal/vsched"
)

type (
	Mutex     = vsched.Mutex
	RWMutex   = vsched.RWMutex
	Cond      = vsched.Cond
	WaitGroup = vsched.WaitGroup
	Once      = vsched.Once
	Locker    = sync.Locker
	Map       = sync.Map
)

func NewCond(l Locker) *Cond { return vsched.NewCond(l) }

func OnceFunc(f func()) func() { return vsched.OnceFunc(f) }

func OnceValue[T any](f func() T) func() T { return vsched.OnceValue(f) }

func OnceValues[T1, T2 any](f func() (T1, T2)) func() (T1, T2) { return vsched.OnceValues(f) }

// Pool is a deterministic sync.Pool: LIFO, never drops an item, emptied at the start of every execution
// (a legal Pool behaviour; the real one depends on the GC and on per-P caches, which the scheduler does not control).
type Pool struct {
	New   func() any
	items []any
	epoch uint64
}

func (p *Pool) sync() {
	if e := vsched.Epoch(); e != p.epoch {
		p.items, p.epoch = nil, e
	}
}

func (p *Pool) Get() any {
	p.sync()
	if n := len(p.items); n > 0 {
		x := p.items[n-1]
		p.items = p.items[:n-1]
		return x
	}
	if p.New != nil {
		return p.New()
	}
	return nil
}

func (p *Pool) Put(x any) {
	p.sync()
	if x != nil {
		p.items = append(p.items, x)
	}
}
